"""Helpers of C04: an abstract interpreter for "what happens to ONE entry of a
dictionary field" (`self._recent_messages[(message.remote, message.mid)]`).

The rule clauses of C04 are of the form "when the identifier is unknown the
filter records None, arms the expiry and answers False; when it is known ..."
They are decided here by *running* the function symbolically for every initial
state of that one entry (absent / present without reply / present with a reply)
and every message type, instead of matching the shape of the `if` statements.
Every spelling of a dictionary access is interpreted by its meaning:

    read     d[k]   d.get(k)   d.get(k, default)   d.__getitem__(k)
             try: d[k] / except KeyError
    test     k in d   k not in d   k in d.keys()   d.__contains__(k)
             v is None / v is SENTINEL / v == ... / truthiness of a read value
    insert   d[k] = v   d.setdefault(k, v)   d.__setitem__(k, v)
    remove   d.pop(k)   d.pop(k, default)   del d[k]   d.__delitem__(k)

Locals (also walrus targets, aliases of the table / the key / the message) are
an environment of abstract values, so hoisted names, guard clauses vs. nested
ifs, De Morgan forms, `in (A, B)` vs `== A or == B` make no difference.  A
condition the interpreter cannot decide forks the run (both outcomes are
followed and have to satisfy the obligations), so an *additional* condition on
an effect is found as a path on which the effect is missing.

The body of a deferred callable (the expiry callback: lambda, nested def,
partial, method / classmethod / staticmethod of the class, with the table and
other arguments handed on through the timer) is run in "late" mode: values
computed when the timer was armed keep their meaning, but whatever the body
reads from the message *object* is read when it runs -- a key built there is
LATEKEY, not KEY.

WireFlow (end of the file) walks back from the transmission primitive to the
call sites a message comes from.

Nothing of the analysed repository is imported or executed.
"""

import ast
import copy
from collections import ChainMap

from ..model import AnalysisError, walk_no_nested, stmt_text
from ..pat import chain, call_name, dump
from ..rulekit import is_log_call, writes_to_name, params, stores_to_any
from ..paths import atom_key

ABSENT = ("absent",)
NONE = ("none",)
REPLY = ("reply",)  # the object stored under the key when the function is entered
KEY = ("key",)
# the identifier computed from the message object *when a deferred callable runs* (see EntrySim._call_def)
LATEKEY = ("latekey",)
TABLE = ("table",)
UNKNOWN = ("unknown",)

MTYPES = ("CON", "NON", "ACK", "RST")
_LATE = "__when_called"

_PURE_CALLS = {"len", "isinstance", "str", "repr", "bool", "id", "type", "int", "tuple", "hash", "getattr", "hasattr"}
_PARTIAL = {"functools.partial", "partial"}
_MAX_STATES = 4000


class SimRaise(Exception):
    def __init__(self, exc):
        Exception.__init__(self, exc)
        self.exc = exc


class State:
    __slots__ = ("entry", "env", "trace", "dec", "mtype")

    def __init__(self, entry, mtype, env=None, trace=None, dec=None):
        self.entry = entry
        self.mtype = mtype
        self.env = env if env is not None else {}
        self.trace = trace if trace is not None else []
        self.dec = dec if dec is not None else {}

    def fork(self):
        return State(self.entry, self.mtype, dict(self.env), list(self.trace), dict(self.dec))


class Result:
    """One complete run: how it ended and what it did."""

    def __init__(self, kind, payload, st, entry0):
        self.kind = kind  # "return" | "raise" | "fall"
        self.value = payload[0] if kind == "return" else None
        self.node = payload[1] if kind == "return" else None
        self.exc = payload if kind == "raise" else None
        self.trace = st.trace
        self.dec = st.dec
        self.entry0 = entry0
        self.entry = st.entry
        self.mtype = st.mtype

    def events(self, kind):
        return [ev for ev in self.trace if ev[0] == kind]

    def where(self):
        names = {ABSENT: "identifier unknown", NONE: "identifier known, no reply recorded", REPLY: "identifier known, reply recorded"}
        d = ["%s%s" % ("" if v else "not ", k) for k, v in sorted(self.dec.items())]
        return "%s, mtype %s%s" % (names.get(self.entry0, self.entry0), self.mtype, (", " + ", ".join(d)) if d else "")


def _kind(v):
    return v[0] if isinstance(v, tuple) and v else "unknown"


class EntrySim:
    """Symbolic execution of `fi` with respect to the entry `field[key]`.

    is_key(canonical expr) -> bool decides whether an expression denotes the key
    of the entry under observation.  `mparam` is the name of the message
    parameter (its `.mtype` is the finite-domain subject)."""

    def __init__(self, prog, fi, field_chain, mparam, key_parts=("remote", "mid"), opaque=()):
        self.prog = prog
        self.fi = fi
        self.fn = fi.node
        self.field = field_chain
        self.field_name = field_chain.split(".")[-1]
        self.mparam = mparam
        self.key_parts = key_parts
        self.opaque = set(opaque)  # methods of self that may touch the table and are judged elsewhere
        self.callback_methods = set()  # short names of methods found to be the expiry callback
        self.uninterpreted = []  # reasons why a callback could not be interpreted
        self._rebound = {}
        self.late = False  # True inside the body of a deferred callable (the expiry callback)
        self.message_truthy = self._message_truthy()
        self.message_identity_eq = self._message_identity_eq()

    # -- static facts ----------------------------------------------------------
    def _message_cls(self):
        try:
            return self.prog.cls("message.Message")
        except AnalysisError:
            return None

    def _message_truthy(self):
        """Message defines neither __bool__ nor __len__: every Message is truthy."""
        ci = self._message_cls()
        if ci is None:
            return None
        for name in ("__bool__", "__len__"):
            if self.prog.lookup_method(ci.qn, name) is not None:
                return None
        return True

    def _message_identity_eq(self):
        ci = self._message_cls()
        return ci is not None and self.prog.lookup_method(ci.qn, "__eq__") is None

    def _bound_once(self, fnode, name):
        k = (id(fnode), name)
        if k not in self._rebound:
            n = len(writes_to_name(fnode, name))
            a = fnode.args
            is_param = any(x.arg == name for x in a.posonlyargs + a.args + a.kwonlyargs) if not isinstance(fnode, ast.Lambda) else False
            self._rebound[k] = (n == 0) if is_param else (n <= 1)
        return self._rebound[k]

    def _sentinel(self, e):
        """A module constant / class attribute bound to `object()`: a value that is
        neither None nor any message."""
        if isinstance(e, ast.Name):
            m = self.fi.module
            vals = []
            for st in m.tree.body:
                tg = []
                if isinstance(st, ast.Assign):
                    tg = [(t, st.value) for t in st.targets]
                elif isinstance(st, ast.AnnAssign) and st.value is not None:
                    tg = [(st.target, st.value)]
                for t, v in tg:
                    if isinstance(t, ast.Name) and t.id == e.id:
                        vals.append(v)
            if len(vals) == 1 and isinstance(vals[0], ast.Call) and chain(vals[0].func) == "object" and not vals[0].args:
                return ("sentinel", e.id)
            return None
        if isinstance(e, ast.Attribute) and isinstance(e.value, ast.Name) and self.fi.cls is not None:
            if e.value.id in ("self", "cls", self.fi.cls.node.name):
                v, _ci = self.prog.class_attr(self.fi.cls.qn, e.attr)
                if isinstance(v, ast.Call) and chain(v.func) == "object" and not v.args:
                    return ("sentinel", e.attr)
        return None

    # -- canonical expressions -----------------------------------------------
    def canon(self, e, st):
        """Copy of e with locals replaced by what they stand for (pure expressions,
        the message parameter, the table, the key)."""
        sim = self

        class T(ast.NodeTransformer):
            def visit_Name(s, n):
                if isinstance(n.ctx, ast.Load) and n.id in st.env:
                    v = st.env[n.id]
                    k = _kind(v)
                    if k == "expr" and v[1] is not None:
                        return copy.deepcopy(v[1])
                    if k == "param":
                        return ast.Name(id=v[1], ctx=ast.Load())
                    if k == "lateparam":
                        return ast.Name(id=v[1] + _LATE, ctx=ast.Load())
                    if k == "table":
                        return ast.parse(sim.field, mode="eval").body
                    if k == "key":
                        return sim.key_ast()
                return n

            def visit_Lambda(s, n):
                return n

        return T().visit(copy.deepcopy(e))

    def key_ast(self):
        return ast.parse("(%s)" % ", ".join("%s.%s" % (self.mparam, p) for p in self.key_parts), mode="eval").body

    def _is_key_tuple(self, ce):
        return (
            isinstance(ce, ast.Tuple)
            and len(ce.elts) == len(self.key_parts)
            and all(chain(x) == "%s.%s" % (self.mparam, p) for x, p in zip(ce.elts, self.key_parts))
        )

    def _is_late_key_tuple(self, ce):
        """(message.remote, message.mid) with at least one component read from the message object inside a
        deferred callable: the identifier the message has when the callable runs, not the one it had when the
        callable was handed to the timer."""
        if not (isinstance(ce, ast.Tuple) and len(ce.elts) == len(self.key_parts)):
            return False
        late = 0
        for x, p in zip(ce.elts, self.key_parts):
            c = chain(x)
            if c == "%s%s.%s" % (self.mparam, _LATE, p):
                late += 1
            elif c != "%s.%s" % (self.mparam, p):
                return False
        return late > 0

    # -- values ----------------------------------------------------------------------
    def ev(self, e, st):
        if isinstance(e, ast.Constant):
            if e.value is None:
                return NONE
            if isinstance(e.value, bool):
                return ("bool", e.value)
            return ("const", e.value)
        if isinstance(e, ast.Name):
            if e.id in st.env:
                return st.env[e.id]
            if e.id == self.mparam:
                return ("param", e.id)
            if e.id in MTYPES:
                return ("sym", e.id)
            s = self._sentinel(e)
            if s is not None:
                return s
            return ("expr", e)
        if isinstance(e, ast.Attribute):
            ce = self.canon(e, st)
            c = chain(ce)
            if c == self.field:
                return TABLE
            if c == self.mparam + ".mtype":
                return ("sym", st.mtype)
            if c is not None:
                parts = c.split(".")
                if parts[-1] in MTYPES and parts[0] not in (self.mparam, "self"):
                    return ("sym", parts[-1])
            s = self._sentinel(e)
            if s is not None:
                return s
            return ("expr", ce)
        if isinstance(e, ast.Tuple):
            ce = self.canon(e, st)
            if self._is_key_tuple(ce):
                return KEY
            if self._is_late_key_tuple(ce):
                return LATEKEY
            return ("expr", ce)
        if isinstance(e, ast.Subscript):
            base = self.ev(e.value, st)
            if base == TABLE:
                return self._getitem(e.slice, e, st)
            return ("expr", self.canon(e, st))
        if isinstance(e, ast.NamedExpr):
            v = self.ev(e.value, st)
            st.env[e.target.id] = v
            return v
        if isinstance(e, ast.IfExp):
            t = self.truth(e.test, st)
            if t is None:
                a, b = self.ev(e.body, st), self.ev(e.orelse, st)
                return a if a == b and _kind(a) not in ("expr", "unknown") else UNKNOWN
            return self.ev(e.body if t else e.orelse, st)
        if isinstance(e, ast.BoolOp):
            val = UNKNOWN
            for v in e.values:
                val = self.ev(v, st)
                t = self.truthy(val)
                if t is None:
                    return UNKNOWN
                if isinstance(e.op, ast.And) and not t:
                    return val
                if isinstance(e.op, ast.Or) and t:
                    return val
            return val
        if isinstance(e, ast.Compare) or (isinstance(e, ast.UnaryOp) and isinstance(e.op, ast.Not)):
            t = self.truth(e, st)
            return UNKNOWN if t is None else ("bool", t)
        if isinstance(e, ast.Call):
            return self.ev_call(e, st)
        if isinstance(e, ast.Lambda):
            return ("lambda", e)
        for sub in ast.iter_child_nodes(e):  # walrus / reads nested in arithmetic, f-strings ...
            if isinstance(sub, ast.expr):
                self.ev(sub, st)
        return ("expr", self.canon(e, st))

    def _check_key(self, kexpr, node, st):
        k = self.ev(kexpr, st)
        if k == KEY:
            return True
        st.trace.append(("latekey" if k == LATEKEY else "foreignkey", node))
        return False

    def _getitem(self, kexpr, node, st):
        if not self._check_key(kexpr, node, st):
            return UNKNOWN
        if st.entry == ABSENT:
            raise SimRaise("KeyError")
        return st.entry

    def _insert(self, kexpr, value, node, st):
        if not self._check_key(kexpr, node, st):
            return
        st.trace.append(("insert", value, node))
        st.entry = value

    def _remove(self, kexpr, node, st, default=None):
        """-> popped value"""
        if not self._check_key(kexpr, node, st):
            return UNKNOWN
        st.trace.append(("remove", node, default is not None))
        if st.entry == ABSENT:
            if default is not None:
                return self.ev(default, st)
            raise SimRaise("KeyError")
        v = st.entry
        st.entry = ABSENT
        return v

    def eq(self, a, b):
        """Is a the same value as b?  True / False / None (unknown)."""
        ka, kb = _kind(a), _kind(b)
        soft = {"expr", "unknown", "table", "lambda", "func", "lateparam", "latekey"}
        if ka in soft or kb in soft:
            return None
        if ka == kb:
            if ka in ("none", "reply", "key"):
                return True
            if ka in ("sym", "sentinel", "bool"):
                return a[1] == b[1]
            if ka == "const":
                return a[1] == b[1] if type(a[1]) is type(b[1]) else None
            if ka == "param":
                return True if a[1] == b[1] else None
            return None
        pair = {ka, kb}
        if pair == {"reply", "param"}:
            return None  # two messages: could be one object
        if pair & {"const", "bool"}:
            if pair & {"sym"}:
                return None  # IntEnum members compare equal to ints
            if pair == {"const", "bool"}:
                return None
            if pair & {"reply", "param"}:
                return False if self.message_identity_eq else None
            return False  # None / a fresh object() / a tuple against a literal
        if pair & {"reply", "param"}:
            # a Message against None, a sentinel object, an enum member, a tuple
            return False if (self.message_identity_eq or pair & {"none"}) else None
        return False

    def truthy(self, v):
        k = _kind(v)
        if k == "none":
            return False
        if k == "bool":
            return v[1]
        if k == "const":
            return bool(v[1])
        if k in ("sentinel", "key"):
            return True
        if k in ("reply", "param"):
            return self.message_truthy
        return None

    def truth(self, e, st):
        """Three-valued truth of a boolean expression in state st (evaluates it:
        walrus targets are bound, reads of an absent entry raise)."""
        if isinstance(e, ast.UnaryOp) and isinstance(e.op, ast.Not):
            t = self.truth(e.operand, st)
            return None if t is None else (not t)
        if isinstance(e, ast.BoolOp):
            res = isinstance(e.op, ast.And)
            for v in e.values:
                t = self.truth(v, st)
                if t is None:
                    return None
                if isinstance(e.op, ast.And) and not t:
                    return False
                if isinstance(e.op, ast.Or) and t:
                    return True
            return res
        if isinstance(e, ast.Compare):
            left = e.left
            lv = None
            res = True
            for i, (op, right) in enumerate(zip(e.ops, e.comparators)):
                if lv is None:
                    lv = self.ev(left, st)
                t, rv = self._cmp(lv, op, right, e, st)
                if t is False:
                    return False
                if t is None:
                    res = None
                lv = rv
            return res
        return self.truthy(self.ev(e, st))

    def _cmp(self, lv, op, right, node, st):
        if isinstance(op, (ast.In, ast.NotIn)):
            r = right
            is_tab = False
            if isinstance(r, ast.Call) and isinstance(r.func, ast.Attribute) and r.func.attr == "keys" and not r.args:
                is_tab = self.ev(r.func.value, st) == TABLE
                rv = UNKNOWN
            elif isinstance(r, (ast.Tuple, ast.List, ast.Set)):
                vals = [self.ev(x, st) for x in r.elts]
                eqs = [self.eq(lv, v) for v in vals]
                if any(x is True for x in eqs):
                    res = True
                elif all(x is False for x in eqs):
                    res = False
                else:
                    return None, UNKNOWN
                return (res if isinstance(op, ast.In) else not res), UNKNOWN
            else:
                rv = self.ev(r, st)
                is_tab = rv == TABLE
            if is_tab:
                if lv != KEY:
                    st.trace.append(("latekey" if lv == LATEKEY else "foreignkey", node))
                    return None, rv
                res = st.entry != ABSENT
                return (res if isinstance(op, ast.In) else not res), rv
            return None, rv
        rv = self.ev(right, st)
        if isinstance(op, (ast.Is, ast.IsNot, ast.Eq, ast.NotEq)):
            q = self.eq(lv, rv)
            if q is None:
                return None, rv
            return (q if isinstance(op, (ast.Is, ast.Eq)) else not q), rv
        return None, rv

    # -- calls -----------------------------------------------------------------------
    def ev_call(self, c, st):
        if is_log_call(c):
            return UNKNOWN
        f = c.func
        if isinstance(f, ast.Attribute):
            base = self.ev(f.value, st)
            if base == TABLE:
                return self._table_method(f.attr, c, st)
            if f.attr in ("call_later", "call_at") and len(c.args) >= 2 and not any(isinstance(a, ast.Starred) for a in c.args):
                self._timer(c, st)
                return UNKNOWN
        name = call_name(c) or ""
        if name in _PARTIAL:
            return ("expr", self.canon(c, st))
        args = [self.ev(a.value if isinstance(a, ast.Starred) else a, st) for a in c.args]
        for kw in c.keywords:
            self.ev(kw.value, st)
        cf = chain(self.canon(f, st)) or ""
        root = cf.split(".")[0]
        if name in _PURE_CALLS:
            return ("expr", self.canon(c, st))
        if root == self.mparam:
            # a method of the message (message.code.is_request(), message.remote.is_multicast ...): a read
            return ("expr", self.canon(c, st))
        if root == "self" and not cf.startswith("self.loop.") and not cf.startswith("self.log."):
            if isinstance(f, ast.Attribute) and isinstance(f.value, ast.Name) and f.value.id == "self" and self.fi.cls is not None:
                callee = self.prog.lookup_method(self.fi.cls.qn, f.attr)
                if callee is not None and callee.node is not self.fn and f.attr not in self.opaque and stores_to_any(callee.node, self.field_name):
                    raise AnalysisError(
                        "%s: the table %s is manipulated through the helper %s, which the helper expansion left in place; "
                        "its effect on the entry cannot be interpreted" % (self.fi.short, self.field, cf)
                    )
            st.trace.append(("call", cf, args, c))
        return UNKNOWN

    def _table_method(self, attr, c, st):
        a = c.args
        if any(isinstance(x, ast.Starred) for x in a) or c.keywords:
            if attr in ("keys", "values", "items", "copy"):
                return UNKNOWN
            st.trace.append(("tableop", attr, c))
            return UNKNOWN
        if attr == "get" and 1 <= len(a) <= 2:
            if not self._check_key(a[0], c, st):
                return UNKNOWN
            if st.entry == ABSENT:
                return self.ev(a[1], st) if len(a) == 2 else NONE
            return st.entry
        if attr == "__getitem__" and len(a) == 1:
            return self._getitem(a[0], c, st)
        if attr == "__contains__" and len(a) == 1:
            if not self._check_key(a[0], c, st):
                return UNKNOWN
            return ("bool", st.entry != ABSENT)
        if attr == "pop" and 1 <= len(a) <= 2:
            return self._remove(a[0], c, st, default=a[1] if len(a) == 2 else None)
        if attr == "__delitem__" and len(a) == 1:
            self._remove(a[0], c, st)
            return NONE
        if attr == "__setitem__" and len(a) == 2:
            self._insert(a[0], self.ev(a[1], st), c, st)
            return NONE
        if attr == "setdefault" and 1 <= len(a) <= 2:
            if not self._check_key(a[0], c, st):
                return UNKNOWN
            if st.entry == ABSENT:
                v = self.ev(a[1], st) if len(a) == 2 else NONE
                st.trace.append(("insert", v, c))
                st.entry = v
            return st.entry
        if attr in ("keys", "values", "items", "copy", "__len__"):
            return UNKNOWN
        if attr == "update" and len(a) == 1 and isinstance(a[0], ast.Dict) and a[0].keys and all(k is not None for k in a[0].keys):
            for k, v in zip(a[0].keys, a[0].values):
                self._insert(k, self.ev(v, st), c, st)
            return NONE
        st.trace.append(("tableop", attr, c))
        return UNKNOWN

    # -- the expiry timer --------------------------------------------------------------
    def _timer(self, c, st):
        delay = self.canon(c.args[0], st)
        for sub in ast.walk(c.args[0]):
            if isinstance(sub, ast.NamedExpr):
                self.ev(c.args[0], st)
                break
        extra = [self.ev(a, st) for a in c.args[2:]]
        removal = self.callback(c.args[1], extra, st)
        st.trace.append(("timer", c, c.func.attr, delay, removal))

    def callback(self, cb, extra, st, depth=0):
        """What does calling `cb(*extra)` later do to the table?  -> list of events
        (the trace of the callable's body) or None when it cannot be interpreted.
        Callables are treated uniformly: bound method of the table, functools.partial,
        lambda (with default-argument binding or closure), nested def, method of self."""
        if depth > 4:
            return None
        if isinstance(cb, ast.Name) and cb.id in st.env:
            v = st.env[cb.id]
            if not self._bound_once(self.fn, cb.id):
                self.uninterpreted.append("callback name %s is bound more than once" % cb.id)
                return None
            if _kind(v) in ("func", "lambda"):
                return self._call_def(v[1], dict(st.env), extra, st, closure=True)
            if _kind(v) == "expr" and v[1] is not None and not isinstance(v[1], ast.Name):
                return self.callback(v[1], extra, st, depth + 1)
            return None
        if isinstance(cb, ast.Call) and (call_name(cb) or "") in _PARTIAL and cb.args and not cb.keywords:
            if any(isinstance(a, ast.Starred) for a in cb.args):
                return None
            pre = [self.ev(a, st) for a in cb.args[1:]]
            return self.callback(cb.args[0], pre + list(extra), st, depth + 1)
        if isinstance(cb, ast.Lambda):
            return self._call_def(cb, dict(st.env), extra, st, closure=True)
        if isinstance(cb, ast.Attribute):
            base = self.ev(cb.value, st)
            if base == TABLE:
                if (cb.attr == "pop" and 1 <= len(extra) <= 2) or (cb.attr == "__delitem__" and len(extra) == 1):
                    if extra[0] == KEY:
                        return [("remove", cb, len(extra) == 2)]
                    return [("foreignkey", cb)]
                return [("tableop", cb.attr, cb)]
            recv = self._receiver(cb.value)
            if recv is not None and self.fi.cls is not None:
                callee = self.prog.lookup_method(self.fi.cls.qn, cb.attr)
                if callee is None or isinstance(callee.node, ast.AsyncFunctionDef):
                    return None
                decos = {(chain(d) or "").split(".")[-1] for d in callee.node.decorator_list}
                if decos - {"staticmethod", "classmethod"}:
                    self.uninterpreted.append("the callback %s is decorated" % cb.attr)
                    return None
                # what the first parameter is bound to: nothing (static), the class, the instance
                if "staticmethod" in decos:
                    implicit = []
                elif "classmethod" in decos:
                    implicit = [("expr", ast.Name(id="type(self)", ctx=ast.Load()))]
                elif recv == "self":
                    implicit = [("expr", ast.Name(id="self", ctx=ast.Load()))]
                else:
                    implicit = []  # Class.method handed on unbound: the instance is among the arguments
                r = self._call_def(callee.node, {}, implicit + list(extra), st, closure=False)
                if r is not None:
                    self.callback_methods.add(callee.short)
                return r
        return None

    def _receiver(self, e):
        """"self" / "class" when e denotes the instance / its class (self, cls, type(self), self.__class__, the
        class by name), else None."""
        if isinstance(e, ast.Name):
            if e.id == "self":
                return "self"
            if e.id == "cls" or (self.fi.cls is not None and e.id == self.fi.cls.node.name):
                return "class"
            return None
        if isinstance(e, ast.Attribute) and e.attr == "__class__" and isinstance(e.value, ast.Name) and e.value.id == "self":
            return "class"
        if isinstance(e, ast.Call) and chain(e.func) == "type" and len(e.args) == 1 and not e.keywords \
                and isinstance(e.args[0], ast.Name) and e.args[0].id == "self":
            return "class"
        return None

    def _call_def(self, node, closure_env, args, st, closure):
        """Run the body of a lambda / def with positional `args` (abstract values)."""
        a = node.args
        if a.vararg or a.kwarg or a.kwonlyargs:
            return None
        names = [x.arg for x in a.posonlyargs + a.args]
        if len(args) > len(names):
            return None
        env = {}

        def later(v):
            # A *value* computed when the callable was handed to the timer (a key tuple, message.mid) stays what it
            # was.  A reference to the message *object* does not pin its fields: Message is mutable (mid and remote
            # are assigned in place elsewhere in the package), so whatever the body reads from it is read when the
            # callable runs.
            return ("lateparam", v[1]) if _kind(v) == "param" else v

        if closure:
            # free variables are read when the callback fires: only names that are never re-bound
            # have the value they had when the timer was armed
            free = {n.id for n in ast.walk(node) if isinstance(n, ast.Name)}
            for k, v in closure_env.items():
                if k in free and k not in names:
                    if not self._bound_once(self.fn, k):
                        self.uninterpreted.append("the callback reads %s, which is bound more than once" % k)
                        return None
                    env[k] = later(v)
            if self.mparam not in names and self.mparam not in env and not self.late:
                env[self.mparam] = ("lateparam", self.mparam)
        defaults = a.defaults
        first_default = len(names) - len(defaults)
        for i, n in enumerate(names):
            if i < len(args):
                env[n] = later(args[i])
            elif i >= first_default:
                dst = State(st.entry, st.mtype, dict(closure_env) if closure else {})
                env[n] = later(self.ev(defaults[i - first_default], dst))
            else:
                return None
        sub = State(REPLY, st.mtype, env)
        body = node.body if not isinstance(node, ast.Lambda) else [ast.Expr(value=node.body)]
        inner = EntrySim.__new__(EntrySim)
        inner.__dict__.update(self.__dict__)
        inner.fn = node
        inner.mparam = self.mparam
        inner.late = True
        try:
            outs = inner.exec_block(body, sub)
        except (SimRaise, AnalysisError):
            return None
        if len(outs) != 1 or outs[0][0] == "raise" or outs[0][2].dec:
            self.uninterpreted.append("the callback is not a straight-line removal")
            return None
        return outs[0][2].trace

    # -- statements ----------------------------------------------------------------------
    def cond(self, e, st):
        """[(outcome, state)]: outcomes of a branch condition, forking on undecidable atoms.
        outcome is True / False / a SimRaise (evaluating the condition raised on that fork)."""
        if isinstance(e, ast.BoolOp):
            is_and = isinstance(e.op, ast.And)
            pending = [st]
            done = []
            for v in e.values:
                nxt = []
                for s in pending:
                    for b, s2 in self.cond(v, s):
                        if isinstance(b, SimRaise) or b == (not is_and):  # And stops at False, Or at True
                            done.append((b, s2))
                        else:
                            nxt.append(s2)
                pending = nxt
            done.extend((is_and, s) for s in pending)
            return done
        if isinstance(e, ast.UnaryOp) and isinstance(e.op, ast.Not):
            return [(b if isinstance(b, SimRaise) else (not b), s) for b, s in self.cond(e.operand, st)]
        try:
            t = self.truth(e, st)
        except SimRaise as r:
            return [(r, st)]
        if t is not None:
            return [(t, st)]
        k, pol = atom_key(self.canon(e, st))
        if k in st.dec:
            return [(st.dec[k] == pol, st)]
        out = []
        for b in (True, False):
            s = st.fork()
            s.dec[k] = b == pol
            out.append((b, s))
        return out

    def exec_block(self, stmts, st):
        states = [st]
        out = []
        for s in stmts:
            nxt = []
            for x in states:
                for kind, payload, y in self.exec_stmt(s, x):
                    if kind == "next":
                        nxt.append(y)
                    else:
                        out.append((kind, payload, y))
            states = nxt
            if len(states) + len(out) > _MAX_STATES:
                raise AnalysisError("%s: more than %d symbolic states" % (self.fi.short, _MAX_STATES))
            if not states:
                break
        out.extend(("next", None, y) for y in states)
        return out

    def _assign(self, target, value, node, st):
        if isinstance(target, ast.Name):
            st.env[target.id] = value
        elif isinstance(target, ast.Subscript):
            base = self.ev(target.value, st)
            if base == TABLE:
                self._insert(target.slice, value, node, st)
            else:
                st.trace.append(("store", node))
        elif isinstance(target, ast.Attribute):
            st.trace.append(("store", node))
        elif isinstance(target, (ast.Tuple, ast.List)):
            for x in target.elts:
                self._assign(x.value if isinstance(x, ast.Starred) else x, UNKNOWN, node, st)

    def exec_stmt(self, s, st):
        try:
            return self._exec_stmt(s, st)
        except SimRaise as r:
            return [("raise", r.exc, st)]

    def _exec_stmt(self, s, st):
        if isinstance(s, ast.Expr):
            if not isinstance(s.value, ast.Constant):
                self.ev(s.value, st)
            return [("next", None, st)]
        if isinstance(s, ast.Assign):
            v = self.ev(s.value, st)
            for t in s.targets:
                if isinstance(t, (ast.Tuple, ast.List)) and isinstance(s.value, (ast.Tuple, ast.List)) and len(t.elts) == len(s.value.elts) \
                        and not any(isinstance(x, ast.Starred) for x in t.elts + s.value.elts):
                    vals = [self.ev(x, st) for x in s.value.elts]  # a, b = x, y: element by element
                    for x, xv in zip(t.elts, vals):
                        self._assign(x, xv, s, st)
                else:
                    self._assign(t, v, s, st)
            return [("next", None, st)]
        if isinstance(s, ast.AnnAssign):
            if s.value is not None:
                self._assign(s.target, self.ev(s.value, st), s, st)
            return [("next", None, st)]
        if isinstance(s, ast.AugAssign):
            self.ev(s.value, st)
            self._assign(s.target, UNKNOWN, s, st)
            return [("next", None, st)]
        if isinstance(s, ast.Delete):
            for t in s.targets:
                if isinstance(t, ast.Subscript) and self.ev(t.value, st) == TABLE:
                    self._remove(t.slice, s, st)
                elif isinstance(t, ast.Name):
                    st.env.pop(t.id, None)
                else:
                    st.trace.append(("store", s))
            return [("next", None, st)]
        if isinstance(s, ast.If):
            out = []
            for b, s2 in self.cond(s.test, st):
                if isinstance(b, SimRaise):
                    out.append(("raise", b.exc, s2))
                else:
                    out.extend(self.exec_block(s.body if b else s.orelse, s2))
            return out
        if isinstance(s, ast.Return):
            v = self.ev(s.value, st) if s.value is not None else NONE
            return [("return", (v, s), st)]
        if isinstance(s, ast.Raise):
            name = "Exception"
            if s.exc is not None:
                x = s.exc.func if isinstance(s.exc, ast.Call) else s.exc
                name = (chain(x) or "Exception").split(".")[-1]
            return [("raise", name, st)]
        if isinstance(s, (ast.Pass, ast.Global, ast.Nonlocal, ast.Import, ast.ImportFrom, ast.Assert)):
            return [("next", None, st)]
        if isinstance(s, ast.FunctionDef):
            st.env[s.name] = ("func", s)
            return [("next", None, st)]
        if isinstance(s, ast.Try):
            return self._try(s, st)
        raise AnalysisError(
            "%s: statement `%s` is outside the vocabulary of the entry interpreter (loops, with, match, async)"
            % (self.fi.short, stmt_text(s, 60))
        )

    def _catches(self, handler, exc):
        if handler.type is None:
            return True
        types = handler.type.elts if isinstance(handler.type, ast.Tuple) else [handler.type]
        names = {(chain(t) or "").split(".")[-1] for t in types}
        from ..model import BUILTIN_EXC

        cur = exc
        while cur is not None:
            if cur in names:
                return True
            cur = BUILTIN_EXC.get(cur)
        return False

    def _try(self, s, st):
        out = []
        for kind, payload, y in self.exec_block(s.body, st):
            if kind == "next" and s.orelse:
                out.extend(self.exec_block(s.orelse, y))
            elif kind == "raise":
                for h in s.handlers:
                    if self._catches(h, payload):
                        if h.name:
                            y.env[h.name] = UNKNOWN
                        out.extend(self.exec_block(h.body, y))
                        break
                else:
                    out.append((kind, payload, y))
            else:
                out.append((kind, payload, y))
        if not s.finalbody:
            return out
        res = []
        for kind, payload, y in out:
            for k2, p2, z in self.exec_block(s.finalbody, y):
                res.append((kind, payload, z) if k2 == "next" else (k2, p2, z))
        return res

    # -- driver --------------------------------------------------------------------------
    def run(self, entry, mtype):
        st = State(entry, mtype)
        body = self.fn.body
        res = []
        for kind, payload, y in self.exec_block(body, st):
            if kind == "next":
                res.append(Result("fall", None, y, entry))
            else:
                res.append(Result(kind, payload, y, entry))
        return res

    def run_all(self, entries=(ABSENT, NONE, REPLY), mtypes=MTYPES):
        out = []
        for e in entries:
            for m in mtypes:
                out.extend(self.run(e, m))
        return out


# ---------------------------------------------------------------------------
# every reference to the table in a function, classified


def table_uses(fn, field_chain, resolve):
    """-> (keyed, other, handed): keyed = [(node, key expr, kind)] for every access that addresses
    one entry (kind in lookup / insert / remove), other = [node] for references that
    are neither keyed accesses nor harmless (log arguments, len()), handed = [call] where the
    table itself is an argument of a deferred callable (`call_later(t, f, table, ...)`,
    `partial(f, table, ...)`): what f does with it is for the interpreter of the callable to say.
    `resolve(expr)` follows single-assignment locals (aliases of the table)."""

    def is_tab(e):
        return chain(resolve(e)) == field_chain

    parent = {}
    for p in ast.walk(fn):
        for ch in ast.iter_child_nodes(p):
            parent[id(ch)] = p
    keyed = []
    other = []
    handed = []
    for n in ast.walk(fn):
        if not (isinstance(n, (ast.Attribute, ast.Name)) and isinstance(getattr(n, "ctx", None), ast.Load) and is_tab(n)):
            continue
        if isinstance(n, ast.Attribute) and chain(n) != field_chain:
            continue
        p = parent.get(id(n))
        if isinstance(n, ast.Name):
            # the alias definition itself is `x = self.f`: the Name occurrences are uses
            pass
        if isinstance(p, ast.Assign) and p.value is n and all(isinstance(t, ast.Name) for t in p.targets):
            continue  # alias definition
        if isinstance(p, ast.Subscript) and p.value is n:
            kind = "insert" if isinstance(p.ctx, ast.Store) else ("remove" if isinstance(p.ctx, ast.Del) else "lookup")
            keyed.append((p, p.slice, kind))
            continue
        if isinstance(p, ast.Compare) and len(p.ops) == 1 and isinstance(p.ops[0], (ast.In, ast.NotIn)) and p.comparators[0] is n:
            keyed.append((p, p.left, "lookup"))
            continue
        if isinstance(p, ast.Attribute) and p.value is n:
            gp = parent.get(id(p))
            meth = p.attr
            kinds = {"get": "lookup", "__getitem__": "lookup", "__contains__": "lookup", "pop": "remove", "__delitem__": "remove",
                     "setdefault": "insert", "__setitem__": "insert"}
            if isinstance(gp, ast.Call) and gp.func is p:
                if meth in kinds and gp.args and not isinstance(gp.args[0], ast.Starred):
                    keyed.append((gp, gp.args[0], kinds[meth]))
                    continue
                if meth == "update" and len(gp.args) == 1 and not gp.keywords and isinstance(gp.args[0], ast.Dict) and gp.args[0].keys and all(k is not None for k in gp.args[0].keys):
                    for k in gp.args[0].keys:
                        keyed.append((gp, k, "insert"))
                    continue
                if meth == "keys" and not gp.args:
                    ggp = parent.get(id(gp))
                    if isinstance(ggp, ast.Compare) and len(ggp.ops) == 1 and isinstance(ggp.ops[0], (ast.In, ast.NotIn)) and ggp.comparators[0] is gp:
                        keyed.append((ggp, ggp.left, "lookup"))
                        continue
                other.append(gp)
                continue
            if isinstance(gp, ast.Call) and meth in ("pop", "__delitem__") and p in gp.args:
                # the method value handed on with its key: functools.partial(d.pop, k), call_later(t, d.pop, k)
                i = gp.args.index(p)
                if i + 1 < len(gp.args) and not isinstance(gp.args[i + 1], ast.Starred):
                    keyed.append((gp, gp.args[i + 1], "remove"))
                    continue
            other.append(gp if gp is not None else p)
            continue
        if isinstance(p, ast.Call) and not p.keywords and any(x is n for x in p.args) and not any(isinstance(x, ast.Starred) for x in p.args):
            i = [k for k, x in enumerate(p.args) if x is n][0]
            timer = isinstance(p.func, ast.Attribute) and p.func.attr in ("call_later", "call_at") and i >= 2
            if timer or ((call_name(p) or "") in _PARTIAL and i >= 1):
                handed.append(p)
                continue
        # harmless: len(table) / the table as argument of a log call
        q = p
        harmless = False
        while q is not None and not isinstance(q, ast.stmt):
            if isinstance(q, ast.Call) and (is_log_call(q) or chain(q.func) == "len"):
                harmless = True
                break
            q = parent.get(id(q))
        if not harmless:
            other.append(p if p is not None else n)
    return keyed, other, handed


# ---------------------------------------------------------------------------
# value-level branches as statement-level branches


def _impure_call(e):
    for n in ast.walk(e):
        if isinstance(n, ast.Call) and not is_log_call(n):
            if isinstance(n.func, ast.Attribute) and n.func.attr.startswith("is_") and not n.args and not n.keywords:
                continue
            if (chain(n.func) or "") in _PURE_CALLS:
                continue
            return True
    return False


def branch_normal_form(fi):
    """FuncInfo over a *copy* of fi.node in which a conditional expression / short-circuit operator that decides
    whether a call is evaluated at all is a statement-level branch:

        x = f() if c else d      ->  if c: x = f()  else: x = d
        x = c and f()            ->  if c: x = f()  else: x = False
        x = c or f()             ->  if c: x = True else: x = f()
        if (f() if c else d): .. ->  if (c and f()) or (not c and d): ..

    (same for `return` and expression statements).  The control-flow graph and the path model then see the
    condition under which the call happens, exactly as for the nested-if spelling.  In the `and`/`or` rows the
    value bound on the short-circuit side is replaced by the boolean it is equivalent to *as a condition*; the
    result is used for path reasoning only (which calls happen under which decisions), never for values."""
    from ..model import FuncInfo

    node = copy.deepcopy(fi.node)

    def with_value(st, v):
        new = copy.copy(st)
        new.value = v
        return ast.copy_location(new, st)

    def split(st):
        v = getattr(st, "value", None)
        if not isinstance(st, (ast.Assign, ast.AnnAssign, ast.Return, ast.Expr)) or v is None or not _impure_call(v):
            return [st]
        if isinstance(v, ast.IfExp):
            new = ast.If(test=v.test, body=split(with_value(st, v.body)), orelse=split(with_value(st, v.orelse)))
            return [ast.copy_location(new, st)]
        if isinstance(v, ast.BoolOp) and len(v.values) >= 2:
            first, rest = v.values[0], v.values[1:]
            restv = rest[0] if len(rest) == 1 else ast.copy_location(ast.BoolOp(op=v.op, values=rest), v)
            if isinstance(v.op, ast.And):
                new = ast.If(test=first, body=split(with_value(st, restv)), orelse=[with_value(st, ast.copy_location(ast.Constant(value=False), v))])
            else:
                new = ast.If(test=first, body=[with_value(st, ast.copy_location(ast.Constant(value=True), v))], orelse=split(with_value(st, restv)))
            return [ast.copy_location(new, st)]
        return [st]

    def lower_test(t):
        if isinstance(t, ast.IfExp) and _impure_call(t):
            c = t.test
            a = ast.BoolOp(op=ast.And(), values=[c, lower_test(t.body)])
            b = ast.BoolOp(op=ast.And(), values=[ast.UnaryOp(op=ast.Not(), operand=copy.deepcopy(c)), lower_test(t.orelse)])
            return ast.copy_location(ast.BoolOp(op=ast.Or(), values=[ast.copy_location(a, t), ast.copy_location(b, t)]), t)
        if isinstance(t, ast.BoolOp):
            t.values = [lower_test(x) for x in t.values]
        elif isinstance(t, ast.UnaryOp) and isinstance(t.op, ast.Not):
            t.operand = lower_test(t.operand)
        return t

    def block(stmts):
        out = []
        for st in stmts:
            if isinstance(st, (ast.FunctionDef, ast.AsyncFunctionDef, ast.ClassDef)):
                out.append(st)
                continue
            if isinstance(st, (ast.If, ast.While)):
                st.test = lower_test(st.test)
            for field in ("body", "orelse", "finalbody"):
                lst = getattr(st, field, None)
                if isinstance(lst, list) and lst and isinstance(lst[0], ast.stmt):
                    setattr(st, field, block(lst))
            for h in getattr(st, "handlers", []) or []:
                h.body = block(h.body)
            out.extend(split(st))
        return out

    node.body = block(node.body)
    ast.fix_missing_locations(node)
    return FuncInfo(fi.qn, node, fi.module, fi.cls, fi.parent)


# ---------------------------------------------------------------------------
# who writes <anything>.<field>: alias-aware, nested scopes included


_MUTATORS = {"pop", "update", "setdefault", "clear", "popitem", "__setitem__", "__delitem__", "__ior__"}


def table_writes(fnode, field):
    """[(kind, node)] for every construct inside fnode (nested defs and lambdas included) that modifies the
    dictionary held in attribute `field` of any receiver, or re-binds that attribute; also through a local
    alias (`t = x.field; t[k] = v`, `t.pop(k)`) and through a method value handed on (`partial(x.field.pop, k)`)."""
    aliases = set()

    def may_be_tab(v):
        # may-alias (over-approximation, the sound direction for a writer scan): the attribute itself, either arm
        # of a conditional expression, any operand of `a or b` / `a and b`, a walrus, or a name that is an alias
        if isinstance(v, ast.Attribute):
            return v.attr == field
        if isinstance(v, ast.Name):
            return v.id in aliases
        if isinstance(v, ast.IfExp):
            return may_be_tab(v.body) or may_be_tab(v.orelse)
        if isinstance(v, ast.BoolOp):
            return any(may_be_tab(x) for x in v.values)
        if isinstance(v, ast.NamedExpr):
            return may_be_tab(v.value)
        return False

    def elements(it):
        # the elements a `for` / comprehension iterates over when the iterable is a literal collection
        # (`for t in (x.a, x.field):`), also wrapped in enumerate/reversed/list/tuple/iter
        while isinstance(it, ast.Call) and isinstance(it.func, ast.Name) and it.func.id in ("enumerate", "reversed", "list", "tuple", "iter", "sorted") and it.args:
            it = it.args[0]
        if isinstance(it, (ast.Tuple, ast.List, ast.Set)):
            return [x.value if isinstance(x, ast.Starred) else x for x in it.elts]
        return []

    def loop_names(t):
        return [x.id for x in ast.walk(t) if isinstance(x, ast.Name)]

    for _round in range(3):  # aliases of aliases
        before = len(aliases)
        for n in ast.walk(fnode):
            tv = []
            if isinstance(n, ast.Assign):
                tv = [(t, n.value) for t in n.targets]
                for t in n.targets:
                    # a, b = x.field, y
                    if isinstance(t, (ast.Tuple, ast.List)) and isinstance(n.value, (ast.Tuple, ast.List)) and len(t.elts) == len(n.value.elts):
                        tv += list(zip(t.elts, n.value.elts))
            elif isinstance(n, ast.AnnAssign) and n.value is not None:
                tv = [(n.target, n.value)]
            elif isinstance(n, ast.NamedExpr):
                tv = [(n.target, n.value)]
            elif isinstance(n, (ast.For, ast.AsyncFor, ast.comprehension)):
                if any(may_be_tab(x) for x in elements(n.iter)):
                    aliases.update(loop_names(n.target))
            for t, v in tv:
                if isinstance(t, ast.Name) and may_be_tab(v):
                    aliases.add(t.id)
        if len(aliases) == before:
            break

    def is_tab(e):
        return (isinstance(e, ast.Attribute) and e.attr == field) or (isinstance(e, ast.Name) and e.id in aliases)

    out = []
    called = set()
    for n in ast.walk(fnode):
        if isinstance(n, ast.Attribute) and n.attr == field and isinstance(n.ctx, (ast.Store, ast.Del)):
            out.append(("assign" if isinstance(n.ctx, ast.Store) else "del", n))
        elif isinstance(n, ast.Subscript) and isinstance(n.ctx, (ast.Store, ast.Del)):
            base = n
            while isinstance(base, ast.Subscript):
                base = base.value
            if is_tab(base):
                out.append(("setitem" if isinstance(n.ctx, ast.Store) else "delitem", n))
        elif isinstance(n, ast.Call) and isinstance(n.func, ast.Attribute) and n.func.attr in _MUTATORS and is_tab(n.func.value):
            out.append((n.func.attr, n))
            called.add(id(n.func))
        elif isinstance(n, ast.AugAssign) and is_tab(n.target):
            out.append(("augassign", n))
    for n in ast.walk(fnode):
        if isinstance(n, ast.Attribute) and n.attr in _MUTATORS and id(n) not in called and isinstance(n.ctx, ast.Load) and is_tab(n.value):
            out.append(("ref:" + n.attr, n))
    return out


# ---------------------------------------------------------------------------
# which messages reach the wire without passing the recording sender?


_SCHEDULERS = {"call_later": 1, "call_at": 1, "call_soon": 0, "call_soon_threadsafe": 0}


class WireFlow:
    """Backward flow from the wire primitive (`<x>.message_interface.send(m)`) to the places where the message
    `m` comes from.

    A function that hands one of its own *parameters* to the wire (or to a function that does) is a conduit: the
    question "which message is this?" is passed on to every reference to that function in the package, with the
    corresponding argument (positional, keyword, default-argument binding of a nested def / lambda, arguments
    given to call_later / call_soon / functools.partial together with the method value).  The walk ends

      * in the recording sender (`arrivals`: the site, whether the chain from there to the wire is synchronous or
        goes through a deferred callable, and the argument expression),
      * at a message that is provably not an acknowledgement (`findings`, ok),
      * or at a message nothing is known about / that is an ACK (`findings`, not ok).

    Nothing is matched by name except the wire primitive itself and the functions the walk reaches."""

    def __init__(self, prog, recorder_sender, resolve, binding, judged_elsewhere=(), wire_attr="message_interface", wire_method="send"):
        self.prog = prog
        self.rs = recorder_sender
        self.resolve = resolve  # (fnode, expr) -> expr through single-assignment locals
        self.binding = binding  # (fi, use, name) -> ("default", expr) | ("param", None) | None
        self.skip = set(judged_elsewhere)  # qualified names of functions whose sends another clause decides
        self.wire_attr = wire_attr
        self.wire_method = wire_method
        self.tops = [f for f in prog.funcs.values() if f.parent is None]
        self._parents = {}
        self.findings = []  # (fi, node, ok, detail)
        self.arrivals = []  # (node, deferred, arg expr)
        self.visited = set()
        self.notes = []

    # -- structure -------------------------------------------------------------------
    def parents(self, f):
        m = self._parents.get(f.qn)
        if m is None:
            m = {}
            for p in ast.walk(f.node):
                for ch in ast.iter_child_nodes(p):
                    m[id(ch)] = p
            self._parents[f.qn] = m
        return m

    def nested_in(self, f, node):
        """Is node inside a nested def / lambda of the top-level function f?"""
        par = self.parents(f)
        q = par.get(id(node))
        while q is not None and q is not f.node:
            if isinstance(q, (ast.Lambda, ast.FunctionDef, ast.AsyncFunctionDef)):
                return True
            q = par.get(id(q))
        return False

    def wire_refs(self):
        """[(f, Attribute node)]: every reference to <...>.message_interface.send in the package"""
        out = []
        for f in self.tops:
            for n in ast.walk(f.node):
                if isinstance(n, ast.Attribute) and n.attr == self.wire_method and isinstance(n.ctx, ast.Load):
                    r = n.value
                    if isinstance(r, ast.Name):
                        r = self.resolve(f.node, r)
                    c = chain(r) or ""
                    if c == self.wire_attr or c.endswith("." + self.wire_attr):
                        out.append((f, n))
        return out

    def refs_to(self, g):
        """[(f, node)]: references to function g by name in the package (methods: any `<x>.name`, except `self.name`
        inside a class that is unrelated to g's)"""
        out = []
        for f in self.tops:
            for n in ast.walk(f.node):
                if isinstance(n, ast.Attribute) and n.attr == g.name and isinstance(n.ctx, ast.Load):
                    if g.cls is None:
                        continue
                    if isinstance(n.value, ast.Name) and n.value.id in ("self", "cls") and f.cls is not None:
                        if not (self.prog.is_subclass(f.cls.qn, g.cls.qn) or self.prog.is_subclass(g.cls.qn, f.cls.qn)):
                            continue
                    out.append((f, n))
                elif isinstance(n, ast.Name) and n.id == g.name and isinstance(n.ctx, ast.Load) and g.cls is None and f.module is g.module:
                    out.append((f, n))
        return out

    def uses(self, f, ref, bound):
        """How is the callable denoted by `ref` (inside f) used?  -> [(pin node, argument lookup, deferred)] or None.
        `bound`: ref is a bound method / plain function (its positional arguments are the parameters after self)."""
        par = self.parents(f)
        p = par.get(id(ref))
        nested = self.nested_in(f, ref)

        def lookup(pos, kws):
            def get(i, name):
                if any(isinstance(a, ast.Starred) for a in pos[: i + 1]):
                    return None
                if i < len(pos):
                    return pos[i]
                for kw in kws:
                    if kw.arg == name:
                        return kw.value
                return None
            return get

        if isinstance(p, ast.Call) and p.func is ref:
            return [(p, lookup(p.args, p.keywords), nested)]
        if isinstance(p, ast.Call) and any(a is ref for a in p.args) and not p.keywords:
            i = [k for k, a in enumerate(p.args) if a is ref][0]
            name = call_name(p) or ""
            if isinstance(p.func, ast.Attribute) and _SCHEDULERS.get(p.func.attr) == i:
                return [(p, lookup(p.args[i + 1:], []), True)]
            if name in _PARTIAL and i == 0:
                # the arguments given here are the leading ones; whoever calls the partial object does so later
                return [(p, lookup(p.args[1:], []), True)]
            return None
        if isinstance(p, ast.Assign) and p.value is ref and len(p.targets) == 1 and isinstance(p.targets[0], ast.Name):
            # a local that names the callable: its uses are the uses
            t = p.targets[0].id
            scope = f.node
            if len(writes_to_name(scope, t)) != 1:
                return None
            out = []
            for n in ast.walk(scope):
                if isinstance(n, ast.Name) and n.id == t and isinstance(n.ctx, ast.Load):
                    u = self.uses(f, n, bound)
                    if u is None:
                        return None
                    out.extend(u)
            return out
        return None

    # -- what is known about the type of a message --------------------------------------
    def _ctor_type(self, e):
        """Message(..., _mtype=X) -> (True, "X" | None); not a Message construction -> (False, None)"""
        if not (isinstance(e, ast.Call) and (call_name(e) or "").split(".")[-1] == "Message"):
            return False, None
        for kw in e.keywords:
            if kw.arg in ("_mtype", "mtype"):
                c = chain(kw.value)
                return True, (c.split(".")[-1] if c else "?")
            if kw.arg is None:
                return True, "?"
        return True, None

    def not_an_ack(self, f, site, arg):
        """Is the message denoted by `arg` at `site` provably of a type other than ACK?  (Only an ACK can be `the
        acknowledgement already sent` for a request: CON / NON messages carry message IDs of our own, a RST answers
        what was not accepted as a request.)  Decided from the construction of the message in f (constructor keyword
        and attribute assignment are the same fact) or from the conditions on `<arg>.mtype` that dominate the site."""
        from ..cfg import cfg_of
        from ..rulekit import mtype_values

        nonack = {"CON", "NON", "RST"}
        is_ctor, t = self._ctor_type(arg)
        if is_ctor:
            return t in nonack
        if not isinstance(arg, ast.Name):
            return False
        x = arg.id
        stores = []
        for n in ast.walk(f.node):
            if isinstance(n, ast.Assign):
                for tg in n.targets:
                    if isinstance(tg, ast.Attribute) and tg.attr in ("mtype", "_mtype") and isinstance(tg.value, ast.Name) and tg.value.id == x:
                        c = chain(n.value)
                        stores.append(c.split(".")[-1] if c else "?")
            elif isinstance(n, (ast.AugAssign, ast.AnnAssign, ast.Delete, ast.NamedExpr)):
                for sub in ast.walk(n):
                    if isinstance(sub, ast.Attribute) and isinstance(sub.ctx, (ast.Store, ast.Del)) and sub.attr in ("mtype", "_mtype") \
                            and isinstance(sub.value, ast.Name) and sub.value.id == x:
                        stores.append("?")
        a = f.node.args
        is_param = any(p.arg == x for p in a.posonlyargs + a.args + a.kwonlyargs)
        writes = writes_to_name(f.node, x)
        if not is_param and len(writes) == 1:
            v = None
            for n in walk_no_nested(f.node):
                if isinstance(n, ast.Assign) and len(n.targets) == 1 and isinstance(n.targets[0], ast.Name) and n.targets[0].id == x:
                    v = n.value
            is_ctor, t = self._ctor_type(v) if v is not None else (False, None)
            if is_ctor:
                types = ([t] if t is not None else []) + stores
                return bool(types) and all(y in nonack for y in types)
        if self.nested_in(f, site):
            return False
        cfg = cfg_of(f)
        nids = cfg.locate(site)
        if not nids:
            return False
        # A condition on x.mtype says something about the message at the site only if neither x nor x.mtype is
        # assigned on the way from the condition to the site.
        changes = set()
        for n in ast.walk(f.node):
            hit = False
            if isinstance(n, ast.Attribute) and isinstance(n.ctx, (ast.Store, ast.Del)) and n.attr in ("mtype", "_mtype") \
                    and isinstance(n.value, ast.Name) and n.value.id == x:
                hit = True
            elif isinstance(n, ast.Name) and n.id == x and isinstance(n.ctx, (ast.Store, ast.Del)):
                hit = True
            if hit:
                if self.nested_in(f, n):
                    return False
                loc = cfg.locate(n)
                if not loc:
                    return False
                changes.update(loc)
        for nid in nids:
            guards = []
            for e, pol, g in cfg.guards(nid):
                # (a way that comes by the test again re-establishes the condition: loops)
                tests = tuple(t for t, _l in cfg.pred[g])
                after = cfg.reach([g], avoid=tests)
                if any(c in after and nid in cfg.reach([c], avoid=tests, include_src=True) for c in changes):
                    continue
                guards.append((e, pol))
            alive, _others = mtype_values(guards, "%s.mtype" % x, MTYPES)
            if "ACK" in alive:
                return False
        return True

    # -- the walk ------------------------------------------------------------------------------
    def judge(self, f, pin, arg, deferred, via):
        if arg is None:
            self.findings.append((f, pin, False, "%s: the message handed on here cannot be identified" % via))
            return
        if isinstance(arg, ast.Name) and self.nested_in(f, pin):
            b = self.binding(f, pin, arg.id)
            if b is not None:
                if b[0] == "param":
                    self.findings.append((f, pin, False, "%s: the message is a parameter of a nested callable, bound by whoever calls it" % via))
                    return
                arg = b[1]
        # follow locals that merely name another local / parameter (what a name is bound to otherwise -- a
        # construction, a call -- is looked at by not_an_ack together with the attribute assignments on that name)
        for _i in range(4):
            if not isinstance(arg, ast.Name):
                break
            nxt = self.resolve(f.node, arg, 1)
            if nxt is arg or not isinstance(nxt, ast.Name):
                break
            arg = nxt
        if f.qn == self.rs.qn:
            self.arrivals.append((pin, deferred, arg))
            return
        if f.qn in self.skip:
            return
        if self.not_an_ack(f, pin, arg):
            self.findings.append((f, pin, True, "%s: `%s` is not an ACK" % (via, stmt_text(arg, 40))))
            return
        a = f.node.args
        names = [p.arg for p in a.posonlyargs + a.args]
        if isinstance(arg, ast.Name) and arg.id in names + [p.arg for p in a.kwonlyargs] and not writes_to_name(f.node, arg.id) and not a.vararg:
            k = (f.qn, arg.id)
            if k in self.visited:
                return
            self.visited.add(k)
            decos = {(chain(d) or "").split(".")[-1] for d in f.node.decorator_list}
            if decos - {"staticmethod", "classmethod"}:
                self.findings.append((f, pin, False, "%s: %s is decorated; its callers cannot be followed" % (via, f.name)))
                return
            skip_first = 1 if (f.cls is not None and "staticmethod" not in decos) else 0
            idx = names.index(arg.id) - skip_first if arg.id in names else None
            refs = self.refs_to(f)
            if not refs:
                self.notes.append("%s hands its parameter %s to the wire but is referenced nowhere in the package" % (f.short, arg.id))
                return
            for g, ref in refs:
                u = self.uses(g, ref, True)
                if u is None:
                    self.findings.append((g, ref, False, "%s: %s is referred to in a way that cannot be followed" % (via, f.name)))
                    continue
                for pin2, get, d2 in u:
                    arg2 = get(idx, arg.id) if idx is not None and idx >= 0 else get(10 ** 6, arg.id)
                    if arg2 is None:
                        # not given: the parameter's default
                        dflt = None
                        if arg.id in names:
                            j = names.index(arg.id) - (len(names) - len(a.defaults))
                            dflt = a.defaults[j] if j >= 0 else None
                        if dflt is not None:
                            self.findings.append((g, pin2, False, "%s: %s sends the default value of %s" % (via, f.name, arg.id)))
                            continue
                    self.judge(g, pin2, arg2, deferred or d2, "%s <- %s" % (via, f.name))
            return
        self.findings.append((f, pin, False, "%s: `%s` reaches the wire without being recorded as the possible reply to a duplicate, and may be an acknowledgement" % (via, stmt_text(arg, 40))))

    def run(self):
        wires = self.wire_refs()
        for f, ref in wires:
            u = self.uses(f, ref, True)
            if u is None:
                self.findings.append((f, ref, False, "the transmission primitive is referred to in a way that cannot be followed"))
                continue
            for pin, get, d in u:
                self.judge(f, pin, get(0, "message"), d, "wire")
        return wires


# ---------------------------------------------------------------------------
# Fifth pass: what an object *is* after its constructor ran (ObjSim), and what a tuning class *evaluates to*
# (ClassEval).  Both are small interpreters over concrete representatives: the questions they answer are of the
# form "for every value of a small domain (message ID 0 / 1 / 0xFFFF, each message type, empty / non-empty
# token), does the field end up holding the value that was passed" and "does this class compute the same number
# as that class", so truthiness tests, `x or y`, `x if x is not None else y`, helper functions with early
# returns (expanded by the engine), guard clauses, `is not None` and `!= b""` are all decided by evaluating them.


class Unsupported(Exception):
    pass


def _c(v):
    return ("c", v)


CNONE = ("c", None)


class ModuleScope:
    """Meaning of a module-level name: class reference, enum member, constant, instance of a package class."""

    def __init__(self, prog):
        self.prog = prog
        self._enum = {}

    def enum_members(self, qn):
        """{member name: (python value)} when class qn is an Enum of the package with constant members, else None;
        second result: is it an int-valued enum whose members have the truthiness of their value"""
        if qn in self._enum:
            return self._enum[qn]
        res = None
        ci = self.prog.classes.get(qn)
        if ci is not None:
            bases = [b.split(".")[-1] for q in self.prog.mro(qn) if q in self.prog.classes for b in self.prog.classes[q].bases]
            if any(b in ("Enum", "IntEnum", "IntFlag", "Flag", "StrEnum") for b in bases):
                is_int = any(b in ("IntEnum", "IntFlag") for b in bases) or "int" in bases
                members = {}
                for name, v in ci.attrs.items():
                    if name.startswith("_"):
                        continue
                    if isinstance(v, ast.Constant):
                        members[name] = v.value
                    elif isinstance(v, ast.UnaryOp) and isinstance(v.op, ast.USub) and isinstance(v.operand, ast.Constant):
                        members[name] = -v.operand.value
                if members:
                    res = (members, is_int)
        self._enum[qn] = res
        return res

    def member(self, qn, name):
        em = self.enum_members(qn)
        if em and name in em[0]:
            return ("enum", qn, name, em[0][name], em[1])
        return None

    def module_value(self, mod, name, depth=0):
        """the expression bound to a module-level name (also as element of `A, B = x, y`), or None"""
        found = None
        for st in mod.tree.body:
            if isinstance(st, ast.Assign):
                for t in st.targets:
                    if isinstance(t, ast.Name) and t.id == name:
                        found = st.value
                    elif isinstance(t, (ast.Tuple, ast.List)) and isinstance(st.value, (ast.Tuple, ast.List)) and len(t.elts) == len(st.value.elts):
                        for x, v in zip(t.elts, st.value.elts):
                            if isinstance(x, ast.Name) and x.id == name:
                                found = v
            elif isinstance(st, ast.AnnAssign) and isinstance(st.target, ast.Name) and st.target.id == name and st.value is not None:
                found = st.value
        return found

    def resolve(self, mod, dotted, depth=0):
        """value of a dotted name used in module `mod`: ("cls", qn) / ("enum", ...) / ("c", v) / ("new", qn, ...) / None"""
        if depth > 6:
            return None
        prog = self.prog
        parts = dotted.split(".")
        # longest prefix that is a class
        for i in range(len(parts), 0, -1):
            q = prog.resolve_in_module(mod, ".".join(parts[:i]))
            if q in prog.classes:
                rest = parts[i:]
                if not rest:
                    return ("cls", q)
                if len(rest) == 1:
                    return self.member(q, rest[0])
                return None
        head = parts[0]
        # module-level binding here, or in the module the name is imported from
        v = self.module_value(mod, head)
        m2 = mod
        if v is None and head in mod.imports:
            tgt = prog.canonical(mod.imports[head])
            mname, _, attr = tgt.rpartition(".")
            if mname in prog.modules:
                m2 = prog.modules[mname]
                v = self.module_value(m2, attr)
        if v is None:
            return None
        if len(parts) > 1:
            return None
        return self.value_of_expr(m2, v, depth + 1)

    def value_of_expr(self, mod, e, depth=0):
        if isinstance(e, ast.Constant):
            return _c(e.value)
        c = chain(e)
        if c is not None:
            return self.resolve(mod, c, depth + 1)
        if isinstance(e, ast.Call) and not e.args and not e.keywords:
            c = chain(e.func)
            if c is not None:
                r = self.resolve(mod, c, depth + 1)
                if r is not None and r[0] == "cls":
                    return ("new", r[1], id(e))
        return None


class _St:
    def __init__(self, env, fields, clobbered=False):
        self.env = env
        self.fields = fields
        self.clobbered = clobbered

    def fork(self):
        return _St(dict(self.env), dict(self.fields), self.clobbered)


class ObjSim:
    """Runs the __init__ of a package class on concrete / symbolic representatives.

    values: ("c", python constant) | ("enum", class, member, value, int_valued) | ("cls", qn) | ("new", what, id) |
            ("tuple", (values)) | ("dict", ((name, value), ...)) | ("marker", tag) | ("conv", class, value) |
            ("self",) | ("unk", why)
    run(kwargs) -> [(kind, fields, clobbered)] with kind in return / raise; a condition that cannot be evaluated
    forks the run."""

    MAX = 512

    def __init__(self, prog, cls_qn):
        self.prog = prog
        self.scope = ModuleScope(prog)
        self.cls_qn = cls_qn
        self.init = prog.lookup_method(cls_qn, "__init__")
        if self.init is None:
            raise AnalysisError("class %s has no __init__ in the package" % cls_qn)
        self.mod = self.init.module
        self.n = 0

    # -- values ------------------------------------------------------------
    def truthy(self, v):
        k = v[0]
        if k == "c":
            return bool(v[1])
        if k == "enum":
            return (v[3] != 0) if v[4] else True
        if k in ("cls", "marker", "self"):
            return True
        if k == "conv":
            return None
        if k in ("tuple", "dict"):
            return bool(v[1])
        if k == "new":
            q = v[1]
            if q in self.prog.classes:
                if self.prog.lookup_method(q, "__bool__") is None and self.prog.lookup_method(q, "__len__") is None and \
                        all(b in self.prog.classes or b in ("object",) for c in self.prog.mro(q) if c in self.prog.classes for b in self.prog.classes[c].bases):
                    return True
                return None
            if q in ("lambda", "function"):
                return True
            return None
        return None

    def is_none(self, v):
        """True / False / None"""
        if v[0] == "c":
            return v[1] is None
        if v[0] == "unk":
            return None
        return False

    def num(self, v):
        if v[0] == "c" and isinstance(v[1], (int, float)) and not isinstance(v[1], bool):
            return v[1]
        if v[0] == "enum" and v[4]:
            return v[3]
        return None

    def eq(self, a, b):
        if a[0] == "unk" or b[0] == "unk":
            return None
        if a[0] == "c" and b[0] == "c":
            try:
                return a[1] == b[1]
            except Exception:
                return None
        if a[0] == "enum" and b[0] == "enum":
            if a[1] == b[1]:
                return a[2] == b[2]
            if a[4] and b[4]:
                return a[3] == b[3]
            return False
        na, nb = self.num(a), self.num(b)
        if na is not None and nb is not None:
            return na == nb
        if a[0] == "marker" or b[0] == "marker":
            return a == b
        if a[0] == "conv" or b[0] == "conv":
            return True if a == b else None
        if a[0] == "new" and b[0] == "new":
            return True if a == b else None
        if a[0] == "new" or b[0] == "new":
            return None
        if a[0] == "tuple" and b[0] == "tuple":
            if len(a[1]) != len(b[1]):
                return False
            rs = [self.eq(x, y) for x, y in zip(a[1], b[1])]
            if any(r is False for r in rs):
                return False
            return True if all(r is True for r in rs) else None
        if a[0] != b[0]:
            return False
        return a == b

    def same(self, a, b):
        """identity"""
        if a[0] == "unk" or b[0] == "unk":
            return None
        na, nb = self.is_none(a), self.is_none(b)
        if na or nb:
            return bool(na and nb)
        if a[0] == "c" and b[0] == "c":
            if isinstance(a[1], bool) or isinstance(b[1], bool):
                return a[1] is b[1]
            return None if a[1] == b[1] else False
        if a[0] == "enum" and b[0] == "enum":
            return a[1] == b[1] and a[2] == b[2]
        if a[0] != b[0]:
            return False
        return True if a == b else (None if a[0] == "conv" else False)

    # -- expressions -------------------------------------------------------
    def ev(self, e, st):
        m = getattr(self, "ev_" + type(e).__name__, None)
        if m is None:
            return ("unk", type(e).__name__)
        return m(e, st)

    def ev_Constant(self, e, st):
        return _c(e.value)

    def ev_Name(self, e, st):
        if e.id in st.env:
            return st.env[e.id]
        r = self.scope.resolve(self.mod, e.id)
        if r is not None:
            return r
        return ("unk", "name %s" % e.id)

    def ev_Attribute(self, e, st):
        if isinstance(e.value, ast.Name) and st.env.get(e.value.id) == ("self",):
            if e.attr in st.fields:
                return st.fields[e.attr]
            return ("unk", "field %s not set" % e.attr)
        c = chain(e)
        if c is not None and c.split(".")[0] not in st.env:
            r = self.scope.resolve(self.mod, c)
            if r is not None:
                return r
        base = self.ev(e.value, st)
        if base[0] == "enum" and e.attr == "value":
            return _c(base[3])
        if base[0] == "enum" and e.attr == "name":
            return _c(base[2])
        if base[0] == "cls":
            r = self.scope.member(base[1], e.attr)
            if r is not None:
                return r
        return ("unk", "attribute %s" % e.attr)

    def ev_Tuple(self, e, st):
        if any(isinstance(x, ast.Starred) for x in e.elts):
            return ("unk", "starred")
        return ("tuple", tuple(self.ev(x, st) for x in e.elts))

    ev_List = ev_Tuple

    def ev_Dict(self, e, st):
        if all(isinstance(k, ast.Constant) for k in e.keys):
            return ("dict", tuple((k.value, self.ev(v, st)) for k, v in zip(e.keys, e.values)))
        return ("unk", "dict")

    def ev_Lambda(self, e, st):
        return ("new", "lambda", id(e))

    def ev_JoinedStr(self, e, st):
        return ("unk", "f-string")

    def ev_Await(self, e, st):
        return self.ev(e.value, st)

    def ev_NamedExpr(self, e, st):
        v = self.ev(e.value, st)
        st.env[e.target.id] = v
        return v

    def ev_BoolOp(self, e, st):
        is_or = isinstance(e.op, ast.Or)
        v = CNONE
        for x in e.values:
            v = self.ev(x, st)
            t = self.truthy(v)
            if t is None:
                return ("unk", "truth of %s" % ast.unparse(x))
            if t == is_or:
                return v
        return v

    def ev_UnaryOp(self, e, st):
        v = self.ev(e.operand, st)
        if isinstance(e.op, ast.Not):
            t = self.truthy(v)
            return ("unk", "not") if t is None else _c(not t)
        n = self.num(v)
        if n is not None:
            try:
                return _c({ast.USub: lambda x: -x, ast.UAdd: lambda x: +x, ast.Invert: lambda x: ~x}[type(e.op)](n))
            except Exception:
                pass
        return ("unk", "unary")

    _BIN = {
        ast.Add: lambda a, b: a + b, ast.Sub: lambda a, b: a - b, ast.Mult: lambda a, b: a * b, ast.Div: lambda a, b: a / b,
        ast.FloorDiv: lambda a, b: a // b, ast.Mod: lambda a, b: a % b, ast.Pow: lambda a, b: a ** b if abs(b) < 64 else None,
        ast.LShift: lambda a, b: a << b if 0 <= b < 64 else None, ast.RShift: lambda a, b: a >> b, ast.BitAnd: lambda a, b: a & b,
        ast.BitOr: lambda a, b: a | b, ast.BitXor: lambda a, b: a ^ b,
    }

    def ev_BinOp(self, e, st):
        a, b = self.ev(e.left, st), self.ev(e.right, st)
        x = self.num(a) if self.num(a) is not None else (a[1] if a[0] == "c" and isinstance(a[1], (bytes, str)) else None)
        y = self.num(b) if self.num(b) is not None else (b[1] if b[0] == "c" and isinstance(b[1], (bytes, str)) else None)
        f = self._BIN.get(type(e.op))
        if x is not None and y is not None and f is not None:
            try:
                r = f(x, y)
                if r is not None:
                    return _c(r)
            except Exception:
                pass
        return ("unk", "arithmetic")

    def ev_IfExp(self, e, st):
        t = self.truth(e.test, st)
        if t is None:
            a, b = self.ev(e.body, st.fork()), self.ev(e.orelse, st.fork())
            return a if a == b else ("unk", "condition %s" % ast.unparse(e.test))
        return self.ev(e.body if t else e.orelse, st)

    def ev_Subscript(self, e, st):
        v = self.ev(e.value, st)
        if isinstance(e.slice, ast.Slice):
            return ("unk", "slice")
        i = self.ev(e.slice, st)
        try:
            if v[0] == "c" and isinstance(v[1], (bytes, str)) and i[0] == "c":
                return _c(v[1][i[1]])
            if v[0] == "tuple" and i[0] == "c":
                return v[1][i[1]]
            if v[0] == "dict" and i[0] == "c":
                return dict(v[1])[i[1]]
        except Exception:
            pass
        return ("unk", "subscript")

    def ev_Compare(self, e, st):
        t = self.truth(e, st)
        return ("unk", "comparison %s" % ast.unparse(e)) if t is None else _c(t)

    def cmp(self, a, op, b):
        if isinstance(op, ast.Is):
            return self.same(a, b)
        if isinstance(op, ast.IsNot):
            r = self.same(a, b)
            return None if r is None else not r
        if isinstance(op, ast.Eq):
            return self.eq(a, b)
        if isinstance(op, ast.NotEq):
            r = self.eq(a, b)
            return None if r is None else not r
        if isinstance(op, (ast.In, ast.NotIn)):
            r = None
            if b[0] == "tuple":
                rs = [self.eq(a, x) for x in b[1]]
                r = True if any(x is True for x in rs) else (False if all(x is False for x in rs) else None)
            elif b[0] == "dict":
                r = (a[1] in dict(b[1])) if a[0] == "c" else None
            elif b[0] == "c" and a[0] == "c" and isinstance(b[1], (bytes, str)):
                try:
                    r = a[1] in b[1]
                except Exception:
                    r = None
            if r is None:
                return None
            return r if isinstance(op, ast.In) else not r
        x, y = self.num(a), self.num(b)
        if x is not None and y is not None:
            return {ast.Lt: x < y, ast.LtE: x <= y, ast.Gt: x > y, ast.GtE: x >= y}.get(type(op))
        return None

    def truth(self, e, st):
        """True / False / None"""
        if isinstance(e, ast.Compare):
            left = self.ev(e.left, st)
            res = True
            for op, r in zip(e.ops, e.comparators):
                right = self.ev(r, st)
                t = self.cmp(left, op, right)
                if t is None:
                    return None
                if not t:
                    return False
                left = right
            return res
        if isinstance(e, ast.UnaryOp) and isinstance(e.op, ast.Not):
            t = self.truth(e.operand, st)
            return None if t is None else not t
        if isinstance(e, ast.BoolOp):
            is_or = isinstance(e.op, ast.Or)
            unknown = False
            for x in e.values:
                t = self.truth(x, st)
                if t is None:
                    unknown = True
                elif t == is_or:
                    # a decided operand decides the whole only if nothing undecided was evaluated before it
                    return None if unknown else is_or
            return None if unknown else (not is_or)
        return self.truthy(self.ev(e, st))

    # -- calls -------------------------------------------------------------
    def _clobber(self, st):
        st.clobbered = True
        for k in list(st.fields):
            st.fields[k] = ("unk", "changed by a method the interpreter does not enter")

    def ev_Call(self, c, st):
        fn = c.func
        name = chain(fn) or ""
        args = [self.ev(a, st) for a in c.args if not isinstance(a, ast.Starred)]
        kw = {k.arg: self.ev(k.value, st) for k in c.keywords if k.arg is not None}
        last = name.split(".")[-1]
        if is_log_call(c) or last in ("warn", "warn_explicit"):
            return CNONE
        # method of a local value
        if isinstance(fn, ast.Attribute):
            recv = self.ev(fn.value, st)
            if recv == ("self",):
                self._clobber(st)
                return ("unk", "result of self.%s()" % fn.attr)
            if recv[0] == "dict":
                d = dict(recv[1])
                if fn.attr == "items" and not args:
                    return ("tuple", tuple(("tuple", (_c(k), v)) for k, v in recv[1]))
                if fn.attr in ("keys", "values") and not args:
                    return ("tuple", tuple((_c(k) if fn.attr == "keys" else v) for k, v in recv[1]))
                if fn.attr in ("get", "pop") and args and args[0][0] == "c":
                    k = args[0][1]
                    if fn.attr == "pop" and k in d and isinstance(fn.value, ast.Name):
                        st.env[fn.value.id] = ("dict", tuple((a, b) for a, b in recv[1] if a != k))
                    if k in d:
                        return d[k]
                    if len(args) > 1:
                        return args[1]
                    if fn.attr == "get":
                        return CNONE
                    raise _Raise("KeyError")
                return ("unk", "dict method %s" % fn.attr)
        target = None
        if name and name.split(".")[0] not in st.env:
            target = self.scope.resolve(self.mod, name)
        elif name in st.env:
            target = st.env[name]
        if target is not None and target[0] == "cls":
            q = target[1]
            em = self.scope.enum_members(q)
            if em is not None and len(args) == 1 and not kw:
                a = args[0]
                if a[0] == "enum" and a[1] == q:
                    return a
                n = self.num(a)
                if n is not None or (a[0] == "c" and not em[1]):
                    want = n if n is not None else a[1]
                    for mname, mval in em[0].items():
                        if mval == want:
                            return ("enum", q, mname, mval, em[1])
                    raise _Raise("ValueError")
                if a[0] == "marker":
                    return ("conv", q, a)
                if self.is_none(a):
                    raise _Raise("ValueError")
                return ("unk", "%s(%s)" % (q.split(".")[-1], a[0]))
            if any(x == ("self",) for x in args + list(kw.values())):
                self._clobber(st)
            return ("new", q, id(c))
        if name in ("bool",) and len(args) == 1:
            t = self.truthy(args[0])
            return ("unk", "bool()") if t is None else _c(t)
        if name == "int" and len(args) == 1 and self.num(args[0]) is not None:
            return _c(int(self.num(args[0])))
        if name == "bytes" and len(args) == 1 and args[0][0] == "c" and isinstance(args[0][1], bytes):
            return args[0]
        if name == "len" and len(args) == 1:
            if args[0][0] == "c" and isinstance(args[0][1], (bytes, str)):
                return _c(len(args[0][1]))
            if args[0][0] in ("tuple", "dict"):
                return _c(len(args[0][1]))
        if name == "isinstance" and len(args) == 2:
            return ("unk", "isinstance")
        if name in ("setattr", "getattr", "hasattr", "delattr") and args and args[0] == ("self",):
            if len(args) >= 2 and args[1][0] == "c" and isinstance(args[1][1], str):
                f = args[1][1]
                if name == "setattr" and len(args) == 3:
                    st.fields[f] = args[2]
                    return CNONE
                if name == "getattr":
                    if f in st.fields:
                        return st.fields[f]
                    return args[2] if len(args) == 3 else ("unk", "getattr")
                if name == "hasattr":
                    return _c(f in st.fields) if not st.clobbered else ("unk", "hasattr")
            if name in ("setattr", "delattr"):
                self._clobber(st)
            return ("unk", name)
        if any(x == ("self",) for x in args + list(kw.values())):
            self._clobber(st)
        return ("unk", "call %s" % (name or ast.unparse(fn)[:30]))

    # -- statements --------------------------------------------------------
    def assign(self, t, v, st):
        if isinstance(t, ast.Name):
            st.env[t.id] = v
        elif isinstance(t, ast.Attribute):
            if isinstance(t.value, ast.Name) and st.env.get(t.value.id) == ("self",):
                st.fields[t.attr] = v
            else:
                self.ev(t.value, st)
        elif isinstance(t, (ast.Tuple, ast.List)):
            if v[0] == "tuple" and len(v[1]) == len(t.elts) and not any(isinstance(x, ast.Starred) for x in t.elts):
                for x, y in zip(t.elts, v[1]):
                    self.assign(x, y, st)
            else:
                for x in t.elts:
                    self.assign(x.value if isinstance(x, ast.Starred) else x, ("unk", "unpacking"), st)
        elif isinstance(t, ast.Subscript):
            self.ev(t.value, st)

    def block(self, stmts, st):
        """-> [(status, state, info)] with status next / return / raise"""
        states = [st]
        out = []
        for s in stmts:
            nxt = []
            for x in states:
                for status, y, info in self.stmt(s, x):
                    if status == "next":
                        nxt.append(y)
                    else:
                        out.append((status, y, info))
            states = nxt
            self.n += len(states)
            if self.n > self.MAX * 40 or len(states) > self.MAX:
                raise Unsupported("too many paths")
            if not states:
                break
        return out + [("next", x, None) for x in states]

    def stmt(self, s, st):
        try:
            return self._stmt(s, st)
        except _Raise as r:
            return [("raise", st, r.exc)]

    def _branch(self, test, st):
        t = self.truth(test, st)
        if t is None:
            return [(True, st.fork()), (False, st.fork())]
        return [(t, st)]

    def _stmt(self, s, st):
        if isinstance(s, ast.Assign):
            v = self.ev(s.value, st)
            for t in s.targets:
                self.assign(t, v, st)
            return [("next", st, None)]
        if isinstance(s, ast.AnnAssign):
            if s.value is not None:
                self.assign(s.target, self.ev(s.value, st), st)
            return [("next", st, None)]
        if isinstance(s, ast.AugAssign):
            load = copy.copy(s.target)
            load.ctx = ast.Load()
            v = self.ev_BinOp(ast.BinOp(left=load, op=s.op, right=s.value), st)
            self.assign(s.target, v, st)
            return [("next", st, None)]
        if isinstance(s, ast.Expr):
            self.ev(s.value, st)
            return [("next", st, None)]
        if isinstance(s, (ast.Pass, ast.Assert, ast.Import, ast.ImportFrom, ast.Global, ast.Nonlocal)):
            return [("next", st, None)]
        if isinstance(s, (ast.FunctionDef, ast.AsyncFunctionDef, ast.ClassDef)):
            st.env[s.name] = ("new", "function", id(s))
            return [("next", st, None)]
        if isinstance(s, ast.Delete):
            for t in s.targets:
                if isinstance(t, ast.Name):
                    st.env.pop(t.id, None)
                elif isinstance(t, ast.Attribute) and isinstance(t.value, ast.Name) and st.env.get(t.value.id) == ("self",):
                    st.fields[t.attr] = ("unk", "deleted")
            return [("next", st, None)]
        if isinstance(s, ast.Return):
            return [("return", st, self.ev(s.value, st) if s.value is not None else CNONE)]
        if isinstance(s, ast.Raise):
            return [("raise", st, ast.unparse(s.exc)[:40] if s.exc is not None else "re-raise")]
        if isinstance(s, ast.If):
            out = []
            for t, x in self._branch(s.test, st):
                out.extend(self.block(s.body if t else s.orelse, x))
            return out
        if isinstance(s, (ast.With, ast.AsyncWith)):
            for it in s.items:
                v = self.ev(it.context_expr, st)
                if it.optional_vars is not None:
                    self.assign(it.optional_vars, ("unk", "context value") if v[0] != "new" else v, st)
            return self.block(s.body, st)
        if isinstance(s, (ast.For, ast.AsyncFor)):
            it = self.ev(s.iter, st)
            if it[0] in ("tuple",) and len(it[1]) <= 8:
                states = [st]
                out = []
                for item in it[1]:
                    nxt = []
                    for x in states:
                        self.assign(s.target, item, x)
                        for status, y, info in self.block(s.body, x):
                            if status == "next":
                                nxt.append(y)
                            else:
                                out.append((status, y, info))
                    states = nxt
                for x in states:
                    out.extend(self.block(s.orelse, x))
                return out
            # unknown iterable: not at all, or once with unknown items
            a, b = st.fork(), st.fork()
            self.assign(s.target, ("unk", "loop item"), b)
            out = self.block(s.orelse, a)
            if any(isinstance(n, (ast.Break, ast.Continue)) for n in walk_no_nested(s)):
                raise Unsupported("loop with break/continue over an unknown iterable")
            for status, y, info in self.block(s.body, b):
                if status == "next":
                    out.extend(self.block(s.orelse, y))
                else:
                    out.append((status, y, info))
            return out
        if isinstance(s, ast.Try):
            out = []
            for status, y, info in self.block(s.body, st):
                if status == "raise" and s.handlers:
                    for h in s.handlers:
                        z = y.fork()
                        if h.name:
                            z.env[h.name] = ("new", "exception", id(h))
                        out.extend(self.block(h.body, z))
                elif status == "next":
                    out.extend(self.block(s.orelse, y))
                else:
                    out.append((status, y, info))
            if not s.finalbody:
                return out
            res = []
            for status, y, info in out:
                for st2, z, info2 in self.block(s.finalbody, y):
                    res.append((status, z, info) if st2 == "next" else (st2, z, info2))
            return res
        raise Unsupported("statement %s" % type(s).__name__)

    # -- entry -------------------------------------------------------------
    def param_names(self):
        a = self.init.node.args
        return [x.arg for x in a.posonlyargs + a.args][1:] + [x.arg for x in a.kwonlyargs]

    def run(self, kwargs):
        """kwargs: {keyword: value}.  -> [(kind, fields, clobbered, info)]"""
        a = self.init.node.args
        pos = a.posonlyargs + a.args
        env = {}
        if not pos:
            raise Unsupported("__init__ without self")
        env[pos[0].arg] = ("self",)
        defaults = {}
        for p, d in zip(pos[len(pos) - len(a.defaults):], a.defaults):
            defaults[p.arg] = d
        for p, d in zip(a.kwonlyargs, a.kw_defaults):
            if d is not None:
                defaults[p.arg] = d
        st = _St(env, {})
        rest = dict(kwargs)
        for p in pos[1:] + a.kwonlyargs:
            if p.arg in rest:
                env[p.arg] = rest.pop(p.arg)
            elif p.arg in defaults:
                env[p.arg] = self.ev(defaults[p.arg], _St({}, {}))
            else:
                env[p.arg] = ("unk", "required argument %s" % p.arg)
        if a.kwarg is not None:
            env[a.kwarg.arg] = ("dict", tuple(sorted(rest.items(), key=lambda kv: kv[0])))
        elif rest:
            return [("raise", {}, False, "TypeError: unexpected keyword %s" % sorted(rest))]
        if a.vararg is not None:
            env[a.vararg.arg] = ("tuple", ())
        self.n = 0
        res = []
        for status, y, info in self.block(self.init.node.body, st):
            res.append(("raise" if status == "raise" else "return", y.fields, y.clobbered, info))
        return res


class _Raise(Exception):
    def __init__(self, exc):
        Exception.__init__(self, exc)
        self.exc = exc


def constructions(prog, fi, cls_qn):
    """[(call, {keyword: value expr}, has_unknown_kwargs)] of the constructions of class cls_qn in fi:
    `C(...)`, `module.C(...)`, `cls(...)` inside a classmethod of C, `type(self)(...)` / `self.__class__(...)` in a method of C."""
    res = []
    in_cls = fi.cls is not None and fi.cls.qn == cls_qn
    if not in_cls and fi.parent is not None:
        top = fi
        while top.parent is not None:
            top = top.parent
        in_cls = top.cls is not None and top.cls.qn == cls_qn
    a = fi.node.args
    first = (a.posonlyargs + a.args)[0].arg if (a.posonlyargs + a.args) else None
    decos = {ast.unparse(d) for d in getattr(fi.node, "decorator_list", [])}
    for c in walk_no_nested(fi.node):
        if not isinstance(c, ast.Call):
            continue
        ok = False
        name = chain(c.func)
        if name is not None:
            if in_cls and first is not None and name == first and "classmethod" in decos:
                ok = True
            elif in_cls and first is not None and name == first + ".__class__":
                ok = True
            elif name.split(".")[0] not in {x for x in _local_names(fi.node)}:
                ok = prog.resolve_in_module(fi.module, name) == cls_qn
        elif in_cls and isinstance(c.func, ast.Call) and chain(c.func.func) == "type" and len(c.func.args) == 1 and chain(c.func.args[0]) == first:
            ok = True
        if ok:
            res.append((c, {k.arg: k.value for k in c.keywords if k.arg is not None}, any(k.arg is None for k in c.keywords) or bool(c.args)))
    return res


def _local_names(fnode):
    out = set()
    a = fnode.args
    for x in a.posonlyargs + a.args + a.kwonlyargs + [y for y in (a.vararg, a.kwarg) if y]:
        out.add(x.arg)
    for n in walk_no_nested(fnode):
        if isinstance(n, ast.Name) and isinstance(n.ctx, ast.Store):
            out.add(n.id)
    return out


# ---------------------------------------------------------------------------
# numbers a tuning class evaluates to
#
# ClassEval answers "what does `instance_of(cls).NAME` evaluate to" by *evaluating* the definition the way Python
# would for an instance of exactly that class: the attribute is looked up along the class hierarchy, descriptors are
# honoured (property / cached_property in decorator or call form, staticmethod, classmethod, plain functions become
# bound methods), and whatever the definition calls is evaluated too -- methods of the hierarchy (dispatched on the
# class under evaluation, `super()`, `Base.m(self, ..)`, `type(self).m(..)`), module-level helper functions (also
# imported from another module of the package), lambdas / nested defs / functools.partial / operator.* as values,
# and the arithmetic builtins and math.* functions that have an exact result on rationals.  Parameters are bound as
# Python binds them (positional, keyword, defaults, *args), bodies are run statement by statement on concrete values
# (assignments, augmented assignments, if / for / while on decidable tests, return), so a formula that is written
# inline, moved to a helper with arguments, tabulated in a dict or spelt as a sum over range(MAX_RETRANSMIT) gives
# the same number.  Everything is computed in exact rational arithmetic (float literals at their binary value).
#
# Why accepting these forms is safe: the evaluator never guesses.  A construct it has no exact meaning for (unknown
# callee, unknown decorator, irrational result, statement with an effect on something it tracks, undecidable test,
# generator, exhausted budget) raises Unsupported and the clause refuses (exit 2).  A number it does return is the
# number the running program computes for that class, hence comparing two classes' numbers decides the obligation
# of C04.j whatever the spelling.  Expression statements (docstrings, warnings.warn(..), logging) are skipped: they
# cannot change the value returned unless they re-define an attribute the evaluation reads, and every store to an
# attribute named in `deps` anywhere in the package is judged by C04.j itself.


class _Missing(Unsupported):
    """an attribute that is not defined along the (package part of the) class hierarchy"""


class _Opaque:
    """a value the evaluator could not compute; harmless until it is used"""

    __slots__ = ("reason",)

    def __init__(self, reason):
        self.reason = reason


class _Inst:
    __slots__ = ("qn",)

    def __init__(self, qn):
        self.qn = qn


class _ClsRef:
    __slots__ = ("qn",)

    def __init__(self, qn):
        self.qn = qn

    def __eq__(self, o):
        return isinstance(o, _ClsRef) and o.qn == self.qn

    def __hash__(self):
        return hash(("cls", self.qn))


class _ModRef:
    __slots__ = ("module",)

    def __init__(self, module):
        self.module = module


class _Ext:
    """a builtin or something of the standard library, by dotted name (`max`, `math.ldexp`, `functools.partial`)"""

    __slots__ = ("name",)

    def __init__(self, name):
        self.name = name


class _Callable:
    """fn(args: list, kwargs: dict) -> value.  is_function: a Python function object (becomes a bound method when
    found in a class through an instance), as opposed to partial objects, bound methods, builtins."""

    __slots__ = ("fn", "is_function", "descr")

    def __init__(self, fn, is_function=False, descr="callable"):
        self.fn = fn
        self.is_function = is_function
        self.descr = descr


class _Prop:
    __slots__ = ("fget",)

    def __init__(self, fget):
        self.fget = fget


class _Static:
    __slots__ = ("f",)

    def __init__(self, f):
        self.f = f


class _ClassM:
    __slots__ = ("f",)

    def __init__(self, f):
        self.f = f


class _Super:
    __slots__ = ("obj", "after")

    def __init__(self, obj, after):
        self.obj = obj
        self.after = after


class _Frame:
    """env: ChainMap of local names; module: where global names are looked up; defcls: ClassInfo of the class whose
    body (kind "classbody") or method (kind "func") is being evaluated, for super(); first: value of the first
    parameter of the enclosing method, for the zero-argument super()."""

    __slots__ = ("env", "module", "defcls", "kind", "first")

    def __init__(self, env, module, defcls, kind, first=None):
        self.env = env
        self.module = module
        self.defcls = defcls
        self.kind = kind
        self.first = first

    def child(self):
        return _Frame(self.env.new_child({}), self.module, self.defcls, self.kind, self.first)


class _Ret(Exception):
    def __init__(self, value):
        Exception.__init__(self)
        self.value = value


class _Brk(Exception):
    pass


class _Cont(Exception):
    pass


_BUILTINS = {
    "float", "int", "bool", "abs", "round", "pow", "sum", "divmod", "len", "range", "tuple", "list", "sorted", "reversed",
    "enumerate", "zip", "map", "max", "min", "getattr", "hasattr", "type", "super", "property", "staticmethod",
    "classmethod", "dict",
}  # fmt: skip
_OPERATOR = {
    "add": ast.Add, "sub": ast.Sub, "mul": ast.Mult, "truediv": ast.Div, "floordiv": ast.FloorDiv, "mod": ast.Mod,
    "pow": ast.Pow, "lshift": ast.LShift, "rshift": ast.RShift, "and_": ast.BitAnd, "or_": ast.BitOr, "xor": ast.BitXor,
}  # fmt: skip


def _class_members(ci):
    """Ordered bindings of the class body: [(line after which the binding is in force, name, kind, payload)] with kind
    "attr" (payload: value expression), "def" (payload: FunctionDef) or "unknown" (bound under a class-level
    if / try / with / for, by `del`, by a nested class or by unpacking a non-literal).  A def decorated with
    `@NAME.setter` / `@NAME.deleter` re-binds NAME to a property with the same getter: it is no new binding."""
    out = []

    def bind(t, v, line):
        if isinstance(t, ast.Name):
            out.append((line, t.id, "attr" if v is not None else "unknown", v))
        elif isinstance(t, (ast.Tuple, ast.List)):
            if v is not None and isinstance(v, (ast.Tuple, ast.List)) and len(v.elts) == len(t.elts) and not any(isinstance(x, ast.Starred) for x in list(v.elts) + list(t.elts)):
                for x, y in zip(t.elts, v.elts):
                    bind(x, y, line)
            else:
                for x in ast.walk(t):
                    if isinstance(x, ast.Name):
                        out.append((line, x.id, "unknown", None))
        # attribute / subscript targets in a class body do not bind a class attribute

    for st in ci.node.body:
        line = getattr(st, "end_lineno", None) or getattr(st, "lineno", 0)
        if isinstance(st, ast.Assign):
            for t in st.targets:
                bind(t, st.value, line)
        elif isinstance(st, ast.AnnAssign):
            if st.value is not None:
                bind(st.target, st.value, line)
        elif isinstance(st, (ast.FunctionDef, ast.AsyncFunctionDef)):
            keeps_getter = False
            for d in st.decorator_list:
                c = chain(d)
                if c is not None and c.split(".")[0] == st.name and c.split(".")[-1] in ("setter", "deleter") and len(c.split(".")) == 2:
                    keeps_getter = True
            if not keeps_getter:
                out.append((line, st.name, "def" if isinstance(st, ast.FunctionDef) else "unknown", st))
        elif isinstance(st, ast.ClassDef):
            out.append((line, st.name, "unknown", None))
        elif isinstance(st, (ast.Expr, ast.Pass, ast.Import, ast.ImportFrom)):
            continue
        else:
            for x in ast.walk(st):
                if isinstance(x, ast.Name) and isinstance(x.ctx, (ast.Store, ast.Del)):
                    out.append((line, x.id, "unknown", None))
                elif isinstance(x, (ast.FunctionDef, ast.AsyncFunctionDef, ast.ClassDef)):
                    out.append((line, x.name, "unknown", None))
    return out


def _class_attrs(ci):
    """{name: value expr} of the class-level bindings read from the class body itself (the program index leaves
    ClassInfo.attrs empty for classes defined inside functions); a name bound under a class-level if / try / with / for,
    by `del`, or by unpacking a non-literal is mapped to None."""
    out = {}
    for _line, name, kind, payload in _class_members(ci):
        if kind == "attr":
            out[name] = payload
        elif kind == "unknown":
            out[name] = None
    return out


class ClassEval:
    """Value of `instance_of(cls).NAME`, looked up along the class hierarchy and evaluated (see the comment above):
    exact rational arithmetic (float literals are taken at their binary value, so two classes doing the same
    arithmetic give the same number).  `deps` collects every attribute name that was read from a class or an
    instance, with the class that defines it."""

    MAX_STEPS = 400000
    MAX_DEPTH = 60
    MAX_ITEMS = 20000

    def __init__(self, prog, cls_qn):
        from fractions import Fraction

        self.F = Fraction
        self.prog = prog
        self.cls_qn = cls_qn
        self.deps = {}  # name -> class that defines it
        self.scope = ModuleScope(prog)
        self._busy = set()
        self._steps = 0
        self._depth = 0
        self._pkg_tops = {m.split(".")[0] for m in prog.modules}
        self._members = {}

    # -- public -------------------------------------------------------------------------------------------------

    def get(self, name):
        return self.inst_get(self.cls_qn, name)

    def number(self, name):
        v = self.get(name)
        if isinstance(v, bool) or not isinstance(v, self.F):
            raise Unsupported("%s evaluates to %s, not to a number" % (name, self.show(v)))
        return v

    # -- attribute lookup ---------------------------------------------------------------------------------------

    def members(self, ci):
        if ci.qn not in self._members:
            self._members[ci.qn] = _class_members(ci)
        return self._members[ci.qn]

    def lookup(self, name, qn=None, after=None):
        """(ClassInfo, binding) of the class that provides `name` for an object of class qn, or (None, None)"""
        qn = qn or self.cls_qn
        mro = self.prog.mro(qn)
        if after is not None:
            if after not in mro:
                raise Unsupported("super() of %s used on an object of %s" % (after.split(".")[-1], qn.split(".")[-1]))
            mro = mro[mro.index(after) + 1:]
        for q in mro:
            ci = self.prog.classes.get(q)
            if ci is None:
                continue
            for dyn in ("__getattribute__",):
                if any(b[1] == dyn for b in self.members(ci)):
                    raise Unsupported("%s defines %s" % (q.split(".")[-1], dyn))
            last = None
            for b in self.members(ci):
                if b[1] == name:
                    last = b
            if last is not None:
                if last[2] == "unknown":
                    raise Unsupported("%s.%s is bound conditionally or by a statement the evaluator does not read" % (q.split(".")[-1], name))
                return ci, last
        return None, None

    def _missing(self, qn, name):
        mro = self.prog.mro(qn)
        for q in mro:
            ci = self.prog.classes.get(q)
            if ci is None:
                if q not in ("object",):
                    return Unsupported("%s is not defined by %s or its bases in the package (base %s is outside)" % (name, qn.split(".")[-1], q))
            elif any(b[1] == "__getattr__" for b in self.members(ci)):
                return Unsupported("%s is not defined by %s; %s defines __getattr__" % (name, qn.split(".")[-1], q.split(".")[-1]))
        return _Missing("%s is not defined by %s or its bases in the package" % (name, qn.split(".")[-1]))

    def raw_member(self, ci, binding):
        """the object the class body binds: value of the expression, or the function with its decorators applied"""
        _line, name, kind, payload = binding
        fr = _Frame(ChainMap({}), ci.module, ci, "classbody")
        if kind == "attr":
            return self.ev(payload, fr)
        return self.def_value(payload, fr)

    def def_value(self, fnode, fr):
        v = self.make_function(fnode.args, fnode.body, fr, fnode.name, is_expr=False, node=fnode)
        for d in reversed(fnode.decorator_list):
            v = self.call(self.ev(d, fr), [v], {}, d)
        return v

    def _guarded(self, key, what, thunk):
        if key in self._busy:
            raise Unsupported("%s is defined in terms of itself" % what)
        self._busy.add(key)
        try:
            return thunk()
        finally:
            self._busy.discard(key)

    def inst_get(self, qn, name, after=None, inst=None):
        """value of `obj.name` for an instance obj of class qn (`after`: lookup continues behind that class: super())"""
        if name == "__class__":
            return _ClsRef(qn)
        ci, b = self.lookup(name, qn, after)
        if ci is None:
            raise self._missing(qn, name)
        self.deps[name] = ci.qn
        inst = inst or _Inst(qn)

        def thunk():
            raw = self.raw_member(ci, b)
            if isinstance(raw, _Prop):
                if raw.fget is None:
                    raise Unsupported("property %s has no getter" % name)
                return self.call(raw.fget, [inst], {}, None)
            if isinstance(raw, _Static):
                return raw.f
            if isinstance(raw, _ClassM):
                return self.bound(raw.f, _ClsRef(qn))
            if isinstance(raw, _Callable) and raw.is_function:
                return self.bound(raw, inst)
            return raw

        return self._guarded(("inst", qn, name, after), name, thunk)

    def cls_get(self, qn, name, after=None):
        """value of `C.name` for the class object C = qn"""
        if name == "__name__":
            return qn.split(".")[-1]
        ci, b = self.lookup(name, qn, after)
        if ci is None:
            raise self._missing(qn, name)
        self.deps[name] = ci.qn

        def thunk():
            raw = self.raw_member(ci, b)
            if isinstance(raw, _Prop):
                raise Unsupported("%s.%s read from the class is a property object" % (qn.split(".")[-1], name))
            if isinstance(raw, _Static):
                return raw.f
            if isinstance(raw, _ClassM):
                return self.bound(raw.f, _ClsRef(qn))
            return raw

        return self._guarded(("cls", qn, name, after), name, thunk)

    def bound(self, f, obj):
        return _Callable(lambda a, k: self.call(f, [obj] + list(a), k, None), False, "bound %s" % getattr(f, "descr", "callable"))

    def getattr_value(self, base, attr, node=None):
        if isinstance(base, _Inst):
            return self.inst_get(base.qn, attr, inst=base)
        if isinstance(base, _ClsRef):
            return self.cls_get(base.qn, attr)
        if isinstance(base, _Super):
            if isinstance(base.obj, _Inst):
                return self.inst_get(base.obj.qn, attr, after=base.after, inst=base.obj)
            return self.cls_get(base.obj.qn, attr, after=base.after)
        if isinstance(base, _ModRef):
            return self.global_name(base.module, attr)
        if isinstance(base, _Ext):
            return self.ext_value(base.name + "." + attr)
        if isinstance(base, dict) and attr in ("get", "items", "keys", "values"):
            if attr == "get":
                return _Callable(lambda a, k: self._dict_get(base, a, k), False, "dict.get")
            if attr == "items":
                return _Callable(lambda a, k: tuple((x, y) for x, y in base.items()), False, "dict.items")
            if attr == "keys":
                return _Callable(lambda a, k: tuple(base.keys()), False, "dict.keys")
            return _Callable(lambda a, k: tuple(base.values()), False, "dict.values")
        if isinstance(base, self.F) and not isinstance(base, bool) and attr in ("real", "numerator", "denominator", "imag"):
            if attr == "real":
                return base
            if attr == "imag":
                return self.F(0)
            if base.denominator == 1 and attr == "numerator":
                return base
            if base.denominator == 1 and attr == "denominator":
                return self.F(1)
        raise Unsupported("attribute %s of %s" % (attr, self.show(base)))

    def _dict_get(self, d, a, k):
        if k or not 1 <= len(a) <= 2:
            raise Unsupported("dict.get arguments")
        key = self.hashable(a[0])
        return d[key] if key in d else (a[1] if len(a) == 2 else None)

    # -- names --------------------------------------------------------------------------------------------------

    def name(self, ident, fr, node):
        if ident in fr.env:
            v = fr.env[ident]
            if isinstance(v, _Opaque):
                raise Unsupported(v.reason)
            return v
        if fr.kind == "classbody" and fr.defcls is not None:
            ci = fr.defcls
            line = getattr(node, "lineno", None)
            last = None
            for b in self.members(ci):
                if b[1] == ident and (line is None or b[0] < line):
                    last = b
            if last is not None:
                if last[2] == "unknown":
                    raise Unsupported("%s.%s is bound conditionally or by a statement the evaluator does not read" % (ci.qn.split(".")[-1], ident))
                self.deps[ident] = ci.qn
                return self._guarded(("body", ci.qn, ident, last[0]), ident, lambda: self.raw_member(ci, last))
        if fr.defcls is not None and ".<locals>." in fr.defcls.qn:
            # a class defined inside a function sees the locals of that function, which the evaluator does not have
            outer = self.prog.funcs.get(fr.defcls.qn.rsplit(".<locals>.", 1)[0])
            if outer is None or ident in _local_names(outer.node):
                raise Unsupported("name %s of the function that defines %s" % (ident, fr.defcls.qn.split(".")[-1]))
        return self.global_name(fr.module, ident)

    def global_name(self, mod, ident):
        prog = self.prog
        q = mod.name + "." + ident
        if q in prog.classes:
            return _ClsRef(q)
        if q in prog.funcs and prog.funcs[q].cls is None and prog.funcs[q].parent is None:
            if (q + "#2") in prog.funcs:
                raise Unsupported("function %s is defined more than once" % ident)
            fi = prog.funcs[q]
            if not isinstance(fi.node, ast.FunctionDef):
                raise Unsupported("%s is a coroutine function" % ident)
            fr = _Frame(ChainMap({}), mod, None, "module")
            return self._guarded(("glob", mod.name, ident), ident, lambda: self.def_value(fi.node, fr))
        v = self.scope.module_value(mod, ident)
        if v is not None:
            fr = _Frame(ChainMap({}), mod, None, "module")
            return self._guarded(("glob", mod.name, ident), ident, lambda: self.ev(v, fr))
        if ident in mod.imports:
            return self.imported(mod.imports[ident])
        if ident in _BUILTINS:
            return _Ext(ident)
        raise Unsupported("name %s" % ident)

    def imported(self, target, depth=0):
        prog = self.prog
        if depth > 6:
            raise Unsupported("import chain of %s" % target)
        tgt = prog.canonical(target)
        if tgt in prog.classes:
            return _ClsRef(tgt)
        if tgt in prog.modules:
            return _ModRef(prog.modules[tgt])
        mname, _, attr = tgt.rpartition(".")
        if mname in prog.modules:
            return self.global_name(prog.modules[mname], attr)
        if tgt.split(".")[0] in self._pkg_tops:
            raise Unsupported("imported name %s" % tgt)
        return self.ext_value(tgt)

    def ext_value(self, name):
        import math

        if name in ("math.pi", "math.e", "math.tau"):
            return self.F(getattr(math, name.split(".")[1]))
        return _Ext(name)

    # -- values -------------------------------------------------------------------------------------------------

    def show(self, v):
        if isinstance(v, self.F):
            return str(v)
        if isinstance(v, (_Inst, _ClsRef)):
            return "%s %s" % ("an instance of" if isinstance(v, _Inst) else "class", v.qn.split(".")[-1])
        if isinstance(v, _Ext):
            return v.name
        if isinstance(v, _Callable):
            return v.descr
        if isinstance(v, _Opaque):
            return "<%s>" % v.reason
        return type(v).__name__.lstrip("_") if not isinstance(v, (str, bool, tuple, type(None))) else repr(v)[:40]

    def num(self, v, what="operand"):
        if isinstance(v, bool):
            return self.F(int(v))
        if isinstance(v, self.F):
            return v
        if isinstance(v, _Opaque):
            raise Unsupported(v.reason)
        raise Unsupported("%s %s is not a number" % (what, self.show(v)))

    def intv(self, v, what="operand"):
        v = self.num(v, what)
        if v.denominator != 1:
            raise Unsupported("%s %s is not an integer" % (what, v))
        return int(v)

    def hashable(self, v):
        if isinstance(v, (self.F, str, bool, type(None), bytes, _ClsRef)):
            return v
        if isinstance(v, tuple):
            return tuple(self.hashable(x) for x in v)
        raise Unsupported("%s as a key" % self.show(v))

    def truthy(self, v):
        if isinstance(v, _Opaque):
            raise Unsupported(v.reason)
        if isinstance(v, (bool, self.F)):
            return v != 0
        if v is None:
            return False
        if isinstance(v, (str, bytes, tuple, dict)):
            return len(v) > 0
        if isinstance(v, _Inst):
            for special in ("__bool__", "__len__"):
                if self.lookup(special, v.qn)[0] is not None:
                    raise Unsupported("truth value of an object with %s" % special)
            return True
        if isinstance(v, (_Callable, _ClsRef, _Ext, _ModRef, _Prop, _Static, _ClassM)):
            return True
        raise Unsupported("truth value of %s" % self.show(v))

    def items(self, v, what="iteration"):
        if isinstance(v, _Opaque):
            raise Unsupported(v.reason)
        if isinstance(v, tuple):
            return list(v)
        if isinstance(v, dict):
            return list(v.keys())
        raise Unsupported("%s over %s" % (what, self.show(v)))

    def power(self, a, b):
        F = self.F
        a, b = self.num(a), self.num(b)
        if b.denominator == 1:
            n = int(b)
            size = max(abs(a.numerator).bit_length(), a.denominator.bit_length(), 1)
            if abs(n) * size > 1 << 16:
                raise Unsupported("power %s ** %s is too large" % (a, b))
            if a == 0 and n < 0:
                raise Unsupported("division by zero")
            return a ** n
        # rational exponent p/q: exact only when a is a perfect q-th power
        q, p = b.denominator, b.numerator
        if a < 0 or q > 16:
            raise Unsupported("power %s ** %s" % (a, b))
        rn, rd = self._iroot(a.numerator, q), self._iroot(a.denominator, q)
        if rn is None or rd is None:
            raise Unsupported("%s ** %s is not rational" % (a, b))
        return self.power(F(rn, rd), F(p))

    @staticmethod
    def _iroot(n, q):
        if n < 0:
            return None
        lo, hi = 0, 1
        while hi ** q < n:
            hi *= 2
        while lo < hi:
            mid = (lo + hi) // 2
            if mid ** q < n:
                lo = mid + 1
            else:
                hi = mid
        return lo if lo ** q == n else None

    def binop(self, op, a, b):
        F = self.F
        if isinstance(op, type):
            op = op()
        if isinstance(op, ast.Add) and isinstance(a, tuple) and isinstance(b, tuple):
            return a + b
        if isinstance(op, ast.Mult) and (isinstance(a, tuple) or isinstance(b, tuple)):
            t, n = (a, b) if isinstance(a, tuple) else (b, a)
            n = self.intv(n)
            if len(t) * max(n, 0) > self.MAX_ITEMS:
                raise Unsupported("sequence too long")
            return t * n
        a, b = self.num(a), self.num(b)
        if isinstance(op, ast.Add):
            return a + b
        if isinstance(op, ast.Sub):
            return a - b
        if isinstance(op, ast.Mult):
            return a * b
        if isinstance(op, (ast.Div, ast.FloorDiv, ast.Mod)):
            if b == 0:
                raise Unsupported("division by zero")
            if isinstance(op, ast.Div):
                return a / b
            if isinstance(op, ast.FloorDiv):
                return F(a // b)
            return F(a % b)
        if isinstance(op, ast.Pow):
            return self.power(a, b)
        if isinstance(op, (ast.LShift, ast.RShift, ast.BitAnd, ast.BitOr, ast.BitXor)):
            x, y = self.intv(a), self.intv(b)
            if isinstance(op, ast.LShift):
                if not 0 <= y <= 4096:
                    raise Unsupported("shift by %s" % y)
                return F(x << y)
            if isinstance(op, ast.RShift):
                if y < 0:
                    raise Unsupported("shift by %s" % y)
                return F(x >> y)
            if isinstance(op, ast.BitAnd):
                return F(x & y)
            if isinstance(op, ast.BitOr):
                return F(x | y)
            return F(x ^ y)
        raise Unsupported("operator %s" % type(op).__name__)

    def compare(self, a, op, b):
        for x in (a, b):
            if isinstance(x, _Opaque):
                raise Unsupported(x.reason)
        if isinstance(op, (ast.Is, ast.IsNot)):
            if a is None or b is None or isinstance(a, bool) or isinstance(b, bool):
                r = a is b
            elif isinstance(a, (_Inst, _ClsRef)) and isinstance(b, (_Inst, _ClsRef)):
                r = a is b or (isinstance(a, _ClsRef) and a == b)
            else:
                raise Unsupported("identity of %s and %s" % (self.show(a), self.show(b)))
            return r if isinstance(op, ast.Is) else not r
        if isinstance(op, (ast.In, ast.NotIn)):
            if isinstance(b, dict):
                r = self.hashable(a) in b
            else:
                r = any(self.compare(a, ast.Eq(), x) for x in self.items(b, "membership"))
            return r if isinstance(op, ast.In) else not r
        if isinstance(op, (ast.Eq, ast.NotEq)):
            if isinstance(a, (bool, self.F)) and isinstance(b, (bool, self.F)):
                r = self.num(a) == self.num(b)
            elif isinstance(a, (_Callable, _Ext, _ModRef, _Prop, _Static, _ClassM, _Super)) or isinstance(b, (_Callable, _Ext, _ModRef, _Prop, _Static, _ClassM, _Super)):
                raise Unsupported("comparison of %s and %s" % (self.show(a), self.show(b)))
            elif isinstance(a, _Inst) or isinstance(b, _Inst):
                for x in (a, b):
                    if isinstance(x, _Inst) and self.lookup("__eq__", x.qn)[0] is not None:
                        raise Unsupported("comparison of an object with __eq__")
                r = a is b
            elif isinstance(a, tuple) and isinstance(b, tuple):
                r = len(a) == len(b) and all(self.compare(x, ast.Eq(), y) for x, y in zip(a, b))
            elif isinstance(a, dict) or isinstance(b, dict):
                raise Unsupported("comparison of dicts")
            else:
                r = type(a) is type(b) and a == b
            return r if isinstance(op, ast.Eq) else not r
        if isinstance(a, tuple) and isinstance(b, tuple):
            raise Unsupported("ordering of sequences")
        if isinstance(a, str) and isinstance(b, str):
            x, y = a, b
        else:
            x, y = self.num(a, "compared value"), self.num(b, "compared value")
        if isinstance(op, ast.Lt):
            return x < y
        if isinstance(op, ast.LtE):
            return x <= y
        if isinstance(op, ast.Gt):
            return x > y
        if isinstance(op, ast.GtE):
            return x >= y
        raise Unsupported("comparison %s" % type(op).__name__)

    # -- expressions --------------------------------------------------------------------------------------------

    def tick(self):
        self._steps += 1
        if self._steps > self.MAX_STEPS:
            raise Unsupported("the evaluation does not finish within the step budget")

    def lazy(self, e, fr):
        try:
            return self.ev(e, fr)
        except Unsupported as ex:
            return _Opaque(str(ex))

    def ev(self, e, fr):
        F = self.F
        self.tick()
        if isinstance(e, ast.Constant):
            v = e.value
            if isinstance(v, bool) or v is None or isinstance(v, (str, bytes)):
                return v
            if isinstance(v, (int, float)):
                if isinstance(v, float) and (v != v or v in (float("inf"), float("-inf"))):
                    raise Unsupported("non-finite constant")
                return F(v)
            raise Unsupported("constant %r" % (v,))
        if isinstance(e, ast.Name):
            return self.name(e.id, fr, e)
        if isinstance(e, ast.Attribute):
            return self.getattr_value(self.ev(e.value, fr), e.attr, e)
        if isinstance(e, ast.UnaryOp):
            if isinstance(e.op, ast.Not):
                return not self.truthy(self.ev(e.operand, fr))
            v = self.ev(e.operand, fr)
            if isinstance(e.op, ast.USub):
                return -self.num(v)
            if isinstance(e.op, ast.UAdd):
                return self.num(v)
            return F(~self.intv(v))
        if isinstance(e, ast.BinOp):
            a = self.ev(e.left, fr)
            b = self.ev(e.right, fr)
            return self.binop(e.op, a, b)
        if isinstance(e, ast.BoolOp):
            v = None
            for x in e.values:
                v = self.ev(x, fr)
                t = self.truthy(v)
                if isinstance(e.op, ast.And) and not t:
                    return v
                if isinstance(e.op, ast.Or) and t:
                    return v
            return v
        if isinstance(e, ast.Compare):
            left = self.ev(e.left, fr)
            for op, r in zip(e.ops, e.comparators):
                right = self.ev(r, fr)
                if not self.compare(left, op, right):
                    return False
                left = right
            return True
        if isinstance(e, ast.IfExp):
            return self.ev(e.body if self.truthy(self.ev(e.test, fr)) else e.orelse, fr)
        if isinstance(e, (ast.Tuple, ast.List)):
            out = []
            for x in e.elts:
                if isinstance(x, ast.Starred):
                    out.extend(self.items(self.ev(x.value, fr), "unpacking"))
                else:
                    out.append(self.ev(x, fr))
            return tuple(out)
        if isinstance(e, ast.Dict):
            d = {}
            for k, v in zip(e.keys, e.values):
                if k is None:
                    sub = self.ev(v, fr)
                    if not isinstance(sub, dict):
                        raise Unsupported("** of %s" % self.show(sub))
                    d.update(sub)
                else:
                    d[self.hashable(self.ev(k, fr))] = self.ev(v, fr)
            return d
        if isinstance(e, ast.Subscript):
            base = self.ev(e.value, fr)
            if isinstance(base, dict):
                k = self.hashable(self.ev(e.slice, fr))
                if k not in base:
                    raise Unsupported("key %s is not in the table" % self.show(k))
                return base[k]
            if isinstance(base, tuple):
                if isinstance(e.slice, ast.Slice):
                    lo, hi, st = [None if x is None else self.intv(self.ev(x, fr), "slice bound") for x in (e.slice.lower, e.slice.upper, e.slice.step)]
                    if st == 0:
                        raise Unsupported("slice step 0")
                    return base[lo:hi:st]
                i = self.intv(self.ev(e.slice, fr), "index")
                if not -len(base) <= i < len(base):
                    raise Unsupported("index %d out of range" % i)
                return base[i]
            raise Unsupported("subscript of %s" % self.show(base))
        if isinstance(e, ast.Lambda):
            return self.make_function(e.args, e.body, fr, "<lambda>", is_expr=True, node=e)
        if isinstance(e, (ast.ListComp, ast.GeneratorExp, ast.SetComp)):
            out = []
            self.comprehend(e.generators, fr.child(), lambda f2: out.append(self.ev(e.elt, f2)))
            if isinstance(e, ast.SetComp):
                seen, uniq = set(), []
                for x in out:
                    h = self.hashable(x)
                    if h not in seen:
                        seen.add(h)
                        uniq.append(x)
                out = uniq
            return tuple(out)
        if isinstance(e, ast.DictComp):
            d = {}

            def put(f2):
                d[self.hashable(self.ev(e.key, f2))] = self.ev(e.value, f2)

            self.comprehend(e.generators, fr.child(), put)
            return d
        if isinstance(e, ast.NamedExpr) and isinstance(e.target, ast.Name):
            v = self.ev(e.value, fr)
            fr.env[e.target.id] = v
            return v
        if isinstance(e, ast.Call):
            return self.ev_call(e, fr)
        raise Unsupported("expression `%s`" % ast.unparse(e)[:50])

    def comprehend(self, gens, fr, emit, i=0):
        if i == len(gens):
            emit(fr)
            return
        g = gens[i]
        if g.is_async:
            raise Unsupported("asynchronous comprehension")
        for x in self.items(self.ev(g.iter, fr)):
            self.tick()
            self.assign(g.target, x, fr)
            if all(self.truthy(self.ev(c, fr)) for c in g.ifs):
                self.comprehend(gens, fr, emit, i + 1)

    def ev_call(self, e, fr):
        f = self.ev(e.func, fr)
        if isinstance(f, _Ext) and f.name == "super" and not e.args and not e.keywords:
            if fr.first is None or fr.defcls is None or not isinstance(fr.first, (_Inst, _ClsRef)):
                raise Unsupported("super() outside a method")
            return _Super(fr.first, fr.defcls.qn)
        args = []
        for a in e.args:
            if isinstance(a, ast.Starred):
                args.extend(self.items(self.ev(a.value, fr), "argument unpacking"))
            else:
                args.append(self.lazy(a, fr))
        kwargs = {}
        for k in e.keywords:
            if k.arg is None:
                d = self.ev(k.value, fr)
                if not isinstance(d, dict) or not all(isinstance(x, str) for x in d):
                    raise Unsupported("** of %s" % self.show(d))
                kwargs.update(d)
            else:
                kwargs[k.arg] = self.lazy(k.value, fr)
        return self.call(f, args, kwargs, e)

    def call(self, f, args, kwargs, node):
        self._depth += 1
        try:
            if self._depth > self.MAX_DEPTH:
                raise Unsupported("calls nest too deeply")
            if isinstance(f, _Opaque):
                raise Unsupported(f.reason)
            if isinstance(f, _Callable):
                return f.fn(list(args), dict(kwargs))
            if isinstance(f, _Ext):
                return self.call_ext(f.name, list(args), dict(kwargs))
            if isinstance(f, _ClsRef):
                if args or kwargs:
                    raise Unsupported("construction of %s with arguments" % f.qn.split(".")[-1])
                for special in ("__init__", "__new__", "__init_subclass__"):
                    if self.lookup(special, f.qn)[0] is not None:
                        raise Unsupported("%s defines %s" % (f.qn.split(".")[-1], special))
                if any(q not in self.prog.classes and q != "object" for q in self.prog.mro(f.qn)):
                    raise Unsupported("construction of %s, which has a base outside the package" % f.qn.split(".")[-1])
                return _Inst(f.qn)
            raise Unsupported("call of %s" % self.show(f))
        finally:
            self._depth -= 1

    # -- functions ----------------------------------------------------------------------------------------------

    def make_function(self, a, body, fr_def, name, is_expr, node):
        """a function object: defaults are evaluated now (definition time), the body when it is called"""
        pos = [x.arg for x in a.posonlyargs + a.args]
        npos_only = len(a.posonlyargs)
        defaults = {}
        for p, d in zip(pos[len(pos) - len(a.defaults):], a.defaults):
            defaults[p] = self.lazy(d, fr_def)
        for p, d in zip(a.kwonlyargs, a.kw_defaults):
            if d is not None:
                defaults[p.arg] = self.lazy(d, fr_def)
        kwonly = [x.arg for x in a.kwonlyargs]
        in_class = fr_def.kind == "classbody"
        if not is_expr:
            if isinstance(node, ast.AsyncFunctionDef):
                raise Unsupported("%s is a coroutine function" % name)
            for x in walk_no_nested(node):
                if isinstance(x, (ast.Yield, ast.YieldFrom, ast.Await)):
                    raise Unsupported("%s is a generator" % name)
                if isinstance(x, (ast.Global, ast.Nonlocal)):
                    raise Unsupported("%s re-binds names of an outer scope" % name)

        def run(args, kwargs):
            local = {}
            args = list(args)
            if len(args) > len(pos) and a.vararg is None:
                raise Unsupported("%s() takes %d positional arguments, %d given" % (name, len(pos), len(args)))
            for p, v in zip(pos, args):
                local[p] = v
            if a.vararg is not None:
                local[a.vararg.arg] = tuple(args[len(pos):])
            extra = {}
            for k, v in kwargs.items():
                if k in local or (k in pos[:npos_only]):
                    raise Unsupported("%s() got multiple values / a positional-only keyword for %s" % (name, k))
                if k in pos or k in kwonly:
                    local[k] = v
                elif a.kwarg is not None:
                    extra[k] = v
                else:
                    raise Unsupported("%s() got an unexpected keyword argument %s" % (name, k))
            if a.kwarg is not None:
                local[a.kwarg.arg] = extra
            for p in pos + kwonly:
                if p not in local:
                    if p not in defaults:
                        raise Unsupported("%s() is called without its argument %s" % (name, p))
                    local[p] = defaults[p]
            env = fr_def.env.new_child(local) if fr_def.kind == "func" else ChainMap(local)
            first = fr_def.first
            if in_class:
                first = args[0] if args and pos else None
            fr = _Frame(env, fr_def.module, fr_def.defcls, "func", first)
            if is_expr:
                return self.ev(body, fr)
            try:
                self.block(body, fr)
            except _Ret as r:
                return r.value
            except (_Brk, _Cont):
                raise Unsupported("break / continue outside a loop in %s" % name)
            return None

        return _Callable(run, True, "function %s" % name)

    def assign(self, t, v, fr):
        if isinstance(t, ast.Name):
            fr.env[t.id] = v
            return
        if isinstance(t, (ast.Tuple, ast.List)):
            if isinstance(v, _Opaque):
                for x in ast.walk(t):
                    if isinstance(x, ast.Name):
                        fr.env[x.id] = v
                return
            vals = self.items(v, "unpacking")
            if any(isinstance(x, ast.Starred) for x in t.elts) or len(vals) != len(t.elts):
                raise Unsupported("unpacking into `%s`" % ast.unparse(t)[:40])
            for x, y in zip(t.elts, vals):
                self.assign(x, y, fr)
            return
        raise Unsupported("assignment to `%s`" % ast.unparse(t)[:40])

    def block(self, stmts, fr):
        for s in stmts:
            self.stmt(s, fr)

    def stmt(self, s, fr):
        self.tick()
        if isinstance(s, ast.Expr):
            return  # docstring, warnings.warn(...), logging: no influence on the value (see the comment above)
        if isinstance(s, (ast.Pass, ast.Assert, ast.Import, ast.ImportFrom)):
            return
        if isinstance(s, ast.Assign):
            v = self.lazy(s.value, fr)
            for t in s.targets:
                self.assign(t, v, fr)
            return
        if isinstance(s, ast.AnnAssign):
            if s.value is not None:
                self.assign(s.target, self.lazy(s.value, fr), fr)
            return
        if isinstance(s, ast.AugAssign):
            if not isinstance(s.target, ast.Name):
                raise Unsupported("statement `%s`" % stmt_text(s, 40))
            try:
                v = self.binop(s.op, self.name(s.target.id, fr, s.target), self.ev(s.value, fr))
            except Unsupported as ex:
                v = _Opaque(str(ex))
            fr.env[s.target.id] = v
            return
        if isinstance(s, ast.Return):
            raise _Ret(self.ev(s.value, fr) if s.value is not None else None)
        if isinstance(s, ast.If):
            self.block(s.body if self.truthy(self.ev(s.test, fr)) else s.orelse, fr)
            return
        if isinstance(s, ast.For):
            broke = False
            for x in self.items(self.ev(s.iter, fr)):
                self.tick()
                self.assign(s.target, x, fr)
                try:
                    self.block(s.body, fr)
                except _Brk:
                    broke = True
                    break
                except _Cont:
                    continue
            if not broke:
                self.block(s.orelse, fr)
            return
        if isinstance(s, ast.While):
            broke = False
            while self.truthy(self.ev(s.test, fr)):
                self.tick()
                try:
                    self.block(s.body, fr)
                except _Brk:
                    broke = True
                    break
                except _Cont:
                    continue
            if not broke:
                self.block(s.orelse, fr)
            return
        if isinstance(s, ast.Break):
            raise _Brk()
        if isinstance(s, ast.Continue):
            raise _Cont()
        if isinstance(s, ast.FunctionDef):
            fr.env[s.name] = self.def_value(s, fr)
            return
        if isinstance(s, ast.With) and all(i.optional_vars is None for i in s.items):
            # the context managers a value computation is wrapped in (warnings.catch_warnings(), a lock) do not
            # change what the body computes
            self.block(s.body, fr)
            return
        raise Unsupported("statement `%s`" % stmt_text(s, 40))

    # -- builtins and the standard library ----------------------------------------------------------------------

    def call_ext(self, name, a, k):
        import math

        F = self.F

        def need(cond):
            if not cond:
                raise Unsupported("arguments of %s" % name)

        def seq():
            """the numbers of f(iterable) / f(a, b, ...)"""
            need(not k and a)
            xs = self.items(a[0]) if len(a) == 1 else a
            return xs

        if name in ("property", "functools.cached_property"):
            fget = a[0] if a else k.get("fget", k.get("func"))
            need(len(a) <= 4 and set(k) <= {"fget", "fset", "fdel", "doc", "func"})
            if isinstance(fget, _Opaque):
                raise Unsupported(fget.reason)
            return _Prop(fget)
        if name == "staticmethod":
            need(len(a) == 1 and not k)
            return _Static(a[0])
        if name == "classmethod":
            need(len(a) == 1 and not k)
            return _ClassM(a[0])
        if name in ("functools.cache", "functools.lru_cache"):
            # memoisation does not change the value of a function of immutable class parameters
            if len(a) == 1 and not k and isinstance(a[0], _Callable):
                return a[0]
            need(name == "functools.lru_cache" and len(a) <= 2 and set(k) <= {"maxsize", "typed"})
            return _Callable(lambda a2, k2: a2[0] if len(a2) == 1 and not k2 else self._bad(name), False, name)
        if name == "functools.partial":
            need(a)
            f0, a0, k0 = a[0], a[1:], k
            return _Callable(lambda a2, k2: self.call(f0, a0 + list(a2), {**k0, **k2}, None), False, "partial of %s" % self.show(f0))
        if name == "functools.reduce":
            need(not k and 2 <= len(a) <= 3)
            xs = self.items(a[1])
            if len(a) == 3:
                acc = a[2]
            else:
                need(xs)
                acc, xs = xs[0], xs[1:]
            for x in xs:
                self.tick()
                acc = self.call(a[0], [acc, x], {}, None)
            return acc
        if name.startswith("operator."):
            op = name.split(".", 1)[1]
            if op in _OPERATOR:
                need(len(a) == 2 and not k)
                return self.binop(_OPERATOR[op], a[0], a[1])
            if op == "neg":
                need(len(a) == 1 and not k)
                return -self.num(a[0])
            if op == "attrgetter":
                need(len(a) == 1 and not k and isinstance(a[0], str))
                path = a[0].split(".")

                def getter(a2, k2):
                    if len(a2) != 1 or k2:
                        raise Unsupported("arguments of attrgetter")
                    v = a2[0]
                    for p in path:
                        v = self.getattr_value(v, p)
                    return v

                return _Callable(getter, False, "attrgetter(%r)" % a[0])
            if op == "itemgetter":
                need(len(a) == 1 and not k)
                key = a[0]

                def item(a2, k2):
                    if len(a2) != 1 or k2:
                        raise Unsupported("arguments of itemgetter")
                    if isinstance(a2[0], dict):
                        h = self.hashable(key)
                        if h not in a2[0]:
                            raise Unsupported("key %s is not in the table" % self.show(key))
                        return a2[0][h]
                    xs = self.items(a2[0], "indexing")
                    i = self.intv(key, "index")
                    if not -len(xs) <= i < len(xs):
                        raise Unsupported("index %d out of range" % i)
                    return xs[i]

                return _Callable(item, False, "itemgetter")
        if name == "getattr":
            need(not k and 2 <= len(a) <= 3 and isinstance(a[1], str))
            try:
                return self.getattr_value(a[0], a[1])
            except _Missing:
                if len(a) == 3:
                    return a[2]
                raise
        if name == "hasattr":
            need(not k and len(a) == 2 and isinstance(a[1], str))
            try:
                self.getattr_value(a[0], a[1])
                return True
            except _Missing:
                return False
        if name == "type":
            need(not k and len(a) == 1)
            if isinstance(a[0], _Inst):
                return _ClsRef(a[0].qn)
            raise Unsupported("type() of %s" % self.show(a[0]))
        if name == "super":
            need(not k and len(a) == 2 and isinstance(a[0], _ClsRef) and isinstance(a[1], (_Inst, _ClsRef)))
            return _Super(a[1], a[0].qn)
        if name == "float":
            need(not k and len(a) <= 1)
            if not a:
                return F(0)
            if isinstance(a[0], str):
                try:
                    v = float(a[0])
                except ValueError:
                    raise Unsupported("float(%r)" % a[0])
                if v != v or v in (float("inf"), float("-inf")):
                    raise Unsupported("non-finite number")
                return F(v)
            return self.num(a[0])
        if name == "int":
            need(not k and len(a) <= 1)
            if not a:
                return F(0)
            if isinstance(a[0], str):
                try:
                    return F(int(a[0]))
                except ValueError:
                    raise Unsupported("int(%r)" % a[0])
            return F(int(self.num(a[0])))
        if name == "bool":
            need(not k and len(a) <= 1)
            return self.truthy(a[0]) if a else False
        if name in ("abs", "math.fabs"):
            need(not k and len(a) == 1)
            return abs(self.num(a[0]))
        if name == "round":
            need(not k and 1 <= len(a) <= 2)
            v = self.num(a[0])
            if len(a) == 1 or a[1] is None:
                return F(round(v))
            n = self.intv(a[1])
            if v.denominator == 1:
                return F(round(int(v), n))
            if F(float(v)) != v:
                raise Unsupported("round() of a value that is not a float")
            return F(round(float(v), n))
        if name in ("pow", "math.pow"):
            need(not k and len(a) == 2)
            return self.power(a[0], a[1])
        if name == "math.ldexp":
            need(not k and len(a) == 2)
            return self.num(a[0]) * self.power(F(2), F(self.intv(a[1])))
        if name == "math.exp2":
            need(not k and len(a) == 1)
            return self.power(F(2), a[0])
        if name in ("math.floor", "math.ceil", "math.trunc"):
            need(not k and len(a) == 1)
            return F(getattr(math, name.split(".")[1])(self.num(a[0])))
        if name in ("math.sqrt", "math.isqrt", "math.cbrt"):
            need(not k and len(a) == 1)
            if name == "math.isqrt":
                need(self.intv(a[0]) >= 0)
                return F(math.isqrt(self.intv(a[0])))
            return self.power(a[0], F(1, 2) if name == "math.sqrt" else F(1, 3))
        if name == "math.log2":
            need(not k and len(a) == 1)
            v = self.num(a[0])
            for x, sign in ((v, 1), (1 / v if v != 0 else v, -1)):
                if x >= 1 and x.denominator == 1 and int(x) & (int(x) - 1) == 0:
                    return F(sign * (int(x).bit_length() - 1))
            raise Unsupported("log2(%s) is not rational" % v)
        if name == "divmod":
            need(not k and len(a) == 2)
            return (self.binop(ast.FloorDiv(), a[0], a[1]), self.binop(ast.Mod(), a[0], a[1]))
        if name in ("sum", "math.fsum", "math.prod"):
            need(1 <= len(a) <= 2 and set(k) <= {"start"} and not (len(a) == 2 and k))
            start = a[1] if len(a) == 2 else k.get("start")
            need(start is None or name != "math.fsum")
            if name == "math.prod":
                acc = F(1) if start is None else start
                for x in self.items(a[0]):
                    acc = self.binop(ast.Mult(), acc, x)
                return acc
            acc = F(0) if start is None else start
            for x in self.items(a[0]):
                acc = self.binop(ast.Add(), acc, x)
            return acc
        if name in ("max", "min"):
            xs = seq()
            need(xs)
            vals = [self.num(x, "argument of %s" % name) for x in xs]
            return max(vals) if name == "max" else min(vals)
        if name == "len":
            need(not k and len(a) == 1 and isinstance(a[0], (tuple, dict, str, bytes)))
            return F(len(a[0]))
        if name == "range":
            need(not k and 1 <= len(a) <= 3)
            bounds = [self.intv(x, "argument of range") for x in a]
            need(len(bounds) < 3 or bounds[2] != 0)
            r = range(*bounds)
            if len(r) > self.MAX_ITEMS:
                raise Unsupported("range of %d elements" % len(r))
            return tuple(F(i) for i in r)
        if name in ("tuple", "list", "sorted", "reversed"):
            need(len(a) <= 1 and not k)
            xs = self.items(a[0]) if a else []
            if name == "sorted":
                xs = sorted(xs, key=lambda x: self.num(x, "sorted element"))
            elif name == "reversed":
                xs = xs[::-1]
            return tuple(xs)
        if name == "dict":
            need(len(a) <= 1)
            d = {}
            if a:
                if isinstance(a[0], dict):
                    d.update(a[0])
                else:
                    for it in self.items(a[0]):
                        kv = self.items(it, "dict item")
                        need(len(kv) == 2)
                        d[self.hashable(kv[0])] = kv[1]
            d.update(k)
            return d
        if name == "enumerate":
            need(1 <= len(a) <= 2 and set(k) <= {"start"} and not (len(a) == 2 and k))
            start = self.intv(a[1] if len(a) == 2 else k.get("start", F(0)))
            return tuple((F(start + i), x) for i, x in enumerate(self.items(a[0])))
        if name == "zip":
            need(not k)
            return tuple(tuple(t) for t in zip(*[self.items(x) for x in a]))
        if name == "map":
            need(not k and len(a) >= 2)
            return tuple(self.call(a[0], list(t), {}, None) for t in zip(*[self.items(x) for x in a[1:]]))
        if name == "fractions.Fraction":
            need(not k and 1 <= len(a) <= 2)
            if len(a) == 1 and isinstance(a[0], str):
                try:
                    return F(a[0])
                except (ValueError, ZeroDivisionError):
                    raise Unsupported("Fraction(%r)" % a[0])
            return self.binop(ast.Div(), a[0], a[1]) if len(a) == 2 else self.num(a[0])
        raise Unsupported("call of %s" % name)

    def _bad(self, name):
        raise Unsupported("arguments of %s" % name)
