"""Helpers of C04: an abstract interpreter for "what happens to ONE entry of a
dictionary field" (`self._recent_messages[(message.remote, message.mid)]`).

The rule clauses of C04 are of the form "when the identifier is unknown the
filter records None, arms the expiry and answers False; when it is known ..."
They are decided here by *running* the function symbolically for every initial
state of that one entry (absent / present without reply / present with a reply)
and every message type, instead of matching the shape of the `if` statements.
Every spelling of a dictionary access is interpreted by its meaning:

    read     d[k]   d.get(k)   d.get(k, default)   d.__getitem__(k)
             try: d[k] / except KeyError
    test     k in d   k not in d   k in d.keys()   d.__contains__(k)
             v is None / v is SENTINEL / v == ... / truthiness of a read value
    insert   d[k] = v   d.setdefault(k, v)   d.__setitem__(k, v)
    remove   d.pop(k)   d.pop(k, default)   del d[k]   d.__delitem__(k)

Locals (also walrus targets, aliases of the table / the key / the message) are
an environment of abstract values, so hoisted names, guard clauses vs. nested
ifs, De Morgan forms, `in (A, B)` vs `== A or == B` make no difference.  A
condition the interpreter cannot decide forks the run (both outcomes are
followed and have to satisfy the obligations), so an *additional* condition on
an effect is found as a path on which the effect is missing.

The body of a deferred callable (the expiry callback: lambda, nested def,
partial, method / classmethod / staticmethod of the class, with the table and
other arguments handed on through the timer) is run in "late" mode: values
computed when the timer was armed keep their meaning, but whatever the body
reads from the message *object* is read when it runs -- a key built there is
LATEKEY, not KEY.

WireFlow (end of the file) walks back from the transmission primitive to the
call sites a message comes from.

Nothing of the analysed repository is imported or executed.
"""

import ast
import copy

from ..model import AnalysisError, walk_no_nested, stmt_text
from ..pat import chain, call_name, dump
from ..rulekit import is_log_call, writes_to_name, params, stores_to_any
from ..paths import atom_key

ABSENT = ("absent",)
NONE = ("none",)
REPLY = ("reply",)  # the object stored under the key when the function is entered
KEY = ("key",)
# the identifier computed from the message object *when a deferred callable runs* (see EntrySim._call_def)
LATEKEY = ("latekey",)
TABLE = ("table",)
UNKNOWN = ("unknown",)

MTYPES = ("CON", "NON", "ACK", "RST")
_LATE = "__when_called"

_PURE_CALLS = {"len", "isinstance", "str", "repr", "bool", "id", "type", "int", "tuple", "hash", "getattr", "hasattr"}
_PARTIAL = {"functools.partial", "partial"}
_MAX_STATES = 4000


class SimRaise(Exception):
    def __init__(self, exc):
        Exception.__init__(self, exc)
        self.exc = exc


class State:
    __slots__ = ("entry", "env", "trace", "dec", "mtype")

    def __init__(self, entry, mtype, env=None, trace=None, dec=None):
        self.entry = entry
        self.mtype = mtype
        self.env = env if env is not None else {}
        self.trace = trace if trace is not None else []
        self.dec = dec if dec is not None else {}

    def fork(self):
        return State(self.entry, self.mtype, dict(self.env), list(self.trace), dict(self.dec))


class Result:
    """One complete run: how it ended and what it did."""

    def __init__(self, kind, payload, st, entry0):
        self.kind = kind  # "return" | "raise" | "fall"
        self.value = payload[0] if kind == "return" else None
        self.node = payload[1] if kind == "return" else None
        self.exc = payload if kind == "raise" else None
        self.trace = st.trace
        self.dec = st.dec
        self.entry0 = entry0
        self.entry = st.entry
        self.mtype = st.mtype

    def events(self, kind):
        return [ev for ev in self.trace if ev[0] == kind]

    def where(self):
        names = {ABSENT: "identifier unknown", NONE: "identifier known, no reply recorded", REPLY: "identifier known, reply recorded"}
        d = ["%s%s" % ("" if v else "not ", k) for k, v in sorted(self.dec.items())]
        return "%s, mtype %s%s" % (names.get(self.entry0, self.entry0), self.mtype, (", " + ", ".join(d)) if d else "")


def _kind(v):
    return v[0] if isinstance(v, tuple) and v else "unknown"


class EntrySim:
    """Symbolic execution of `fi` with respect to the entry `field[key]`.

    is_key(canonical expr) -> bool decides whether an expression denotes the key
    of the entry under observation.  `mparam` is the name of the message
    parameter (its `.mtype` is the finite-domain subject)."""

    def __init__(self, prog, fi, field_chain, mparam, key_parts=("remote", "mid"), opaque=()):
        self.prog = prog
        self.fi = fi
        self.fn = fi.node
        self.field = field_chain
        self.field_name = field_chain.split(".")[-1]
        self.mparam = mparam
        self.key_parts = key_parts
        self.opaque = set(opaque)  # methods of self that may touch the table and are judged elsewhere
        self.callback_methods = set()  # short names of methods found to be the expiry callback
        self.uninterpreted = []  # reasons why a callback could not be interpreted
        self._rebound = {}
        self.late = False  # True inside the body of a deferred callable (the expiry callback)
        self.message_truthy = self._message_truthy()
        self.message_identity_eq = self._message_identity_eq()

    # -- static facts ----------------------------------------------------------
    def _message_cls(self):
        try:
            return self.prog.cls("message.Message")
        except AnalysisError:
            return None

    def _message_truthy(self):
        """Message defines neither __bool__ nor __len__: every Message is truthy."""
        ci = self._message_cls()
        if ci is None:
            return None
        for name in ("__bool__", "__len__"):
            if self.prog.lookup_method(ci.qn, name) is not None:
                return None
        return True

    def _message_identity_eq(self):
        ci = self._message_cls()
        return ci is not None and self.prog.lookup_method(ci.qn, "__eq__") is None

    def _bound_once(self, fnode, name):
        k = (id(fnode), name)
        if k not in self._rebound:
            n = len(writes_to_name(fnode, name))
            a = fnode.args
            is_param = any(x.arg == name for x in a.posonlyargs + a.args + a.kwonlyargs) if not isinstance(fnode, ast.Lambda) else False
            self._rebound[k] = (n == 0) if is_param else (n <= 1)
        return self._rebound[k]

    def _sentinel(self, e):
        """A module constant / class attribute bound to `object()`: a value that is
        neither None nor any message."""
        if isinstance(e, ast.Name):
            m = self.fi.module
            vals = []
            for st in m.tree.body:
                tg = []
                if isinstance(st, ast.Assign):
                    tg = [(t, st.value) for t in st.targets]
                elif isinstance(st, ast.AnnAssign) and st.value is not None:
                    tg = [(st.target, st.value)]
                for t, v in tg:
                    if isinstance(t, ast.Name) and t.id == e.id:
                        vals.append(v)
            if len(vals) == 1 and isinstance(vals[0], ast.Call) and chain(vals[0].func) == "object" and not vals[0].args:
                return ("sentinel", e.id)
            return None
        if isinstance(e, ast.Attribute) and isinstance(e.value, ast.Name) and self.fi.cls is not None:
            if e.value.id in ("self", "cls", self.fi.cls.node.name):
                v, _ci = self.prog.class_attr(self.fi.cls.qn, e.attr)
                if isinstance(v, ast.Call) and chain(v.func) == "object" and not v.args:
                    return ("sentinel", e.attr)
        return None

    # -- canonical expressions -----------------------------------------------
    def canon(self, e, st):
        """Copy of e with locals replaced by what they stand for (pure expressions,
        the message parameter, the table, the key)."""
        sim = self

        class T(ast.NodeTransformer):
            def visit_Name(s, n):
                if isinstance(n.ctx, ast.Load) and n.id in st.env:
                    v = st.env[n.id]
                    k = _kind(v)
                    if k == "expr" and v[1] is not None:
                        return copy.deepcopy(v[1])
                    if k == "param":
                        return ast.Name(id=v[1], ctx=ast.Load())
                    if k == "lateparam":
                        return ast.Name(id=v[1] + _LATE, ctx=ast.Load())
                    if k == "table":
                        return ast.parse(sim.field, mode="eval").body
                    if k == "key":
                        return sim.key_ast()
                return n

            def visit_Lambda(s, n):
                return n

        return T().visit(copy.deepcopy(e))

    def key_ast(self):
        return ast.parse("(%s)" % ", ".join("%s.%s" % (self.mparam, p) for p in self.key_parts), mode="eval").body

    def _is_key_tuple(self, ce):
        return (
            isinstance(ce, ast.Tuple)
            and len(ce.elts) == len(self.key_parts)
            and all(chain(x) == "%s.%s" % (self.mparam, p) for x, p in zip(ce.elts, self.key_parts))
        )

    def _is_late_key_tuple(self, ce):
        """(message.remote, message.mid) with at least one component read from the message object inside a
        deferred callable: the identifier the message has when the callable runs, not the one it had when the
        callable was handed to the timer."""
        if not (isinstance(ce, ast.Tuple) and len(ce.elts) == len(self.key_parts)):
            return False
        late = 0
        for x, p in zip(ce.elts, self.key_parts):
            c = chain(x)
            if c == "%s%s.%s" % (self.mparam, _LATE, p):
                late += 1
            elif c != "%s.%s" % (self.mparam, p):
                return False
        return late > 0

    # -- values ----------------------------------------------------------------------
    def ev(self, e, st):
        if isinstance(e, ast.Constant):
            if e.value is None:
                return NONE
            if isinstance(e.value, bool):
                return ("bool", e.value)
            return ("const", e.value)
        if isinstance(e, ast.Name):
            if e.id in st.env:
                return st.env[e.id]
            if e.id == self.mparam:
                return ("param", e.id)
            if e.id in MTYPES:
                return ("sym", e.id)
            s = self._sentinel(e)
            if s is not None:
                return s
            return ("expr", e)
        if isinstance(e, ast.Attribute):
            ce = self.canon(e, st)
            c = chain(ce)
            if c == self.field:
                return TABLE
            if c == self.mparam + ".mtype":
                return ("sym", st.mtype)
            if c is not None:
                parts = c.split(".")
                if parts[-1] in MTYPES and parts[0] not in (self.mparam, "self"):
                    return ("sym", parts[-1])
            s = self._sentinel(e)
            if s is not None:
                return s
            return ("expr", ce)
        if isinstance(e, ast.Tuple):
            ce = self.canon(e, st)
            if self._is_key_tuple(ce):
                return KEY
            if self._is_late_key_tuple(ce):
                return LATEKEY
            return ("expr", ce)
        if isinstance(e, ast.Subscript):
            base = self.ev(e.value, st)
            if base == TABLE:
                return self._getitem(e.slice, e, st)
            return ("expr", self.canon(e, st))
        if isinstance(e, ast.NamedExpr):
            v = self.ev(e.value, st)
            st.env[e.target.id] = v
            return v
        if isinstance(e, ast.IfExp):
            t = self.truth(e.test, st)
            if t is None:
                a, b = self.ev(e.body, st), self.ev(e.orelse, st)
                return a if a == b and _kind(a) not in ("expr", "unknown") else UNKNOWN
            return self.ev(e.body if t else e.orelse, st)
        if isinstance(e, ast.BoolOp):
            val = UNKNOWN
            for v in e.values:
                val = self.ev(v, st)
                t = self.truthy(val)
                if t is None:
                    return UNKNOWN
                if isinstance(e.op, ast.And) and not t:
                    return val
                if isinstance(e.op, ast.Or) and t:
                    return val
            return val
        if isinstance(e, ast.Compare) or (isinstance(e, ast.UnaryOp) and isinstance(e.op, ast.Not)):
            t = self.truth(e, st)
            return UNKNOWN if t is None else ("bool", t)
        if isinstance(e, ast.Call):
            return self.ev_call(e, st)
        if isinstance(e, ast.Lambda):
            return ("lambda", e)
        for sub in ast.iter_child_nodes(e):  # walrus / reads nested in arithmetic, f-strings ...
            if isinstance(sub, ast.expr):
                self.ev(sub, st)
        return ("expr", self.canon(e, st))

    def _check_key(self, kexpr, node, st):
        k = self.ev(kexpr, st)
        if k == KEY:
            return True
        st.trace.append(("latekey" if k == LATEKEY else "foreignkey", node))
        return False

    def _getitem(self, kexpr, node, st):
        if not self._check_key(kexpr, node, st):
            return UNKNOWN
        if st.entry == ABSENT:
            raise SimRaise("KeyError")
        return st.entry

    def _insert(self, kexpr, value, node, st):
        if not self._check_key(kexpr, node, st):
            return
        st.trace.append(("insert", value, node))
        st.entry = value

    def _remove(self, kexpr, node, st, default=None):
        """-> popped value"""
        if not self._check_key(kexpr, node, st):
            return UNKNOWN
        st.trace.append(("remove", node, default is not None))
        if st.entry == ABSENT:
            if default is not None:
                return self.ev(default, st)
            raise SimRaise("KeyError")
        v = st.entry
        st.entry = ABSENT
        return v

    def eq(self, a, b):
        """Is a the same value as b?  True / False / None (unknown)."""
        ka, kb = _kind(a), _kind(b)
        soft = {"expr", "unknown", "table", "lambda", "func", "lateparam", "latekey"}
        if ka in soft or kb in soft:
            return None
        if ka == kb:
            if ka in ("none", "reply", "key"):
                return True
            if ka in ("sym", "sentinel", "bool"):
                return a[1] == b[1]
            if ka == "const":
                return a[1] == b[1] if type(a[1]) is type(b[1]) else None
            if ka == "param":
                return True if a[1] == b[1] else None
            return None
        pair = {ka, kb}
        if pair == {"reply", "param"}:
            return None  # two messages: could be one object
        if pair & {"const", "bool"}:
            if pair & {"sym"}:
                return None  # IntEnum members compare equal to ints
            if pair == {"const", "bool"}:
                return None
            if pair & {"reply", "param"}:
                return False if self.message_identity_eq else None
            return False  # None / a fresh object() / a tuple against a literal
        if pair & {"reply", "param"}:
            # a Message against None, a sentinel object, an enum member, a tuple
            return False if (self.message_identity_eq or pair & {"none"}) else None
        return False

    def truthy(self, v):
        k = _kind(v)
        if k == "none":
            return False
        if k == "bool":
            return v[1]
        if k == "const":
            return bool(v[1])
        if k in ("sentinel", "key"):
            return True
        if k in ("reply", "param"):
            return self.message_truthy
        return None

    def truth(self, e, st):
        """Three-valued truth of a boolean expression in state st (evaluates it:
        walrus targets are bound, reads of an absent entry raise)."""
        if isinstance(e, ast.UnaryOp) and isinstance(e.op, ast.Not):
            t = self.truth(e.operand, st)
            return None if t is None else (not t)
        if isinstance(e, ast.BoolOp):
            res = isinstance(e.op, ast.And)
            for v in e.values:
                t = self.truth(v, st)
                if t is None:
                    return None
                if isinstance(e.op, ast.And) and not t:
                    return False
                if isinstance(e.op, ast.Or) and t:
                    return True
            return res
        if isinstance(e, ast.Compare):
            left = e.left
            lv = None
            res = True
            for i, (op, right) in enumerate(zip(e.ops, e.comparators)):
                if lv is None:
                    lv = self.ev(left, st)
                t, rv = self._cmp(lv, op, right, e, st)
                if t is False:
                    return False
                if t is None:
                    res = None
                lv = rv
            return res
        return self.truthy(self.ev(e, st))

    def _cmp(self, lv, op, right, node, st):
        if isinstance(op, (ast.In, ast.NotIn)):
            r = right
            is_tab = False
            if isinstance(r, ast.Call) and isinstance(r.func, ast.Attribute) and r.func.attr == "keys" and not r.args:
                is_tab = self.ev(r.func.value, st) == TABLE
                rv = UNKNOWN
            elif isinstance(r, (ast.Tuple, ast.List, ast.Set)):
                vals = [self.ev(x, st) for x in r.elts]
                eqs = [self.eq(lv, v) for v in vals]
                if any(x is True for x in eqs):
                    res = True
                elif all(x is False for x in eqs):
                    res = False
                else:
                    return None, UNKNOWN
                return (res if isinstance(op, ast.In) else not res), UNKNOWN
            else:
                rv = self.ev(r, st)
                is_tab = rv == TABLE
            if is_tab:
                if lv != KEY:
                    st.trace.append(("latekey" if lv == LATEKEY else "foreignkey", node))
                    return None, rv
                res = st.entry != ABSENT
                return (res if isinstance(op, ast.In) else not res), rv
            return None, rv
        rv = self.ev(right, st)
        if isinstance(op, (ast.Is, ast.IsNot, ast.Eq, ast.NotEq)):
            q = self.eq(lv, rv)
            if q is None:
                return None, rv
            return (q if isinstance(op, (ast.Is, ast.Eq)) else not q), rv
        return None, rv

    # -- calls -----------------------------------------------------------------------
    def ev_call(self, c, st):
        if is_log_call(c):
            return UNKNOWN
        f = c.func
        if isinstance(f, ast.Attribute):
            base = self.ev(f.value, st)
            if base == TABLE:
                return self._table_method(f.attr, c, st)
            if f.attr in ("call_later", "call_at") and len(c.args) >= 2 and not any(isinstance(a, ast.Starred) for a in c.args):
                self._timer(c, st)
                return UNKNOWN
        name = call_name(c) or ""
        if name in _PARTIAL:
            return ("expr", self.canon(c, st))
        args = [self.ev(a.value if isinstance(a, ast.Starred) else a, st) for a in c.args]
        for kw in c.keywords:
            self.ev(kw.value, st)
        cf = chain(self.canon(f, st)) or ""
        root = cf.split(".")[0]
        if name in _PURE_CALLS:
            return ("expr", self.canon(c, st))
        if root == self.mparam:
            # a method of the message (message.code.is_request(), message.remote.is_multicast ...): a read
            return ("expr", self.canon(c, st))
        if root == "self" and not cf.startswith("self.loop.") and not cf.startswith("self.log."):
            if isinstance(f, ast.Attribute) and isinstance(f.value, ast.Name) and f.value.id == "self" and self.fi.cls is not None:
                callee = self.prog.lookup_method(self.fi.cls.qn, f.attr)
                if callee is not None and callee.node is not self.fn and f.attr not in self.opaque and stores_to_any(callee.node, self.field_name):
                    raise AnalysisError(
                        "%s: the table %s is manipulated through the helper %s, which the helper expansion left in place; "
                        "its effect on the entry cannot be interpreted" % (self.fi.short, self.field, cf)
                    )
            st.trace.append(("call", cf, args, c))
        return UNKNOWN

    def _table_method(self, attr, c, st):
        a = c.args
        if any(isinstance(x, ast.Starred) for x in a) or c.keywords:
            if attr in ("keys", "values", "items", "copy"):
                return UNKNOWN
            st.trace.append(("tableop", attr, c))
            return UNKNOWN
        if attr == "get" and 1 <= len(a) <= 2:
            if not self._check_key(a[0], c, st):
                return UNKNOWN
            if st.entry == ABSENT:
                return self.ev(a[1], st) if len(a) == 2 else NONE
            return st.entry
        if attr == "__getitem__" and len(a) == 1:
            return self._getitem(a[0], c, st)
        if attr == "__contains__" and len(a) == 1:
            if not self._check_key(a[0], c, st):
                return UNKNOWN
            return ("bool", st.entry != ABSENT)
        if attr == "pop" and 1 <= len(a) <= 2:
            return self._remove(a[0], c, st, default=a[1] if len(a) == 2 else None)
        if attr == "__delitem__" and len(a) == 1:
            self._remove(a[0], c, st)
            return NONE
        if attr == "__setitem__" and len(a) == 2:
            self._insert(a[0], self.ev(a[1], st), c, st)
            return NONE
        if attr == "setdefault" and 1 <= len(a) <= 2:
            if not self._check_key(a[0], c, st):
                return UNKNOWN
            if st.entry == ABSENT:
                v = self.ev(a[1], st) if len(a) == 2 else NONE
                st.trace.append(("insert", v, c))
                st.entry = v
            return st.entry
        if attr in ("keys", "values", "items", "copy", "__len__"):
            return UNKNOWN
        if attr == "update" and len(a) == 1 and isinstance(a[0], ast.Dict) and a[0].keys and all(k is not None for k in a[0].keys):
            for k, v in zip(a[0].keys, a[0].values):
                self._insert(k, self.ev(v, st), c, st)
            return NONE
        st.trace.append(("tableop", attr, c))
        return UNKNOWN

    # -- the expiry timer --------------------------------------------------------------
    def _timer(self, c, st):
        delay = self.canon(c.args[0], st)
        for sub in ast.walk(c.args[0]):
            if isinstance(sub, ast.NamedExpr):
                self.ev(c.args[0], st)
                break
        extra = [self.ev(a, st) for a in c.args[2:]]
        removal = self.callback(c.args[1], extra, st)
        st.trace.append(("timer", c, c.func.attr, delay, removal))

    def callback(self, cb, extra, st, depth=0):
        """What does calling `cb(*extra)` later do to the table?  -> list of events
        (the trace of the callable's body) or None when it cannot be interpreted.
        Callables are treated uniformly: bound method of the table, functools.partial,
        lambda (with default-argument binding or closure), nested def, method of self."""
        if depth > 4:
            return None
        if isinstance(cb, ast.Name) and cb.id in st.env:
            v = st.env[cb.id]
            if not self._bound_once(self.fn, cb.id):
                self.uninterpreted.append("callback name %s is bound more than once" % cb.id)
                return None
            if _kind(v) in ("func", "lambda"):
                return self._call_def(v[1], dict(st.env), extra, st, closure=True)
            if _kind(v) == "expr" and v[1] is not None and not isinstance(v[1], ast.Name):
                return self.callback(v[1], extra, st, depth + 1)
            return None
        if isinstance(cb, ast.Call) and (call_name(cb) or "") in _PARTIAL and cb.args and not cb.keywords:
            if any(isinstance(a, ast.Starred) for a in cb.args):
                return None
            pre = [self.ev(a, st) for a in cb.args[1:]]
            return self.callback(cb.args[0], pre + list(extra), st, depth + 1)
        if isinstance(cb, ast.Lambda):
            return self._call_def(cb, dict(st.env), extra, st, closure=True)
        if isinstance(cb, ast.Attribute):
            base = self.ev(cb.value, st)
            if base == TABLE:
                if (cb.attr == "pop" and 1 <= len(extra) <= 2) or (cb.attr == "__delitem__" and len(extra) == 1):
                    if extra[0] == KEY:
                        return [("remove", cb, len(extra) == 2)]
                    return [("foreignkey", cb)]
                return [("tableop", cb.attr, cb)]
            recv = self._receiver(cb.value)
            if recv is not None and self.fi.cls is not None:
                callee = self.prog.lookup_method(self.fi.cls.qn, cb.attr)
                if callee is None or isinstance(callee.node, ast.AsyncFunctionDef):
                    return None
                decos = {(chain(d) or "").split(".")[-1] for d in callee.node.decorator_list}
                if decos - {"staticmethod", "classmethod"}:
                    self.uninterpreted.append("the callback %s is decorated" % cb.attr)
                    return None
                # what the first parameter is bound to: nothing (static), the class, the instance
                if "staticmethod" in decos:
                    implicit = []
                elif "classmethod" in decos:
                    implicit = [("expr", ast.Name(id="type(self)", ctx=ast.Load()))]
                elif recv == "self":
                    implicit = [("expr", ast.Name(id="self", ctx=ast.Load()))]
                else:
                    implicit = []  # Class.method handed on unbound: the instance is among the arguments
                r = self._call_def(callee.node, {}, implicit + list(extra), st, closure=False)
                if r is not None:
                    self.callback_methods.add(callee.short)
                return r
        return None

    def _receiver(self, e):
        """"self" / "class" when e denotes the instance / its class (self, cls, type(self), self.__class__, the
        class by name), else None."""
        if isinstance(e, ast.Name):
            if e.id == "self":
                return "self"
            if e.id == "cls" or (self.fi.cls is not None and e.id == self.fi.cls.node.name):
                return "class"
            return None
        if isinstance(e, ast.Attribute) and e.attr == "__class__" and isinstance(e.value, ast.Name) and e.value.id == "self":
            return "class"
        if isinstance(e, ast.Call) and chain(e.func) == "type" and len(e.args) == 1 and not e.keywords \
                and isinstance(e.args[0], ast.Name) and e.args[0].id == "self":
            return "class"
        return None

    def _call_def(self, node, closure_env, args, st, closure):
        """Run the body of a lambda / def with positional `args` (abstract values)."""
        a = node.args
        if a.vararg or a.kwarg or a.kwonlyargs:
            return None
        names = [x.arg for x in a.posonlyargs + a.args]
        if len(args) > len(names):
            return None
        env = {}

        def later(v):
            # A *value* computed when the callable was handed to the timer (a key tuple, message.mid) stays what it
            # was.  A reference to the message *object* does not pin its fields: Message is mutable (mid and remote
            # are assigned in place elsewhere in the package), so whatever the body reads from it is read when the
            # callable runs.
            return ("lateparam", v[1]) if _kind(v) == "param" else v

        if closure:
            # free variables are read when the callback fires: only names that are never re-bound
            # have the value they had when the timer was armed
            free = {n.id for n in ast.walk(node) if isinstance(n, ast.Name)}
            for k, v in closure_env.items():
                if k in free and k not in names:
                    if not self._bound_once(self.fn, k):
                        self.uninterpreted.append("the callback reads %s, which is bound more than once" % k)
                        return None
                    env[k] = later(v)
            if self.mparam not in names and self.mparam not in env and not self.late:
                env[self.mparam] = ("lateparam", self.mparam)
        defaults = a.defaults
        first_default = len(names) - len(defaults)
        for i, n in enumerate(names):
            if i < len(args):
                env[n] = later(args[i])
            elif i >= first_default:
                dst = State(st.entry, st.mtype, dict(closure_env) if closure else {})
                env[n] = later(self.ev(defaults[i - first_default], dst))
            else:
                return None
        sub = State(REPLY, st.mtype, env)
        body = node.body if not isinstance(node, ast.Lambda) else [ast.Expr(value=node.body)]
        inner = EntrySim.__new__(EntrySim)
        inner.__dict__.update(self.__dict__)
        inner.fn = node
        inner.mparam = self.mparam
        inner.late = True
        try:
            outs = inner.exec_block(body, sub)
        except (SimRaise, AnalysisError):
            return None
        if len(outs) != 1 or outs[0][0] == "raise" or outs[0][2].dec:
            self.uninterpreted.append("the callback is not a straight-line removal")
            return None
        return outs[0][2].trace

    # -- statements ----------------------------------------------------------------------
    def cond(self, e, st):
        """[(outcome, state)]: outcomes of a branch condition, forking on undecidable atoms.
        outcome is True / False / a SimRaise (evaluating the condition raised on that fork)."""
        if isinstance(e, ast.BoolOp):
            is_and = isinstance(e.op, ast.And)
            pending = [st]
            done = []
            for v in e.values:
                nxt = []
                for s in pending:
                    for b, s2 in self.cond(v, s):
                        if isinstance(b, SimRaise) or b == (not is_and):  # And stops at False, Or at True
                            done.append((b, s2))
                        else:
                            nxt.append(s2)
                pending = nxt
            done.extend((is_and, s) for s in pending)
            return done
        if isinstance(e, ast.UnaryOp) and isinstance(e.op, ast.Not):
            return [(b if isinstance(b, SimRaise) else (not b), s) for b, s in self.cond(e.operand, st)]
        try:
            t = self.truth(e, st)
        except SimRaise as r:
            return [(r, st)]
        if t is not None:
            return [(t, st)]
        k, pol = atom_key(self.canon(e, st))
        if k in st.dec:
            return [(st.dec[k] == pol, st)]
        out = []
        for b in (True, False):
            s = st.fork()
            s.dec[k] = b == pol
            out.append((b, s))
        return out

    def exec_block(self, stmts, st):
        states = [st]
        out = []
        for s in stmts:
            nxt = []
            for x in states:
                for kind, payload, y in self.exec_stmt(s, x):
                    if kind == "next":
                        nxt.append(y)
                    else:
                        out.append((kind, payload, y))
            states = nxt
            if len(states) + len(out) > _MAX_STATES:
                raise AnalysisError("%s: more than %d symbolic states" % (self.fi.short, _MAX_STATES))
            if not states:
                break
        out.extend(("next", None, y) for y in states)
        return out

    def _assign(self, target, value, node, st):
        if isinstance(target, ast.Name):
            st.env[target.id] = value
        elif isinstance(target, ast.Subscript):
            base = self.ev(target.value, st)
            if base == TABLE:
                self._insert(target.slice, value, node, st)
            else:
                st.trace.append(("store", node))
        elif isinstance(target, ast.Attribute):
            st.trace.append(("store", node))
        elif isinstance(target, (ast.Tuple, ast.List)):
            for x in target.elts:
                self._assign(x.value if isinstance(x, ast.Starred) else x, UNKNOWN, node, st)

    def exec_stmt(self, s, st):
        try:
            return self._exec_stmt(s, st)
        except SimRaise as r:
            return [("raise", r.exc, st)]

    def _exec_stmt(self, s, st):
        if isinstance(s, ast.Expr):
            if not isinstance(s.value, ast.Constant):
                self.ev(s.value, st)
            return [("next", None, st)]
        if isinstance(s, ast.Assign):
            v = self.ev(s.value, st)
            for t in s.targets:
                if isinstance(t, (ast.Tuple, ast.List)) and isinstance(s.value, (ast.Tuple, ast.List)) and len(t.elts) == len(s.value.elts) \
                        and not any(isinstance(x, ast.Starred) for x in t.elts + s.value.elts):
                    vals = [self.ev(x, st) for x in s.value.elts]  # a, b = x, y: element by element
                    for x, xv in zip(t.elts, vals):
                        self._assign(x, xv, s, st)
                else:
                    self._assign(t, v, s, st)
            return [("next", None, st)]
        if isinstance(s, ast.AnnAssign):
            if s.value is not None:
                self._assign(s.target, self.ev(s.value, st), s, st)
            return [("next", None, st)]
        if isinstance(s, ast.AugAssign):
            self.ev(s.value, st)
            self._assign(s.target, UNKNOWN, s, st)
            return [("next", None, st)]
        if isinstance(s, ast.Delete):
            for t in s.targets:
                if isinstance(t, ast.Subscript) and self.ev(t.value, st) == TABLE:
                    self._remove(t.slice, s, st)
                elif isinstance(t, ast.Name):
                    st.env.pop(t.id, None)
                else:
                    st.trace.append(("store", s))
            return [("next", None, st)]
        if isinstance(s, ast.If):
            out = []
            for b, s2 in self.cond(s.test, st):
                if isinstance(b, SimRaise):
                    out.append(("raise", b.exc, s2))
                else:
                    out.extend(self.exec_block(s.body if b else s.orelse, s2))
            return out
        if isinstance(s, ast.Return):
            v = self.ev(s.value, st) if s.value is not None else NONE
            return [("return", (v, s), st)]
        if isinstance(s, ast.Raise):
            name = "Exception"
            if s.exc is not None:
                x = s.exc.func if isinstance(s.exc, ast.Call) else s.exc
                name = (chain(x) or "Exception").split(".")[-1]
            return [("raise", name, st)]
        if isinstance(s, (ast.Pass, ast.Global, ast.Nonlocal, ast.Import, ast.ImportFrom, ast.Assert)):
            return [("next", None, st)]
        if isinstance(s, ast.FunctionDef):
            st.env[s.name] = ("func", s)
            return [("next", None, st)]
        if isinstance(s, ast.Try):
            return self._try(s, st)
        raise AnalysisError(
            "%s: statement `%s` is outside the vocabulary of the entry interpreter (loops, with, match, async)"
            % (self.fi.short, stmt_text(s, 60))
        )

    def _catches(self, handler, exc):
        if handler.type is None:
            return True
        types = handler.type.elts if isinstance(handler.type, ast.Tuple) else [handler.type]
        names = {(chain(t) or "").split(".")[-1] for t in types}
        from ..model import BUILTIN_EXC

        cur = exc
        while cur is not None:
            if cur in names:
                return True
            cur = BUILTIN_EXC.get(cur)
        return False

    def _try(self, s, st):
        out = []
        for kind, payload, y in self.exec_block(s.body, st):
            if kind == "next" and s.orelse:
                out.extend(self.exec_block(s.orelse, y))
            elif kind == "raise":
                for h in s.handlers:
                    if self._catches(h, payload):
                        if h.name:
                            y.env[h.name] = UNKNOWN
                        out.extend(self.exec_block(h.body, y))
                        break
                else:
                    out.append((kind, payload, y))
            else:
                out.append((kind, payload, y))
        if not s.finalbody:
            return out
        res = []
        for kind, payload, y in out:
            for k2, p2, z in self.exec_block(s.finalbody, y):
                res.append((kind, payload, z) if k2 == "next" else (k2, p2, z))
        return res

    # -- driver --------------------------------------------------------------------------
    def run(self, entry, mtype):
        st = State(entry, mtype)
        body = self.fn.body
        res = []
        for kind, payload, y in self.exec_block(body, st):
            if kind == "next":
                res.append(Result("fall", None, y, entry))
            else:
                res.append(Result(kind, payload, y, entry))
        return res

    def run_all(self, entries=(ABSENT, NONE, REPLY), mtypes=MTYPES):
        out = []
        for e in entries:
            for m in mtypes:
                out.extend(self.run(e, m))
        return out


# ---------------------------------------------------------------------------
# every reference to the table in a function, classified


def table_uses(fn, field_chain, resolve):
    """-> (keyed, other, handed): keyed = [(node, key expr, kind)] for every access that addresses
    one entry (kind in lookup / insert / remove), other = [node] for references that
    are neither keyed accesses nor harmless (log arguments, len()), handed = [call] where the
    table itself is an argument of a deferred callable (`call_later(t, f, table, ...)`,
    `partial(f, table, ...)`): what f does with it is for the interpreter of the callable to say.
    `resolve(expr)` follows single-assignment locals (aliases of the table)."""

    def is_tab(e):
        return chain(resolve(e)) == field_chain

    parent = {}
    for p in ast.walk(fn):
        for ch in ast.iter_child_nodes(p):
            parent[id(ch)] = p
    keyed = []
    other = []
    handed = []
    for n in ast.walk(fn):
        if not (isinstance(n, (ast.Attribute, ast.Name)) and isinstance(getattr(n, "ctx", None), ast.Load) and is_tab(n)):
            continue
        if isinstance(n, ast.Attribute) and chain(n) != field_chain:
            continue
        p = parent.get(id(n))
        if isinstance(n, ast.Name):
            # the alias definition itself is `x = self.f`: the Name occurrences are uses
            pass
        if isinstance(p, ast.Assign) and p.value is n and all(isinstance(t, ast.Name) for t in p.targets):
            continue  # alias definition
        if isinstance(p, ast.Subscript) and p.value is n:
            kind = "insert" if isinstance(p.ctx, ast.Store) else ("remove" if isinstance(p.ctx, ast.Del) else "lookup")
            keyed.append((p, p.slice, kind))
            continue
        if isinstance(p, ast.Compare) and len(p.ops) == 1 and isinstance(p.ops[0], (ast.In, ast.NotIn)) and p.comparators[0] is n:
            keyed.append((p, p.left, "lookup"))
            continue
        if isinstance(p, ast.Attribute) and p.value is n:
            gp = parent.get(id(p))
            meth = p.attr
            kinds = {"get": "lookup", "__getitem__": "lookup", "__contains__": "lookup", "pop": "remove", "__delitem__": "remove",
                     "setdefault": "insert", "__setitem__": "insert"}
            if isinstance(gp, ast.Call) and gp.func is p:
                if meth in kinds and gp.args and not isinstance(gp.args[0], ast.Starred):
                    keyed.append((gp, gp.args[0], kinds[meth]))
                    continue
                if meth == "update" and len(gp.args) == 1 and not gp.keywords and isinstance(gp.args[0], ast.Dict) and gp.args[0].keys and all(k is not None for k in gp.args[0].keys):
                    for k in gp.args[0].keys:
                        keyed.append((gp, k, "insert"))
                    continue
                if meth == "keys" and not gp.args:
                    ggp = parent.get(id(gp))
                    if isinstance(ggp, ast.Compare) and len(ggp.ops) == 1 and isinstance(ggp.ops[0], (ast.In, ast.NotIn)) and ggp.comparators[0] is gp:
                        keyed.append((ggp, ggp.left, "lookup"))
                        continue
                other.append(gp)
                continue
            if isinstance(gp, ast.Call) and meth in ("pop", "__delitem__") and p in gp.args:
                # the method value handed on with its key: functools.partial(d.pop, k), call_later(t, d.pop, k)
                i = gp.args.index(p)
                if i + 1 < len(gp.args) and not isinstance(gp.args[i + 1], ast.Starred):
                    keyed.append((gp, gp.args[i + 1], "remove"))
                    continue
            other.append(gp if gp is not None else p)
            continue
        if isinstance(p, ast.Call) and not p.keywords and any(x is n for x in p.args) and not any(isinstance(x, ast.Starred) for x in p.args):
            i = [k for k, x in enumerate(p.args) if x is n][0]
            timer = isinstance(p.func, ast.Attribute) and p.func.attr in ("call_later", "call_at") and i >= 2
            if timer or ((call_name(p) or "") in _PARTIAL and i >= 1):
                handed.append(p)
                continue
        # harmless: len(table) / the table as argument of a log call
        q = p
        harmless = False
        while q is not None and not isinstance(q, ast.stmt):
            if isinstance(q, ast.Call) and (is_log_call(q) or chain(q.func) == "len"):
                harmless = True
                break
            q = parent.get(id(q))
        if not harmless:
            other.append(p if p is not None else n)
    return keyed, other, handed


# ---------------------------------------------------------------------------
# value-level branches as statement-level branches


def _impure_call(e):
    for n in ast.walk(e):
        if isinstance(n, ast.Call) and not is_log_call(n):
            if isinstance(n.func, ast.Attribute) and n.func.attr.startswith("is_") and not n.args and not n.keywords:
                continue
            if (chain(n.func) or "") in _PURE_CALLS:
                continue
            return True
    return False


def branch_normal_form(fi):
    """FuncInfo over a *copy* of fi.node in which a conditional expression / short-circuit operator that decides
    whether a call is evaluated at all is a statement-level branch:

        x = f() if c else d      ->  if c: x = f()  else: x = d
        x = c and f()            ->  if c: x = f()  else: x = False
        x = c or f()             ->  if c: x = True else: x = f()
        if (f() if c else d): .. ->  if (c and f()) or (not c and d): ..

    (same for `return` and expression statements).  The control-flow graph and the path model then see the
    condition under which the call happens, exactly as for the nested-if spelling.  In the `and`/`or` rows the
    value bound on the short-circuit side is replaced by the boolean it is equivalent to *as a condition*; the
    result is used for path reasoning only (which calls happen under which decisions), never for values."""
    from ..model import FuncInfo

    node = copy.deepcopy(fi.node)

    def with_value(st, v):
        new = copy.copy(st)
        new.value = v
        return ast.copy_location(new, st)

    def split(st):
        v = getattr(st, "value", None)
        if not isinstance(st, (ast.Assign, ast.AnnAssign, ast.Return, ast.Expr)) or v is None or not _impure_call(v):
            return [st]
        if isinstance(v, ast.IfExp):
            new = ast.If(test=v.test, body=split(with_value(st, v.body)), orelse=split(with_value(st, v.orelse)))
            return [ast.copy_location(new, st)]
        if isinstance(v, ast.BoolOp) and len(v.values) >= 2:
            first, rest = v.values[0], v.values[1:]
            restv = rest[0] if len(rest) == 1 else ast.copy_location(ast.BoolOp(op=v.op, values=rest), v)
            if isinstance(v.op, ast.And):
                new = ast.If(test=first, body=split(with_value(st, restv)), orelse=[with_value(st, ast.copy_location(ast.Constant(value=False), v))])
            else:
                new = ast.If(test=first, body=[with_value(st, ast.copy_location(ast.Constant(value=True), v))], orelse=split(with_value(st, restv)))
            return [ast.copy_location(new, st)]
        return [st]

    def lower_test(t):
        if isinstance(t, ast.IfExp) and _impure_call(t):
            c = t.test
            a = ast.BoolOp(op=ast.And(), values=[c, lower_test(t.body)])
            b = ast.BoolOp(op=ast.And(), values=[ast.UnaryOp(op=ast.Not(), operand=copy.deepcopy(c)), lower_test(t.orelse)])
            return ast.copy_location(ast.BoolOp(op=ast.Or(), values=[ast.copy_location(a, t), ast.copy_location(b, t)]), t)
        if isinstance(t, ast.BoolOp):
            t.values = [lower_test(x) for x in t.values]
        elif isinstance(t, ast.UnaryOp) and isinstance(t.op, ast.Not):
            t.operand = lower_test(t.operand)
        return t

    def block(stmts):
        out = []
        for st in stmts:
            if isinstance(st, (ast.FunctionDef, ast.AsyncFunctionDef, ast.ClassDef)):
                out.append(st)
                continue
            if isinstance(st, (ast.If, ast.While)):
                st.test = lower_test(st.test)
            for field in ("body", "orelse", "finalbody"):
                lst = getattr(st, field, None)
                if isinstance(lst, list) and lst and isinstance(lst[0], ast.stmt):
                    setattr(st, field, block(lst))
            for h in getattr(st, "handlers", []) or []:
                h.body = block(h.body)
            out.extend(split(st))
        return out

    node.body = block(node.body)
    ast.fix_missing_locations(node)
    return FuncInfo(fi.qn, node, fi.module, fi.cls, fi.parent)


# ---------------------------------------------------------------------------
# who writes <anything>.<field>: alias-aware, nested scopes included


_MUTATORS = {"pop", "update", "setdefault", "clear", "popitem", "__setitem__", "__delitem__", "__ior__"}


def table_writes(fnode, field):
    """[(kind, node)] for every construct inside fnode (nested defs and lambdas included) that modifies the
    dictionary held in attribute `field` of any receiver, or re-binds that attribute; also through a local
    alias (`t = x.field; t[k] = v`, `t.pop(k)`) and through a method value handed on (`partial(x.field.pop, k)`)."""
    aliases = set()
    for n in ast.walk(fnode):
        tv = []
        if isinstance(n, ast.Assign):
            tv = [(t, n.value) for t in n.targets]
        elif isinstance(n, ast.NamedExpr):
            tv = [(n.target, n.value)]
        for t, v in tv:
            if isinstance(t, ast.Name) and isinstance(v, ast.Attribute) and v.attr == field:
                aliases.add(t.id)

    def is_tab(e):
        return (isinstance(e, ast.Attribute) and e.attr == field) or (isinstance(e, ast.Name) and e.id in aliases)

    out = []
    called = set()
    for n in ast.walk(fnode):
        if isinstance(n, ast.Attribute) and n.attr == field and isinstance(n.ctx, (ast.Store, ast.Del)):
            out.append(("assign" if isinstance(n.ctx, ast.Store) else "del", n))
        elif isinstance(n, ast.Subscript) and isinstance(n.ctx, (ast.Store, ast.Del)):
            base = n
            while isinstance(base, ast.Subscript):
                base = base.value
            if is_tab(base):
                out.append(("setitem" if isinstance(n.ctx, ast.Store) else "delitem", n))
        elif isinstance(n, ast.Call) and isinstance(n.func, ast.Attribute) and n.func.attr in _MUTATORS and is_tab(n.func.value):
            out.append((n.func.attr, n))
            called.add(id(n.func))
        elif isinstance(n, ast.AugAssign) and is_tab(n.target):
            out.append(("augassign", n))
    for n in ast.walk(fnode):
        if isinstance(n, ast.Attribute) and n.attr in _MUTATORS and id(n) not in called and isinstance(n.ctx, ast.Load) and is_tab(n.value):
            out.append(("ref:" + n.attr, n))
    return out


# ---------------------------------------------------------------------------
# which messages reach the wire without passing the recording sender?


_SCHEDULERS = {"call_later": 1, "call_at": 1, "call_soon": 0, "call_soon_threadsafe": 0}


class WireFlow:
    """Backward flow from the wire primitive (`<x>.message_interface.send(m)`) to the places where the message
    `m` comes from.

    A function that hands one of its own *parameters* to the wire (or to a function that does) is a conduit: the
    question "which message is this?" is passed on to every reference to that function in the package, with the
    corresponding argument (positional, keyword, default-argument binding of a nested def / lambda, arguments
    given to call_later / call_soon / functools.partial together with the method value).  The walk ends

      * in the recording sender (`arrivals`: the site, whether the chain from there to the wire is synchronous or
        goes through a deferred callable, and the argument expression),
      * at a message that is provably not an acknowledgement (`findings`, ok),
      * or at a message nothing is known about / that is an ACK (`findings`, not ok).

    Nothing is matched by name except the wire primitive itself and the functions the walk reaches."""

    def __init__(self, prog, recorder_sender, resolve, binding, judged_elsewhere=(), wire_attr="message_interface", wire_method="send"):
        self.prog = prog
        self.rs = recorder_sender
        self.resolve = resolve  # (fnode, expr) -> expr through single-assignment locals
        self.binding = binding  # (fi, use, name) -> ("default", expr) | ("param", None) | None
        self.skip = set(judged_elsewhere)  # qualified names of functions whose sends another clause decides
        self.wire_attr = wire_attr
        self.wire_method = wire_method
        self.tops = [f for f in prog.funcs.values() if f.parent is None]
        self._parents = {}
        self.findings = []  # (fi, node, ok, detail)
        self.arrivals = []  # (node, deferred, arg expr)
        self.visited = set()
        self.notes = []

    # -- structure -------------------------------------------------------------------
    def parents(self, f):
        m = self._parents.get(f.qn)
        if m is None:
            m = {}
            for p in ast.walk(f.node):
                for ch in ast.iter_child_nodes(p):
                    m[id(ch)] = p
            self._parents[f.qn] = m
        return m

    def nested_in(self, f, node):
        """Is node inside a nested def / lambda of the top-level function f?"""
        par = self.parents(f)
        q = par.get(id(node))
        while q is not None and q is not f.node:
            if isinstance(q, (ast.Lambda, ast.FunctionDef, ast.AsyncFunctionDef)):
                return True
            q = par.get(id(q))
        return False

    def wire_refs(self):
        """[(f, Attribute node)]: every reference to <...>.message_interface.send in the package"""
        out = []
        for f in self.tops:
            for n in ast.walk(f.node):
                if isinstance(n, ast.Attribute) and n.attr == self.wire_method and isinstance(n.ctx, ast.Load):
                    r = n.value
                    if isinstance(r, ast.Name):
                        r = self.resolve(f.node, r)
                    c = chain(r) or ""
                    if c == self.wire_attr or c.endswith("." + self.wire_attr):
                        out.append((f, n))
        return out

    def refs_to(self, g):
        """[(f, node)]: references to function g by name in the package (methods: any `<x>.name`, except `self.name`
        inside a class that is unrelated to g's)"""
        out = []
        for f in self.tops:
            for n in ast.walk(f.node):
                if isinstance(n, ast.Attribute) and n.attr == g.name and isinstance(n.ctx, ast.Load):
                    if g.cls is None:
                        continue
                    if isinstance(n.value, ast.Name) and n.value.id in ("self", "cls") and f.cls is not None:
                        if not (self.prog.is_subclass(f.cls.qn, g.cls.qn) or self.prog.is_subclass(g.cls.qn, f.cls.qn)):
                            continue
                    out.append((f, n))
                elif isinstance(n, ast.Name) and n.id == g.name and isinstance(n.ctx, ast.Load) and g.cls is None and f.module is g.module:
                    out.append((f, n))
        return out

    def uses(self, f, ref, bound):
        """How is the callable denoted by `ref` (inside f) used?  -> [(pin node, argument lookup, deferred)] or None.
        `bound`: ref is a bound method / plain function (its positional arguments are the parameters after self)."""
        par = self.parents(f)
        p = par.get(id(ref))
        nested = self.nested_in(f, ref)

        def lookup(pos, kws):
            def get(i, name):
                if any(isinstance(a, ast.Starred) for a in pos[: i + 1]):
                    return None
                if i < len(pos):
                    return pos[i]
                for kw in kws:
                    if kw.arg == name:
                        return kw.value
                return None
            return get

        if isinstance(p, ast.Call) and p.func is ref:
            return [(p, lookup(p.args, p.keywords), nested)]
        if isinstance(p, ast.Call) and any(a is ref for a in p.args) and not p.keywords:
            i = [k for k, a in enumerate(p.args) if a is ref][0]
            name = call_name(p) or ""
            if isinstance(p.func, ast.Attribute) and _SCHEDULERS.get(p.func.attr) == i:
                return [(p, lookup(p.args[i + 1:], []), True)]
            if name in _PARTIAL and i == 0:
                # the arguments given here are the leading ones; whoever calls the partial object does so later
                return [(p, lookup(p.args[1:], []), True)]
            return None
        if isinstance(p, ast.Assign) and p.value is ref and len(p.targets) == 1 and isinstance(p.targets[0], ast.Name):
            # a local that names the callable: its uses are the uses
            t = p.targets[0].id
            scope = f.node
            if len(writes_to_name(scope, t)) != 1:
                return None
            out = []
            for n in ast.walk(scope):
                if isinstance(n, ast.Name) and n.id == t and isinstance(n.ctx, ast.Load):
                    u = self.uses(f, n, bound)
                    if u is None:
                        return None
                    out.extend(u)
            return out
        return None

    # -- what is known about the type of a message --------------------------------------
    def _ctor_type(self, e):
        """Message(..., _mtype=X) -> (True, "X" | None); not a Message construction -> (False, None)"""
        if not (isinstance(e, ast.Call) and (call_name(e) or "").split(".")[-1] == "Message"):
            return False, None
        for kw in e.keywords:
            if kw.arg in ("_mtype", "mtype"):
                c = chain(kw.value)
                return True, (c.split(".")[-1] if c else "?")
            if kw.arg is None:
                return True, "?"
        return True, None

    def not_an_ack(self, f, site, arg):
        """Is the message denoted by `arg` at `site` provably of a type other than ACK?  (Only an ACK can be `the
        acknowledgement already sent` for a request: CON / NON messages carry message IDs of our own, a RST answers
        what was not accepted as a request.)  Decided from the construction of the message in f (constructor keyword
        and attribute assignment are the same fact) or from the conditions on `<arg>.mtype` that dominate the site."""
        from ..cfg import cfg_of
        from ..rulekit import mtype_values

        nonack = {"CON", "NON", "RST"}
        is_ctor, t = self._ctor_type(arg)
        if is_ctor:
            return t in nonack
        if not isinstance(arg, ast.Name):
            return False
        x = arg.id
        stores = []
        for n in ast.walk(f.node):
            if isinstance(n, ast.Assign):
                for tg in n.targets:
                    if isinstance(tg, ast.Attribute) and tg.attr in ("mtype", "_mtype") and isinstance(tg.value, ast.Name) and tg.value.id == x:
                        c = chain(n.value)
                        stores.append(c.split(".")[-1] if c else "?")
            elif isinstance(n, (ast.AugAssign, ast.AnnAssign, ast.Delete, ast.NamedExpr)):
                for sub in ast.walk(n):
                    if isinstance(sub, ast.Attribute) and isinstance(sub.ctx, (ast.Store, ast.Del)) and sub.attr in ("mtype", "_mtype") \
                            and isinstance(sub.value, ast.Name) and sub.value.id == x:
                        stores.append("?")
        a = f.node.args
        is_param = any(p.arg == x for p in a.posonlyargs + a.args + a.kwonlyargs)
        writes = writes_to_name(f.node, x)
        if not is_param and len(writes) == 1:
            v = None
            for n in walk_no_nested(f.node):
                if isinstance(n, ast.Assign) and len(n.targets) == 1 and isinstance(n.targets[0], ast.Name) and n.targets[0].id == x:
                    v = n.value
            is_ctor, t = self._ctor_type(v) if v is not None else (False, None)
            if is_ctor:
                types = ([t] if t is not None else []) + stores
                return bool(types) and all(y in nonack for y in types)
        if self.nested_in(f, site):
            return False
        cfg = cfg_of(f)
        nids = cfg.locate(site)
        if not nids:
            return False
        # A condition on x.mtype says something about the message at the site only if neither x nor x.mtype is
        # assigned on the way from the condition to the site.
        changes = set()
        for n in ast.walk(f.node):
            hit = False
            if isinstance(n, ast.Attribute) and isinstance(n.ctx, (ast.Store, ast.Del)) and n.attr in ("mtype", "_mtype") \
                    and isinstance(n.value, ast.Name) and n.value.id == x:
                hit = True
            elif isinstance(n, ast.Name) and n.id == x and isinstance(n.ctx, (ast.Store, ast.Del)):
                hit = True
            if hit:
                if self.nested_in(f, n):
                    return False
                loc = cfg.locate(n)
                if not loc:
                    return False
                changes.update(loc)
        for nid in nids:
            guards = []
            for e, pol, g in cfg.guards(nid):
                # (a way that comes by the test again re-establishes the condition: loops)
                tests = tuple(t for t, _l in cfg.pred[g])
                after = cfg.reach([g], avoid=tests)
                if any(c in after and nid in cfg.reach([c], avoid=tests, include_src=True) for c in changes):
                    continue
                guards.append((e, pol))
            alive, _others = mtype_values(guards, "%s.mtype" % x, MTYPES)
            if "ACK" in alive:
                return False
        return True

    # -- the walk ------------------------------------------------------------------------------
    def judge(self, f, pin, arg, deferred, via):
        if arg is None:
            self.findings.append((f, pin, False, "%s: the message handed on here cannot be identified" % via))
            return
        if isinstance(arg, ast.Name) and self.nested_in(f, pin):
            b = self.binding(f, pin, arg.id)
            if b is not None:
                if b[0] == "param":
                    self.findings.append((f, pin, False, "%s: the message is a parameter of a nested callable, bound by whoever calls it" % via))
                    return
                arg = b[1]
        # follow locals that merely name another local / parameter (what a name is bound to otherwise -- a
        # construction, a call -- is looked at by not_an_ack together with the attribute assignments on that name)
        for _i in range(4):
            if not isinstance(arg, ast.Name):
                break
            nxt = self.resolve(f.node, arg, 1)
            if nxt is arg or not isinstance(nxt, ast.Name):
                break
            arg = nxt
        if f.qn == self.rs.qn:
            self.arrivals.append((pin, deferred, arg))
            return
        if f.qn in self.skip:
            return
        if self.not_an_ack(f, pin, arg):
            self.findings.append((f, pin, True, "%s: `%s` is not an ACK" % (via, stmt_text(arg, 40))))
            return
        a = f.node.args
        names = [p.arg for p in a.posonlyargs + a.args]
        if isinstance(arg, ast.Name) and arg.id in names + [p.arg for p in a.kwonlyargs] and not writes_to_name(f.node, arg.id) and not a.vararg:
            k = (f.qn, arg.id)
            if k in self.visited:
                return
            self.visited.add(k)
            decos = {(chain(d) or "").split(".")[-1] for d in f.node.decorator_list}
            if decos - {"staticmethod", "classmethod"}:
                self.findings.append((f, pin, False, "%s: %s is decorated; its callers cannot be followed" % (via, f.name)))
                return
            skip_first = 1 if (f.cls is not None and "staticmethod" not in decos) else 0
            idx = names.index(arg.id) - skip_first if arg.id in names else None
            refs = self.refs_to(f)
            if not refs:
                self.notes.append("%s hands its parameter %s to the wire but is referenced nowhere in the package" % (f.short, arg.id))
                return
            for g, ref in refs:
                u = self.uses(g, ref, True)
                if u is None:
                    self.findings.append((g, ref, False, "%s: %s is referred to in a way that cannot be followed" % (via, f.name)))
                    continue
                for pin2, get, d2 in u:
                    arg2 = get(idx, arg.id) if idx is not None and idx >= 0 else get(10 ** 6, arg.id)
                    if arg2 is None:
                        # not given: the parameter's default
                        dflt = None
                        if arg.id in names:
                            j = names.index(arg.id) - (len(names) - len(a.defaults))
                            dflt = a.defaults[j] if j >= 0 else None
                        if dflt is not None:
                            self.findings.append((g, pin2, False, "%s: %s sends the default value of %s" % (via, f.name, arg.id)))
                            continue
                    self.judge(g, pin2, arg2, deferred or d2, "%s <- %s" % (via, f.name))
            return
        self.findings.append((f, pin, False, "%s: `%s` reaches the wire without being recorded as the possible reply to a duplicate, and may be an acknowledgement" % (via, stmt_text(arg, 40))))

    def run(self):
        wires = self.wire_refs()
        for f, ref in wires:
            u = self.uses(f, ref, True)
            if u is None:
                self.findings.append((f, ref, False, "the transmission primitive is referred to in a way that cannot be followed"))
                continue
            for pin, get, d in u:
                self.judge(f, pin, get(0, "message"), d, "wire")
        return wires
