"""Helpers of rules/c15.py: the checker's own path evaluator for loop-free
codec functions (conditional expressions, constant tables, divmod, unrolled
`for` over constant sequences), immutable module-level constants, joint
resolution of `for`-bound names over literal sequences, fusion of a framing
loop that was split into `while self._step(): pass` + `_step`, a flag-aware
view of a CFG (boolean locals that only carry a loop decision), the
membership-guard premise for dict subscripts, and a must-alias / nullness
data-flow of one attribute field (FieldFlow) with the effects of a CFG node on
the dictionary reached through the field or its aliases (dict_effects).

Nothing in here looks at names of locals or helpers, source text or positions:
everything is decided on resolved values, normal forms and CFG paths.
"""

import ast
import copy

from ..rulekit import *
from ..model import FuncInfo
from .. import norm
from ..norm import NormError


def txt(e):
    return " ".join(ast.unparse(e).split())


# ---------------------------------------------------------------------------
# immutable module-level constants

_READONLY_METHODS = {"get", "items", "keys", "values", "copy", "index", "count"}


# ---------------------------------------------------------------------------
# the checker's own evaluator of pure constant expressions (derived constants)


class NotPure(Exception):
    """the expression is outside the vocabulary of pure_value"""


_PURE_SCALARS = (bool, int, str, bytes, type(None))
_PURE_LIMIT = 4096  # elements of any computed collection


class _Lazy:
    """a one-shot iterator (generator expression, zip, enumerate, reversed,
    map-like): it can be consumed by one iteration, and is nothing else -- not a
    sequence, not a constant a name could stand for"""

    def __init__(self, items):
        self.items = items


def _pure_ok(v):
    if isinstance(v, _Lazy):
        if len(v.items) > _PURE_LIMIT:
            raise NotPure("too large")
        return v
    if isinstance(v, (tuple, list, frozenset)):
        if len(v) > _PURE_LIMIT:
            raise NotPure("too large")
        return v
    if isinstance(v, dict):
        if len(v) > _PURE_LIMIT:
            raise NotPure("too large")
        return v
    if isinstance(v, _PURE_SCALARS):
        if isinstance(v, int) and not isinstance(v, bool) and abs(v) > 1 << 256:
            raise NotPure("too large")
        if isinstance(v, (str, bytes)) and len(v) > _PURE_LIMIT:
            raise NotPure("too large")
        return v
    raise NotPure("value kind")


def _pure_binop(op, a, b):
    num = lambda x: isinstance(x, int)
    seq = lambda x: isinstance(x, (tuple, list, str, bytes))
    if isinstance(op, ast.Add) and ((num(a) and num(b)) or (seq(a) and type(a) is type(b))):
        return a + b
    if isinstance(op, ast.Sub) and num(a) and num(b):
        return a - b
    if isinstance(op, ast.Mult) and num(a) and num(b):
        return a * b
    if isinstance(op, ast.Mult) and ((seq(a) and num(b)) or (num(a) and seq(b))):
        n = b if num(b) else a
        if n > _PURE_LIMIT:
            raise NotPure("too large")
        return a * b
    if isinstance(op, (ast.FloorDiv, ast.Mod)) and num(a) and num(b) and b != 0:
        return a // b if isinstance(op, ast.FloorDiv) else a % b
    if isinstance(op, ast.Pow) and num(a) and num(b) and 0 <= b <= 256 and abs(a) <= 1 << 16:
        return a ** b
    if isinstance(op, ast.LShift) and num(a) and num(b) and 0 <= b <= 256:
        return a << b
    if isinstance(op, ast.RShift) and num(a) and num(b) and 0 <= b <= 4096:
        return a >> b
    if isinstance(op, ast.BitOr) and num(a) and num(b):
        return a | b
    if isinstance(op, ast.BitAnd) and num(a) and num(b):
        return a & b
    if isinstance(op, ast.BitXor) and num(a) and num(b):
        return a ^ b
    raise NotPure("operator")


def _pure_compare(op, a, b):
    if isinstance(op, (ast.Eq, ast.NotEq)):
        return (a == b) if isinstance(op, ast.Eq) else (a != b)
    if isinstance(op, (ast.Is, ast.IsNot)):
        if a is None or b is None:
            return ((a is None) and (b is None)) == isinstance(op, ast.Is)
        raise NotPure("identity of values")
    if isinstance(op, (ast.In, ast.NotIn)):
        if isinstance(b, (tuple, list, frozenset, dict)) or (isinstance(b, (str, bytes)) and type(a) is type(b)):
            try:
                r = a in b
            except TypeError:
                raise NotPure("unhashable")
            return r == isinstance(op, ast.In)
        raise NotPure("membership")
    ordered = (isinstance(a, int) and isinstance(b, int)) or (type(a) is type(b) and isinstance(a, (str, bytes, tuple, list)))
    if not ordered:
        raise NotPure("ordering")
    try:
        if isinstance(op, ast.Lt):
            return a < b
        if isinstance(op, ast.LtE):
            return a <= b
        if isinstance(op, ast.Gt):
            return a > b
        if isinstance(op, ast.GtE):
            return a >= b
    except TypeError:
        raise NotPure("ordering")
    raise NotPure("comparison")


def _pure_bind(target, v, env):
    if isinstance(target, ast.Name):
        env[target.id] = v
        return
    if isinstance(target, (ast.Tuple, ast.List)) and not any(isinstance(t, ast.Starred) for t in target.elts):
        if not isinstance(v, (tuple, list)) or len(v) != len(target.elts):
            raise NotPure("unpacking")
        for t, x in zip(target.elts, v):
            _pure_bind(t, x, env)
        return
    raise NotPure("target")


def _pure_iter(v):
    """the elements iteration over v yields, in order (frozenset: no defined order)"""
    if isinstance(v, _Lazy):
        return list(v.items)
    if isinstance(v, (tuple, list)):
        return list(v)
    if isinstance(v, dict):
        return list(v)  # insertion order
    if isinstance(v, (str, bytes)):
        return [v[i:i + 1] if isinstance(v, str) else v[i] for i in range(len(v))]
    raise NotPure("iteration order")


def pure_value(e, env, lookup):
    """Python value of the expression `e`: literals, names bound in env (the
    targets of enclosing comprehensions) or resolved by lookup(name) to the
    literal of an immutable module constant, arithmetic / comparisons / boolean
    operators / conditional expressions / subscripts and slices over such
    values, comprehensions and generator expressions, and calls of the built-in
    pure functions tuple list sorted reversed dict len min max sum range
    enumerate zip abs frozenset set bytes int bool and of .items() .keys() .values()
    .get() on dict values.  Everything computes exactly what Python computes on
    these value kinds (ints, bools, str, bytes, None, tuples, lists, dicts in
    insertion order, frozensets without iteration order); anything else raises
    NotPure.  A builtin name that lookup() resolves, or that is bound in env,
    is not the builtin."""
    def ev(x, env):
        return _pure_ok(ev1(x, env))

    def builtin(name, env):
        return name not in env and lookup(name) is None and not lookup_bound(name)

    def lookup_bound(name):
        b = getattr(lookup, "bound", None)
        return b(name) if b is not None else False

    def comp(gens, env, emit):
        if not gens:
            emit(env)
            return
        g = gens[0]
        if g.is_async:
            raise NotPure("async comprehension")
        for x in _pure_iter(ev(g.iter, env)):
            env2 = dict(env)
            _pure_bind(g.target, x, env2)
            if all(truth(ev(c, env2)) for c in g.ifs):
                comp(gens[1:], env2, emit)

    def truth(v):
        return True if isinstance(v, _Lazy) else bool(v)

    def ev1(x, env):
        if isinstance(x, ast.Constant):
            if isinstance(x.value, _PURE_SCALARS):
                return x.value
            raise NotPure("constant kind")
        if isinstance(x, ast.Name):
            if x.id in env:
                return env[x.id]
            c = lookup(x.id)
            if c is None:
                raise NotPure("free name %s" % x.id)
            return pure_value(c, {}, lookup)
        if isinstance(x, (ast.Tuple, ast.List)):
            out = []
            for y in x.elts:
                if isinstance(y, ast.Starred):
                    out.extend(_pure_iter(ev(y.value, env)))
                else:
                    out.append(ev(y, env))
            return tuple(out) if isinstance(x, ast.Tuple) else out
        if isinstance(x, ast.Set):
            if any(isinstance(y, ast.Starred) for y in x.elts):
                raise NotPure("starred set element")
            try:
                return frozenset([ev(y, env) for y in x.elts])
            except TypeError:
                raise NotPure("unhashable")
        if isinstance(x, ast.Dict):
            d = {}
            for k, v in zip(x.keys, x.values):
                try:
                    if k is None:
                        inner = ev(v, env)
                        if not isinstance(inner, dict):
                            raise NotPure("** of a non-dict")
                        d.update(inner)
                    else:
                        d[ev(k, env)] = ev(v, env)
                except TypeError:
                    raise NotPure("unhashable")
            return d
        if isinstance(x, ast.UnaryOp):
            v = ev(x.operand, env)
            if isinstance(x.op, ast.Not):
                return not truth(v)
            if isinstance(v, int):
                if isinstance(x.op, ast.USub):
                    return -v
                if isinstance(x.op, ast.UAdd):
                    return +v
                if isinstance(x.op, ast.Invert):
                    return ~v
            raise NotPure("unary")
        if isinstance(x, ast.BinOp):
            return _pure_binop(x.op, ev(x.left, env), ev(x.right, env))
        if isinstance(x, ast.BoolOp):
            v = None
            for y in x.values:
                v = ev(y, env)
                if truth(v) != isinstance(x.op, ast.And):
                    return v
            return v
        if isinstance(x, ast.Compare):
            left = ev(x.left, env)
            for op, r in zip(x.ops, x.comparators):
                right = ev(r, env)
                if not _pure_compare(op, left, right):
                    return False
                left = right
            return True
        if isinstance(x, ast.IfExp):
            return ev(x.body if truth(ev(x.test, env)) else x.orelse, env)
        if isinstance(x, ast.Subscript):
            c = ev(x.value, env)
            if isinstance(x.slice, ast.Slice):
                if not isinstance(c, (tuple, list, str, bytes)):
                    raise NotPure("slice")
                parts = [None if p is None else ev(p, env) for p in (x.slice.lower, x.slice.upper, x.slice.step)]
                if any(p is not None and not isinstance(p, int) for p in parts) or parts[2] == 0:
                    raise NotPure("slice")
                return c[slice(*parts)]
            i = ev(x.slice, env)
            if isinstance(c, dict):
                try:
                    if i in c:
                        return c[i]
                except TypeError:
                    pass
                raise NotPure("key")
            if isinstance(c, (tuple, list, str, bytes)) and isinstance(i, int) and -len(c) <= i < len(c):
                return c[i]
            raise NotPure("subscript")
        if isinstance(x, (ast.ListComp, ast.SetComp, ast.GeneratorExp)):
            out = []
            comp(x.generators, env, lambda e2: out.append(ev(x.elt, e2)))
            if isinstance(x, ast.SetComp):
                try:
                    return frozenset(out)
                except TypeError:
                    raise NotPure("unhashable")
            # a generator expression is a one-shot iterator: accepted only where
            # it is consumed at once (by a pure builtin or a comprehension)
            return _Lazy(out) if isinstance(x, ast.GeneratorExp) else out
        if isinstance(x, ast.DictComp):
            d = {}

            def put(e2):
                try:
                    d[ev(x.key, e2)] = ev(x.value, e2)
                except TypeError:
                    raise NotPure("unhashable")

            comp(x.generators, env, put)
            return d
        if isinstance(x, ast.Call):
            if any(isinstance(a, ast.Starred) for a in x.args) or any(k.arg is None for k in x.keywords):
                raise NotPure("star arguments")
            f = x.func
            if isinstance(f, ast.Attribute):
                recv = ev(f.value, env)
                args = [ev(a, env) for a in x.args]
                if x.keywords:
                    raise NotPure("keywords of a method")
                if isinstance(recv, dict):
                    if f.attr == "items" and not args:
                        return [(k, v) for k, v in recv.items()]
                    if f.attr == "keys" and not args:
                        return list(recv)
                    if f.attr == "values" and not args:
                        return list(recv.values())
                    if f.attr == "get" and 1 <= len(args) <= 2:
                        try:
                            return recv.get(*args)
                        except TypeError:
                            raise NotPure("unhashable")
                if isinstance(recv, (tuple, list)) and f.attr in ("index", "count") and len(args) == 1:
                    try:
                        return getattr(recv, f.attr)(args[0])
                    except ValueError:
                        raise NotPure("index")
                raise NotPure("method %s" % f.attr)
            if not isinstance(f, ast.Name) or not builtin(f.id, env):
                raise NotPure("callee")
            name = f.id
            args = [ev(a, env) for a in x.args]
            kw = {k.arg: ev(k.value, env) for k in x.keywords}
            if name in ("tuple", "list") and len(args) <= 1 and not kw:
                seq = _pure_iter(args[0]) if args else []
                return tuple(seq) if name == "tuple" else seq
            if name in ("frozenset", "set") and len(args) <= 1 and not kw:
                try:
                    return frozenset(_pure_iter(args[0]) if args else ())
                except TypeError:
                    raise NotPure("unhashable")
            if name == "sorted" and len(args) == 1 and set(kw) <= {"reverse"}:
                src = list(args[0]) if isinstance(args[0], frozenset) else _pure_iter(args[0])
                rev = kw.get("reverse", False)
                if not isinstance(rev, (bool, int)):
                    raise NotPure("reverse")
                # a total order on the elements is needed: all ints, or all of one
                # ordered kind (compared by _pure_compare's rules, recursively)
                def orderable(a, b):
                    if isinstance(a, int) and isinstance(b, int):
                        return True
                    if type(a) is not type(b):
                        return False
                    if isinstance(a, (str, bytes)):
                        return True
                    if isinstance(a, (tuple, list)):
                        return all(orderable(p, q) for p, q in zip(a, b))
                    return False
                if any(not orderable(src[0], y) for y in src[1:]) or (len(src) == 1 and False):
                    raise NotPure("ordering")
                try:
                    return sorted(src, reverse=bool(rev))
                except TypeError:
                    raise NotPure("ordering")
            if name == "reversed" and len(args) == 1 and not kw and isinstance(args[0], (tuple, list, str, bytes)):
                return _Lazy(_pure_iter(args[0])[::-1])
            if name == "reversed" and len(args) == 1 and not kw and isinstance(args[0], dict):
                return _Lazy(list(args[0])[::-1])
            if name == "dict" and len(args) <= 1:
                d = {}
                try:
                    if args:
                        if isinstance(args[0], dict):
                            d.update(args[0])
                        else:
                            for pair in _pure_iter(args[0]):
                                if not isinstance(pair, (tuple, list)) or len(pair) != 2:
                                    raise NotPure("dict() of non-pairs")
                                d[pair[0]] = pair[1]
                    d.update(kw)
                except TypeError:
                    raise NotPure("unhashable")
                return d
            if name == "len" and len(args) == 1 and not kw and isinstance(args[0], (tuple, list, dict, frozenset, str, bytes)):
                return len(args[0])
            if name in ("min", "max") and args and not kw:
                src = (list(args[0]) if isinstance(args[0], frozenset) else _pure_iter(args[0])) if len(args) == 1 else args
                if not src or not all(isinstance(y, int) for y in src):
                    raise NotPure("min/max of non-ints")
                return min(src) if name == "min" else max(src)
            if name == "sum" and len(args) == 1 and not kw:
                src = list(args[0]) if isinstance(args[0], frozenset) else _pure_iter(args[0])
                if not all(isinstance(y, int) for y in src):
                    raise NotPure("sum of non-ints")
                return sum(src)
            if name == "abs" and len(args) == 1 and not kw and isinstance(args[0], int):
                return abs(args[0])
            if name == "range" and 1 <= len(args) <= 3 and not kw and all(isinstance(a, int) for a in args) and (len(args) < 3 or args[2] != 0):
                r = range(*args)
                if len(r) > _PURE_LIMIT:
                    raise NotPure("too large")
                return list(r)
            if name == "enumerate" and 1 <= len(args) <= 2 and set(kw) <= {"start"}:
                start = args[1] if len(args) == 2 else kw.get("start", 0)
                if not isinstance(start, int) or (len(args) == 2 and kw):
                    raise NotPure("enumerate")
                return _Lazy([(start + i, y) for i, y in enumerate(_pure_iter(args[0]))])
            if name == "zip" and not kw:
                return _Lazy([tuple(t) for t in zip(*[_pure_iter(a) for a in args])])
            if name == "bool" and len(args) <= 1 and not kw:
                return bool(args[0]) if args else False
            if name == "int" and len(args) == 1 and not kw and isinstance(args[0], int):
                return int(args[0])
            if name == "bytes" and len(args) == 1 and not kw and isinstance(args[0], (tuple, list)) and all(isinstance(y, int) and not isinstance(y, bool) and 0 <= y < 256 for y in args[0]):
                return bytes(args[0])
            raise NotPure("call of %s" % name)
        raise NotPure("expression kind %s" % type(x).__name__)

    try:
        return ev(e, dict(env))
    except RecursionError:
        raise NotPure("recursion")


def literal_of(v):
    """literal expression of a value computed by pure_value (None for a value
    that has no literal the evaluators track: sets)"""
    if isinstance(v, _PURE_SCALARS):
        if isinstance(v, int) and not isinstance(v, bool) and v < 0:
            return ast.UnaryOp(op=ast.USub(), operand=ast.Constant(value=-v))
        return ast.Constant(value=v)
    if isinstance(v, (tuple, list)):
        elts = [literal_of(x) for x in v]
        if any(x is None for x in elts):
            return None
        return (ast.Tuple if isinstance(v, tuple) else ast.List)(elts=elts, ctx=ast.Load())
    if isinstance(v, dict):
        ks = [literal_of(k) for k in v]
        vs = [literal_of(x) for x in v.values()]
        if any(x is None for x in ks + vs):
            return None
        return ast.Dict(keys=ks, values=vs)
    return None


def module_const(prog, module, name):
    """Value expression of a module-level name of `module` (a model.Module)
    that is bound exactly once, at module level, to a literal, and is never
    mutated in that module (no rebinding, no `global`, no subscript store /
    delete, no mutating method).  None when the name is not such a constant."""
    cache = module.__dict__.setdefault("_c15_consts", {})
    if name in cache:
        return cache[name]
    value = None
    binds = 0
    for st in module.tree.body:
        if isinstance(st, ast.Assign):
            for t in st.targets:
                for x in ast.walk(t):
                    if isinstance(x, ast.Name) and x.id == name:
                        binds += 1
                        if len(st.targets) == 1 and isinstance(t, ast.Name):
                            value = st.value
        elif isinstance(st, ast.AnnAssign) and isinstance(st.target, ast.Name) and st.target.id == name:
            binds += 1
            value = st.value
    ok = binds == 1 and value is not None
    if ok and not isinstance(value, (ast.Dict, ast.Tuple, ast.List, ast.Constant)):
        # a *derived* constant: a pure expression over literals and other
        # immutable constants of the module (`tuple(sorted(T.items(), reverse=True))`,
        # a comprehension over a table, `A + B`, ...).  It is evaluated once, at
        # import, so its value is the value of that expression over the
        # constants as they are bound; the checker computes it with its own
        # evaluator (pure_value) and continues with the literal of the result.
        # The placeholder keeps a cyclic definition from recursing.
        cache[name] = None
        def lookup(nm):
            return module_const(prog, module, nm)

        # a name the module binds itself (def, class, import, assignment at
        # module level) is not the builtin of that name
        scope = set()
        todo = list(module.tree.body)
        while todo:
            n = todo.pop()
            if isinstance(n, (ast.FunctionDef, ast.AsyncFunctionDef, ast.ClassDef)):
                scope.add(n.name)
                continue
            if isinstance(n, (ast.Import, ast.ImportFrom)):
                for a in n.names:
                    scope.add((a.asname or a.name).split(".")[0])
                    if a.name == "*":
                        scope.add("*")
            if isinstance(n, ast.Name) and isinstance(n.ctx, (ast.Store, ast.Del)):
                scope.add(n.id)
            if isinstance(n, (ast.Lambda, ast.ListComp, ast.SetComp, ast.DictComp, ast.GeneratorExp)):
                continue
            todo.extend(ast.iter_child_nodes(n))
        lookup.bound = lambda nm: nm in scope or "*" in scope
        try:
            value = literal_of(pure_value(value, {}, lookup))
        except NotPure:
            value = None
        del cache[name]
        ok = value is not None
    if ok:
        for n in ast.walk(module.tree):
            if isinstance(n, ast.Global) and name in n.names:
                ok = False
            elif isinstance(n, (ast.Subscript, ast.Attribute)) and isinstance(n.ctx, (ast.Store, ast.Del)):
                base = n.value
                while isinstance(base, (ast.Subscript, ast.Attribute)):
                    base = base.value
                if isinstance(base, ast.Name) and base.id == name:
                    ok = False
            elif isinstance(n, ast.AugAssign):
                base = n.target
                while isinstance(base, (ast.Subscript, ast.Attribute)):
                    base = base.value
                if isinstance(base, ast.Name) and base.id == name:
                    ok = False
            elif isinstance(n, ast.Call) and isinstance(n.func, ast.Attribute) and isinstance(n.func.value, ast.Name) and n.func.value.id == name:
                if n.func.attr not in _READONLY_METHODS:
                    ok = False
        # any other binding of the same name anywhere in the module (a local or a
        # parameter shadowing it) makes the name ambiguous for us
        stores = [n for n in ast.walk(module.tree) if isinstance(n, ast.Name) and n.id == name and isinstance(n.ctx, (ast.Store, ast.Del))]
        if len(stores) != 1:
            ok = False
        for n in ast.walk(module.tree):
            if isinstance(n, ast.arg) and n.arg == name:
                ok = False
    cache[name] = value if ok else None
    return cache[name]


def _is_literal_tree(e):
    """dict / tuple / list literal of (nested) literals and constants"""
    if isinstance(e, ast.Constant):
        return True
    if isinstance(e, (ast.Tuple, ast.List)):
        return all(_is_literal_tree(x) for x in e.elts)
    if isinstance(e, ast.Dict):
        return all(k is not None and _is_literal_tree(k) and _is_literal_tree(v) for k, v in zip(e.keys, e.values))
    if isinstance(e, (ast.UnaryOp, ast.BinOp)):
        try:
            norm.consteval(e)
            return True
        except Exception:
            return False
    return False


# ---------------------------------------------------------------------------
# substitution and folding


def subst(e, env):
    """forward substitution of locals; a dotted key `obj.f` (object mode of the
    path evaluator) stands for the attribute `obj.f` of the object under
    construction and replaces loads of exactly that attribute"""
    class T(ast.NodeTransformer):
        def visit_Name(self, n):
            if isinstance(n.ctx, ast.Load) and n.id in env:
                return copy.deepcopy(env[n.id])
            return n

        def visit_Attribute(self, n):
            n = self.generic_visit(n)
            if isinstance(n.ctx, ast.Load) and isinstance(n.value, ast.Name) and (n.value.id + "." + n.attr) in env:
                return copy.deepcopy(env[n.value.id + "." + n.attr])
            return n

        def visit_Lambda(self, n):
            return n

    return T().visit(copy.deepcopy(e))


def const_node(v):
    if v is None or isinstance(v, (bool, int, bytes, str)):
        return ast.Constant(value=v)
    return None


def _pow2(e):
    """k when e is the constant 2**k (k >= 1), else None"""
    try:
        v = norm.consteval(e)
    except Exception:
        return None
    if isinstance(v, int) and not isinstance(v, bool) and v >= 2 and v & (v - 1) == 0:
        return v.bit_length() - 1
    return None


def _cval(e):
    try:
        return True, norm.consteval(e)
    except Exception:
        return False, None


def _dict_lookup(d, key):
    """value expression of literal dict d under the constant key expression,
    (found, expr|None)"""
    ok, k = _cval(key)
    if not ok:
        return None
    for kk, vv in zip(d.keys, d.values):
        if kk is None:
            return None
        ok2, k2 = _cval(kk)
        if not ok2:
            return None
        if k2 == k and type(k2) is type(k):
            return (True, vv)
    return (False, None)


def fold(e, hook=None, consts=None):
    """Bottom-up constant folding with the checker's own evaluator.  `hook`
    may replace a sub-expression (used to bind the length nibble); `consts`
    maps a free name to the literal of an immutable module-level constant.

    Identities used (all exact on Python ints):
      divmod(a, b)        == (a // b, a % b)
      a // 2**k           == a >> k        (floor semantics on both sides)
      a % 2**k            == a & (2**k-1)  (result in 0..2**k-1 on both sides)
      {k1: v1, ...}[c]    == vi  for the literal key ki == c
      {..}.get(c, d)      == vi / d
      (x0, x1, ..)[i]     == xi
      [..] + [..]         == [.., ..]
      c is None           == (c is the constant None)   for a constant c
    """

    def const_container(n):
        if isinstance(n, (ast.Dict, ast.Tuple, ast.List)):
            return n
        if isinstance(n, ast.Name) and consts is not None:
            v = consts(n.id)
            if v is not None and isinstance(v, (ast.Dict, ast.Tuple, ast.List)) and _is_literal_tree(v):
                return v
        return None

    class F(ast.NodeTransformer):
        def visit_Lambda(self, n):
            return n

        def visit(self, n):
            if isinstance(n, ast.Lambda):
                return n
            n = super().visit(n)
            if not isinstance(n, ast.expr):
                return n
            # divmod / power-of-two division: rewritten before the hook sees them
            if isinstance(n, ast.Call) and isinstance(n.func, ast.Name) and n.func.id == "divmod" and len(n.args) == 2 and not n.keywords:
                a, b = n.args
                q = self.visit(ast.BinOp(left=copy.deepcopy(a), op=ast.FloorDiv(), right=copy.deepcopy(b)))
                r = self.visit(ast.BinOp(left=copy.deepcopy(a), op=ast.Mod(), right=copy.deepcopy(b)))
                return ast.Tuple(elts=[q, r], ctx=ast.Load())
            if isinstance(n, ast.BinOp) and isinstance(n.op, (ast.FloorDiv, ast.Mod)) and not _cval(n.left)[0]:
                k = _pow2(n.right)
                if k is not None:
                    if isinstance(n.op, ast.FloorDiv):
                        n = ast.BinOp(left=n.left, op=ast.RShift(), right=ast.Constant(value=k))
                    else:
                        n = ast.BinOp(left=n.left, op=ast.BitAnd(), right=ast.Constant(value=(1 << k) - 1))
            if hook is not None:
                r = hook(n)
                if r is not None:
                    return r
            if isinstance(n, ast.BinOp) and isinstance(n.op, ast.Add) and isinstance(n.left, ast.List) and isinstance(n.right, (ast.List, ast.Tuple)) and isinstance(n.left.ctx, ast.Load):
                return ast.List(elts=n.left.elts + n.right.elts, ctx=ast.Load())
            if isinstance(n, ast.Subscript) and isinstance(n.ctx, ast.Load) and not isinstance(n.slice, ast.Slice):
                c = const_container(n.value)
                if isinstance(c, (ast.Tuple, ast.List)):
                    ok, i = _cval(n.slice)
                    if ok and isinstance(i, int) and not isinstance(i, bool) and -len(c.elts) <= i < len(c.elts) and not any(isinstance(x, ast.Starred) for x in c.elts):
                        return self.visit(copy.deepcopy(c.elts[i])) if c is not n.value else c.elts[i]
                elif isinstance(c, ast.Dict):
                    r = _dict_lookup(c, n.slice)
                    if r is not None and r[0]:
                        return self.visit(copy.deepcopy(r[1])) if c is not n.value else r[1]
            if isinstance(n, ast.Call) and isinstance(n.func, ast.Attribute) and n.func.attr == "get" and 1 <= len(n.args) <= 2 and not n.keywords:
                c = const_container(n.func.value)
                if isinstance(c, ast.Dict):
                    r = _dict_lookup(c, n.args[0])
                    if r is not None:
                        if r[0]:
                            return self.visit(copy.deepcopy(r[1]))
                        return n.args[1] if len(n.args) == 2 else ast.Constant(value=None)
            if isinstance(n, ast.Compare) and len(n.ops) == 1 and isinstance(n.ops[0], (ast.Is, ast.IsNot)) and isinstance(n.left, ast.Constant) and isinstance(n.comparators[0], ast.Constant) \
                    and (n.left.value is None or n.comparators[0].value is None):
                # identity with the singleton None is decided by the values
                same = n.left.value is None and n.comparators[0].value is None
                return ast.Constant(value=same if isinstance(n.ops[0], ast.Is) else not same)
            if isinstance(n, ast.Compare) and len(n.ops) == 1 and isinstance(n.ops[0], (ast.Is, ast.IsNot)) \
                    and any(isinstance(x, ast.Constant) and x.value is None for x in (n.left, n.comparators[0])) \
                    and any(isinstance(x, (ast.Tuple, ast.List, ast.Dict, ast.Set)) and isinstance(getattr(x, "ctx", ast.Load()), ast.Load) for x in (n.left, n.comparators[0])):
                # a display evaluates to a container object, which is never None
                return ast.Constant(value=isinstance(n.ops[0], ast.IsNot))
            if isinstance(n, ast.Compare) and len(n.ops) == 1 and isinstance(n.ops[0], (ast.In, ast.NotIn)):
                # c in {k1: .., k2: ..} / (x1, x2, ..) / {x1, x2}  for constant c and
                # constant keys / elements: decided by the values (== on ints,
                # strings, bytes, None, as `in` does)
                okc, cv = _cval(n.left)
                box = n.comparators[0]
                c = box if isinstance(box, ast.Set) else const_container(box)
                if okc and c is not None and isinstance(cv, (int, str, bytes, type(None))):
                    members = c.keys if isinstance(c, ast.Dict) else c.elts
                    vals = [(_cval(m) if m is not None and not isinstance(m, ast.Starred) else (False, None)) for m in members]
                    if all(ok2 and isinstance(v2, (int, str, bytes, type(None))) for ok2, v2 in vals):
                        found = any(v2 == cv for _ok2, v2 in vals)
                        return ast.Constant(value=found if isinstance(n.ops[0], ast.In) else not found)
            if isinstance(n, (ast.BinOp, ast.UnaryOp, ast.Compare, ast.BoolOp)):
                try:
                    v = norm.consteval(n)
                except Exception:
                    return n
                c = const_node(v)
                if c is not None:
                    return c
            return n

    return F().visit(e)


# ---------------------------------------------------------------------------
# path evaluator


class EvalPath:
    def __init__(self, conds, kind, value, node, stores):
        self.conds = conds  # [(test expr (substituted), polarity)]
        self.kind = kind  # 'return' | 'raise'
        self.value = value  # substituted expression (None for a bare return / falling off the end)
        self.node = node  # the Return / Raise statement (or the function for fall-off)
        self.stores = stores  # [(target expr, value expr)] attribute / subscript stores on the path
        self.env = None  # final bindings (locals, and `obj.f` fields in object mode)


MUTATORS = {"append": 1, "extend": 1}
MAX_UNROLL = 32


def _first_ifexp(e):
    """outermost conditional expression in evaluation (pre-)order, not inside a
    lambda or comprehension (those are values, not control flow of this path)"""
    todo = [e]
    while todo:
        n = todo.pop(0)
        if isinstance(n, ast.IfExp):
            return n
        if isinstance(n, (ast.Lambda, ast.ListComp, ast.SetComp, ast.DictComp, ast.GeneratorExp)):
            continue
        todo = list(ast.iter_child_nodes(n)) + todo
    return None


def decide(t, conds):
    """truth of the (folded) test under the path conditions so far: a constant,
    or a test already decided on this path (same expression, possibly under
    `not`).  None = open."""
    pol = True
    while isinstance(t, ast.UnaryOp) and isinstance(t.op, ast.Not):
        t = t.operand
        pol = not pol
    if isinstance(t, ast.Constant):
        return bool(t.value) == pol
    d = dump(t)
    for c, p in conds:
        cp = p
        while isinstance(c, ast.UnaryOp) and isinstance(c.op, ast.Not):
            c = c.operand
            cp = not cp
        if dump(c) == d:
            return cp == pol
    return None


def boolops_as_ifexp(e):
    """`a or b` -> `a if a else b`, `a and b` -> `b if a else a` wherever the
    operands that are evaluated twice are pure and cheap (names, constants,
    attribute chains): exact for every value, and it lets the path evaluator
    fork on the *value* of a short-circuit expression instead of folding it to
    its truth."""
    def simple(x):
        return isinstance(x, (ast.Name, ast.Constant)) or chain(x) is not None

    class T(ast.NodeTransformer):
        def visit_Lambda(self, n):
            return n

        def visit_ListComp(self, n):
            return n

        visit_SetComp = visit_DictComp = visit_GeneratorExp = visit_ListComp

        def visit_BoolOp(self, n):
            n = self.generic_visit(n)
            if not all(simple(v) for v in n.values[:-1]):
                return n
            out = n.values[-1]
            for v in reversed(n.values[:-1]):
                if isinstance(n.op, ast.Or):
                    out = ast.IfExp(test=copy.deepcopy(v), body=v, orelse=out)
                else:
                    out = ast.IfExp(test=copy.deepcopy(v), body=out, orelse=v)
            return out

    return T().visit(copy.deepcopy(e))


def enumerate_paths(fnode, hook=None, what="function", max_paths=96, consts=None, env0=None, obj=None, effects=None):
    """All paths of a function without `while`/`try`/`with` as (path
    conditions, outcome) with locals forward-substituted.  Conditional
    expressions fork the path like `if` statements do; `for` over a constant
    sequence is unrolled.  Anything outside the vocabulary is an analysis
    error (exit 2), never a verdict.

    `env0`: initial bindings (parameters of one call site).  Object mode
    (`obj` = name of the receiver, e.g. "self", for constructors): a store
    `obj.f = v` -- through any local alias of obj -- binds the key "obj.f",
    later loads of obj.f read it back, `a or b` / `a and b` in an assigned value
    fork on the value, `with` blocks run their body, and every executed call that
    may reach obj (a method of obj, obj passed as an argument) is given to
    `effects(call)` which returns the names of the fields it may store (those are
    unknown afterwards; None = any field, then the key "obj.*" is bound too) or
    raises AnalysisError.  Each EvalPath carries the final
    bindings in `.env`."""
    results = []
    fresh = [0]

    def unknown():
        fresh[0] += 1
        return ast.Name(id="UNKNOWN__%d" % fresh[0], ctx=ast.Load())

    def emit(conds, kind, value, node, stores, env):
        p = EvalPath(conds, kind, value, node, stores)
        p.env = env
        results.append(p)

    def reaches_obj(call):
        """the (substituted) call is a method call on obj or hands obj itself
        (or its attribute dictionary) to the callee"""
        f = call.func
        if isinstance(f, ast.Attribute) and isinstance(f.value, ast.Name) and f.value.id == obj:
            return True
        inner = set()
        for a in list(call.args) + [k.value for k in call.keywords]:
            for x in ast.walk(a):
                if isinstance(x, ast.Attribute) and isinstance(x.value, ast.Name) and x.value.id == obj and x.attr != "__dict__":
                    inner.add(id(x.value))
            for x in ast.walk(a):
                if isinstance(x, ast.Name) and x.id == obj and id(x) not in inner:
                    return True
        return False

    def own_exprs(st):
        if isinstance(st, ast.If):
            return [st.test]
        if isinstance(st, ast.For):
            return [st.iter]
        if isinstance(st, ast.With):
            return [it.context_expr for it in st.items]
        if isinstance(st, (ast.Expr, ast.Assign, ast.AnnAssign, ast.AugAssign, ast.Return, ast.Raise)):
            return [st]
        return []

    def call_effects(st, env):
        """object mode: bindings after the calls evaluated by statement st itself"""
        for root in own_exprs(st):
            todo = [root]
            while todo:
                x = todo.pop()
                if isinstance(x, ast.Lambda):
                    continue
                todo.extend(ast.iter_child_nodes(x))
                if not isinstance(x, ast.Call):
                    continue
                f = x.func
                if isinstance(f, ast.Attribute) and isinstance(f.value, ast.Name) and isinstance(env.get(f.value.id), (ast.Dict, ast.List, ast.Set)) \
                        and f.attr not in _READONLY_METHODS and not (isinstance(st, ast.Expr) and st.value is x and f.attr in MUTATORS):
                    raise AnalysisError("%s: a container the evaluator tracks by value is mutated: %s" % (what, txt(x)))
                c2 = subst(x, env)
                if is_log_call(x):
                    continue  # logging is transparent
                if reaches_obj(c2):
                    if effects is None:
                        raise AnalysisError("%s: cannot tell what %s does to %s" % (what, txt(x), obj))
                    killed = effects(c2)
                    env = dict(env)
                    if killed is None:
                        # anything may have been stored: every field, also those not bound yet
                        for k in [k for k in env if k.startswith(obj + ".")]:
                            env[k] = unknown()
                        env[obj + ".*"] = unknown()
                    else:
                        for fld in killed:
                            env[obj + "." + fld] = unknown()
        return env

    def guard():
        if len(results) > max_paths:
            raise AnalysisError("%s: more than %d paths" % (what, max_paths))

    def evs(e, env, conds, do_fold=True):
        """[(value, conds)]: every way the expression can evaluate"""
        e = subst(e, env)
        out = []
        todo = [(e, conds)]
        while todo:
            cur, cs = todo.pop(0)
            x = _first_ifexp(cur)
            if x is None:
                out.append((fold(cur, hook, consts) if do_fold else cur, cs))
                continue
            for tval, cs2 in evs(x.test, {}, cs):
                d = decide(tval, cs2)
                if d is None:
                    todo.append((_replace_copy(cur, x, x.body), cs2 + [(tval, True)]))
                    todo.append((_replace_copy(cur, x, x.orelse), cs2 + [(tval, False)]))
                else:
                    todo.append((_replace_copy(cur, x, x.body if d else x.orelse), cs2))
            if len(todo) + len(out) > max_paths:
                raise AnalysisError("%s: more than %d alternatives of one expression" % (what, max_paths))
        return out

    def _replace_copy(root, old, new):
        # copy `root` with the node `old` replaced by (a copy of) `new`
        memo = {id(old): copy.deepcopy(new)}
        return copy.deepcopy(root, memo)

    def block(stmts, states):
        for st in stmts:
            nxt = []
            for s in states:
                if s[3] is not None:
                    nxt.append(s)  # a pending break/continue skips the rest of the block
                else:
                    nxt.extend(step(st, *s[:3]))
            states = nxt
            if len(states) + len(results) > max_paths:
                raise AnalysisError("%s: more than %d paths" % (what, max_paths))
        return states

    def assign(env, target, value):
        if isinstance(target, ast.Name):
            env[target.id] = value
            return True
        if obj is not None and isinstance(target, ast.Attribute):
            t2 = subst(target, env)
            if isinstance(t2.value, ast.Name) and t2.value.id == obj:
                env[obj + "." + t2.attr] = value
                return True
        if isinstance(target, (ast.Tuple, ast.List)):
            if any(isinstance(t, ast.Starred) for t in target.elts):
                return False
            if isinstance(value, (ast.Tuple, ast.List)) and len(value.elts) == len(target.elts) and not any(isinstance(v, ast.Starred) for v in value.elts):
                return all(assign(env, t, v) for t, v in zip(target.elts, value.elts))
            return all(assign(env, t, ast.Subscript(value=copy.deepcopy(value), slice=ast.Constant(value=i), ctx=ast.Load())) for i, t in enumerate(target.elts))
        return False

    def const_sequence(e):
        """elements of a constant sequence a `for` iterates over, else None"""
        if isinstance(e, (ast.Tuple, ast.List)) and not any(isinstance(x, ast.Starred) for x in e.elts):
            return list(e.elts)
        c = None
        if isinstance(e, ast.Name) and consts is not None:
            c = consts(e.id)
            if isinstance(c, (ast.Tuple, ast.List)) and _is_literal_tree(c):
                return [copy.deepcopy(x) for x in c.elts]
            if isinstance(c, ast.Dict) and _is_literal_tree(c):
                return [copy.deepcopy(k) for k in c.keys]
        if isinstance(e, ast.Dict) and all(k is not None for k in e.keys):
            return list(e.keys)
        if isinstance(e, ast.Call) and isinstance(e.func, ast.Attribute) and not e.args and not e.keywords and e.func.attr in ("items", "keys", "values"):
            d = e.func.value
            inline = isinstance(d, ast.Dict)  # a display evaluated right here: its elements are what is iterated
            if isinstance(d, ast.Name) and consts is not None:
                d = consts(d.id)
            if isinstance(d, ast.Dict) and all(k is not None for k in d.keys) and (inline or _is_literal_tree(d)):
                if e.func.attr == "keys":
                    return [copy.deepcopy(k) for k in d.keys]
                if e.func.attr == "values":
                    return [copy.deepcopy(v) for v in d.values]
                return [ast.Tuple(elts=[copy.deepcopy(k), copy.deepcopy(v)], ctx=ast.Load()) for k, v in zip(d.keys, d.values)]
        if isinstance(e, ast.Call) and isinstance(e.func, ast.Name) and e.func.id in ("reversed", "tuple", "list", "sorted") and len(e.args) == 1 and not e.keywords:
            inner = const_sequence(e.args[0])
            if inner is None:
                return None
            if e.func.id == "reversed":
                return inner[::-1]
            if e.func.id == "sorted":
                try:
                    vals = [norm.consteval(x) for x in inner]
                    order = sorted(range(len(inner)), key=lambda i: vals[i])
                except Exception:
                    return None
                return [inner[i] for i in order]
            return inner
        if isinstance(e, ast.Call) and isinstance(e.func, ast.Name) and e.func.id == "range" and not e.keywords and 1 <= len(e.args) <= 3:
            try:
                a = [norm.consteval(x) for x in e.args]
            except Exception:
                return None
            if all(isinstance(x, int) for x in a) and len(range(*a)) <= MAX_UNROLL:
                return [ast.Constant(value=i) for i in range(*a)]
        # any other pure expression over literals and immutable module constants
        # (`sorted(T.items(), reverse=True)`, `zip(A, B)`, `enumerate(T, 13)`, a
        # comprehension over a table, `A + B`): the checker's own evaluator
        # computes the sequence of elements the loop sees, in order
        try:
            v = pure_value(e, {}, consts if consts is not None else (lambda nm: None))
            elts = [literal_of(x) for x in _pure_iter(v)]
        except NotPure:
            return None
        if any(x is None for x in elts):
            return None
        return elts

    def step(st, env, conds, stores):
        if isinstance(st, (ast.Pass, ast.Assert, ast.Import, ast.ImportFrom, ast.Global, ast.Nonlocal)):
            return [(env, conds, stores, None)]
        if obj is not None:
            env = call_effects(st, env)
            if isinstance(st, (ast.Assign, ast.AnnAssign, ast.Return)) and st.value is not None:
                st = copy.copy(st)
                st.value = boolops_as_ifexp(st.value)
            if isinstance(st, ast.With):
                if any(isinstance(x, (ast.Raise, ast.Return, ast.Break, ast.Continue)) for b in st.body for x in ast.walk(b)):
                    raise AnalysisError("%s: a jump inside a `with` block (the context manager may intercept it)" % what)
                env2 = dict(env)
                for it in st.items:
                    if it.optional_vars is not None and not assign(env2, it.optional_vars, unknown()):
                        raise AnalysisError("%s: cannot bind %s" % (what, txt(it.optional_vars)))
                return block(st.body, [(env2, conds, stores, None)])
        if isinstance(st, ast.Break):
            return [(env, conds, stores, "break")]
        if isinstance(st, ast.Continue):
            return [(env, conds, stores, "continue")]
        if isinstance(st, ast.Expr):
            v = st.value
            if isinstance(v, ast.Constant):
                return [(env, conds, stores, None)]
            if isinstance(v, ast.Call) and isinstance(v.func, ast.Attribute) and isinstance(v.func.value, ast.Name) and v.func.value.id in env:
                nm = v.func.value.id
                cur = env[nm]
                if v.func.attr in MUTATORS and isinstance(cur, ast.List) and len(v.args) == 1 and not v.keywords:
                    out = []
                    for a, c2 in evs(v.args[0], env, conds):
                        env2 = dict(env)
                        if v.func.attr == "append":
                            env2[nm] = ast.List(elts=cur.elts + [a], ctx=ast.Load())
                        elif isinstance(a, (ast.List, ast.Tuple)):
                            env2[nm] = ast.List(elts=cur.elts + list(a.elts), ctx=ast.Load())
                        else:
                            raise AnalysisError("%s: cannot interpret %s" % (what, txt(st)))
                        out.append((env2, c2, stores, None))
                    return out
                if is_log_call(v):
                    return [(env, conds, stores, None)]
                if obj is not None and not isinstance(cur, (ast.List, ast.Dict, ast.Set)):
                    return [(env, conds, stores, None)]  # a call on a value that is not tracked as a container
                raise AnalysisError("%s: method call on a tracked local is outside the evaluator's vocabulary: %s" % (what, txt(st)))
            return [(env, conds, stores, None)]
        if isinstance(st, ast.Assign):
            out = []
            for val, c2 in evs(st.value, env, conds):
                env2 = dict(env)
                st2 = stores
                for t in st.targets:
                    if not assign(env2, t, val):
                        st2 = st2 + [(subst(t, env2), val)]
                out.append((env2, c2, st2, None))
            return out
        if isinstance(st, ast.AnnAssign):
            if st.value is None:
                return [(env, conds, stores, None)]
            out = []
            for val, c2 in evs(st.value, env, conds):
                env2 = dict(env)
                st2 = stores
                if not assign(env2, st.target, val):
                    st2 = st2 + [(subst(st.target, env2), val)]
                out.append((env2, c2, st2, None))
            return out
        if isinstance(st, ast.AugAssign):
            out = []
            if isinstance(st.target, ast.Name):
                cur = env.get(st.target.id, ast.Name(id=st.target.id, ctx=ast.Load()))
                for val, c2 in evs(st.value, env, conds):
                    env2 = dict(env)
                    env2[st.target.id] = fold(ast.BinOp(left=copy.deepcopy(cur), op=st.op, right=val), hook, consts)
                    out.append((env2, c2, stores, None))
            else:
                tgt = copy.deepcopy(st.target)
                for n in ast.walk(tgt):
                    if hasattr(n, "ctx"):
                        n.ctx = ast.Load()
                for val, c2 in evs(ast.BinOp(left=tgt, op=st.op, right=st.value), env, conds):
                    env2 = dict(env)
                    if not (obj is not None and assign(env2, st.target, val)):
                        env2 = dict(env)
                    out.append((env2, c2, stores + [(subst(st.target, env), val)], None))
            return out
        if isinstance(st, ast.If):
            out = []
            for t, c2 in evs(st.test, env, conds):
                d = decide(t, c2)
                if d is not None:
                    out += block(st.body if d else st.orelse, [(dict(env), c2, list(stores), None)])
                else:
                    out += block(st.body, [(dict(env), c2 + [(t, True)], list(stores), None)])
                    out += block(st.orelse, [(dict(env), c2 + [(t, False)], list(stores), None)])
            return out
        if isinstance(st, ast.For):
            out = []
            for it, c2 in evs(st.iter, env, conds):
                elts = const_sequence(it)
                if elts is None or len(elts) > MAX_UNROLL:
                    raise AnalysisError("%s: `for` over something that is not a constant sequence: %s" % (what, txt(st.iter)))
                live = [(dict(env), c2, list(stores), None)]
                done = []
                for x in elts:
                    nxt = []
                    for env2, c3, s3, _ in live:
                        env3 = dict(env2)
                        if not assign(env3, st.target, fold(copy.deepcopy(x), hook, consts)):
                            raise AnalysisError("%s: cannot bind the loop target of %s" % (what, txt(st.target)))
                        nxt.append((env3, c3, s3, None))
                    live = []
                    for s in block(st.body, nxt):
                        if s[3] == "break":
                            done.append(s[:3] + (None,))
                        else:
                            live.append(s[:3] + (None,))
                    guard()
                out += done
                out += block(st.orelse, live) if st.orelse else live
            return out
        if isinstance(st, ast.Return):
            if st.value is None:
                emit(conds, "return", None, st, stores, env)
            else:
                for v, c2 in evs(st.value, env, conds):
                    emit(c2, "return", v, st, stores, env)
            guard()
            return []
        if isinstance(st, ast.Raise):
            emit(conds, "raise", subst(st.exc, env) if st.exc is not None else None, st, stores, env)
            return []
        raise AnalysisError("%s: statement kind %s is outside the path evaluator's vocabulary" % (what, type(st).__name__))

    for env, conds, stores, ctl in block(fnode.body, [(dict(env0 or {}), [], [], None)]):
        if ctl is not None:
            raise AnalysisError("%s: break/continue outside a loop" % what)
        emit(conds, "return", None, fnode, stores, env)
    return results


# ---------------------------------------------------------------------------
# loop fusion: a processing loop whose body (or part of it) was moved into a
# step function -- `while self._step(): pass`, `if not self._step(): break`,
# `x = self._next(); if x is None: break; ...` -- is put back together, so
# that the rules see one loop.  The rewrite is the textbook inlining of a call
# that stands at the top level of a loop body:
#
#     while C:                                while C:
#         pre                                     pre
#         x = H(a)              ==>               p = a
#         rest                                    <body of H, each `return e`
#                                                  replaced by  x = e; rest; continue>
#
# (`rest; continue` is exactly what follows the call in the original loop: the
# remaining statements of the iteration, then the next evaluation of C.)  The
# `if [not] H(a): A else: B` form is handled alike with `if [not] e: A else: B`,
# and `while [not] H(a): body` is first written `while True: if [not] H(a): body
# else: break`.  A tail call `H(a)` as the last statement of the function is
# replaced by the body of H.  When `e` is a constant, the tests on x that open
# `rest` are decided.  Nothing else is changed; H's locals are renamed apart.
#
# A call that stands deeper in the iteration, inside `if` statements only
# (`if frame: self._handle(frame)`), is first brought to that form by the exact
# rewrite
#
#     if c: A            if c: A; Z; continue
#     else: B     ==>    else: B; Z; continue
#     Z
#
# (Z = the statements that follow the `if` up to the end of the iteration; a
# branch that already ends in return/raise/break/continue is left alone), after
# which the block holding the call is followed by nothing but the next
# iteration.  A call inside try/with/for blocks of the loop body is not moved
# (what follows it would change its exception context): FuseError.
#
# fuse() is applied once per *anchor* (the sizing of the spool, the decoding of
# the frame, the dispatch, the signalling processing): wherever the framing
# loop was cut, the rules see the whole iteration.  This is what makes a
# `return` that only leaves the step function -- while the loop goes on with
# the next frame -- visible as what it is: `continue`.


class FuseError(AnalysisError):
    pass


def _own_walk(stmts):
    """nodes of a statement list, not entering nested defs / lambdas / classes"""
    todo = list(stmts)
    while todo:
        n = todo.pop()
        yield n
        if isinstance(n, (ast.FunctionDef, ast.AsyncFunctionDef, ast.Lambda, ast.ClassDef)):
            continue
        todo.extend(ast.iter_child_nodes(n))


def _terminates(body):
    if not body:
        return False
    last = body[-1]
    if isinstance(last, (ast.Return, ast.Raise, ast.Continue, ast.Break)):
        return True
    if isinstance(last, ast.If):
        return _terminates(last.body) and _terminates(last.orelse)
    if isinstance(last, ast.Try):
        if last.finalbody and _terminates(last.finalbody):
            return True
        main = _terminates(last.orelse) if last.orelse else _terminates(last.body)
        return main and all(_terminates(h.body) for h in last.handlers)
    if isinstance(last, (ast.With, ast.AsyncWith)):
        return _terminates(last.body)
    return False


def callee_of(prog, fi, call):
    """FuncInfo of a statically bound callee: a method called on `self` that no
    related class overrides, or a function of the module / an imported one."""
    f = call.func
    owner = fi
    while owner is not None and owner.cls is None and owner.parent is not None:
        owner = owner.parent
    if isinstance(f, ast.Attribute) and isinstance(f.value, ast.Name) and f.value.id == "self" and owner is not None and owner.cls is not None:
        m = prog.lookup_method(owner.cls.qn, f.attr)
        if m is None:
            return None
        related = set(prog.mro(owner.cls.qn)) | set(prog.subclasses(owner.cls.qn))
        definers = [q for q in related if q in prog.classes and f.attr in prog.classes[q].methods]
        if len(definers) != 1:
            return None  # dynamically dispatched
        return m
    if isinstance(f, ast.Name):
        q = prog.resolve_in_module(fi.module, f.id)
        return prog.funcs.get(q)
    return None


def _bound_names(fn):
    out = set()
    a = fn.args
    for x in a.posonlyargs + a.args + a.kwonlyargs:
        out.add(x.arg)
    if a.vararg:
        out.add(a.vararg.arg)
    if a.kwarg:
        out.add(a.kwarg.arg)
    for n in _own_walk(fn.body):
        if isinstance(n, ast.Name) and isinstance(n.ctx, (ast.Store, ast.Del)):
            out.add(n.id)
        elif isinstance(n, ast.ExceptHandler) and n.name:
            out.add(n.name)
        elif isinstance(n, (ast.FunctionDef, ast.AsyncFunctionDef, ast.ClassDef)):
            out.add(n.name)
    return out


def _all_names(fn):
    return {n.id for n in ast.walk(fn) if isinstance(n, ast.Name)} | {n.arg for n in ast.walk(fn) if isinstance(n, ast.arg)} | \
        {n.name for n in ast.walk(fn) if isinstance(n, ast.ExceptHandler) and n.name}


class _Rename(ast.NodeTransformer):
    def __init__(self, ren):
        self.ren = ren

    def visit_Name(self, n):
        if n.id in self.ren:
            return ast.copy_location(ast.Name(id=self.ren[n.id], ctx=n.ctx), n)
        return n

    def visit_ExceptHandler(self, n):
        if n.name in self.ren:
            n.name = self.ren[n.name]
        return self.generic_visit(n)

    def visit_Lambda(self, n):
        bound = {x.arg for x in n.args.posonlyargs + n.args.args + n.args.kwonlyargs}
        saved = self.ren
        self.ren = {k: v for k, v in saved.items() if k not in bound}
        self.generic_visit(n)
        self.ren = saved
        return n


def _const_truth_tests(test, x, cv):
    """truth of a test that only asks about local x, given x == cv (a constant); None = open"""
    pol = True
    while isinstance(test, ast.UnaryOp) and isinstance(test.op, ast.Not):
        test = test.operand
        pol = not pol
    if isinstance(test, ast.Name) and test.id == x:
        return bool(cv) == pol
    if isinstance(test, ast.Compare) and len(test.ops) == 1:
        l, op, r = test.left, test.ops[0], test.comparators[0]
        if isinstance(r, ast.Name) and r.id == x and isinstance(l, ast.Constant) and isinstance(op, (ast.Is, ast.IsNot, ast.Eq, ast.NotEq)):
            l, r = r, l
        if isinstance(l, ast.Name) and l.id == x and isinstance(r, ast.Constant):
            k = r.value
            if isinstance(op, (ast.Is, ast.IsNot)):
                if k is None or isinstance(k, bool) or cv is None or isinstance(cv, bool):
                    res = (cv is k) if (k is None or isinstance(k, bool)) and (cv is None or isinstance(cv, bool)) else False
                    return res == (pol if isinstance(op, ast.Is) else not pol)
                return None
            if isinstance(op, (ast.Eq, ast.NotEq)):
                res = cv == k
                return res == (pol if isinstance(op, ast.Eq) else not pol)
    return None


def _specialise(rest, x, cv):
    """`rest` with its leading tests on x decided for x == cv"""
    out = []
    for i, st in enumerate(rest):
        if isinstance(st, ast.If):
            d = _const_truth_tests(st.test, x, cv)
            if d is not None:
                chosen = st.body if d else st.orelse
                chosen = _specialise(chosen, x, cv)
                out.extend(chosen)
                if _terminates(chosen):
                    return out
                if any(isinstance(n, ast.Name) and n.id == x and isinstance(n.ctx, (ast.Store, ast.Del)) for n in _own_walk(chosen)):
                    out.extend(rest[i + 1 :])
                    return out
                continue
        out.extend(rest[i:])
        return out
    return out


def _const_of(e):
    if isinstance(e, ast.Constant):
        return True, e.value
    return False, None


def _has_effect(e):
    return any(isinstance(n, (ast.Call, ast.Await, ast.Yield, ast.YieldFrom, ast.NamedExpr)) for n in ast.walk(e))


def _expand_at(prog, fi, fn, block, idx, callee, mode):
    """Rewrite (in place, on the copy `fn`) the statement block[idx] that
    calls `callee`; mode: 'loop' (block is a statement list of a loop body whose
    end is followed by the next iteration) | 'tail' (last statement of the
    function; block is fn.body)."""
    body = block
    st = body[idx]
    rest = body[idx + 1 :]
    neg = False
    if isinstance(st, ast.Expr):
        call, kind, x = st.value, "expr", None
    elif isinstance(st, ast.Assign) and len(st.targets) == 1 and isinstance(st.targets[0], ast.Name):
        call, kind, x = st.value, "assign", st.targets[0].id
    elif isinstance(st, ast.Return) and mode == "tail":
        call, kind, x = st.value, "return", None
    elif isinstance(st, ast.If):
        t = st.test
        while isinstance(t, ast.UnaryOp) and isinstance(t.op, ast.Not):
            t = t.operand
            neg = not neg
        call, kind, x = t, "if", None
    else:
        raise FuseError("cannot expand the call in %s" % txt(st))
    if not isinstance(call, ast.Call):
        raise FuseError("cannot expand %s" % txt(st))
    h = callee.node
    if isinstance(h, ast.AsyncFunctionDef) or any(isinstance(n, (ast.Yield, ast.YieldFrom, ast.Await, ast.Global, ast.Nonlocal)) for n in _own_walk(h.body)):
        raise FuseError("%s is a coroutine / generator" % callee.short)
    a = h.args
    if a.vararg or a.kwarg or a.posonlyargs or any(isinstance(x_, ast.Starred) for x_ in call.args) or any(k.arg is None for k in call.keywords):
        raise FuseError("%s is called with / takes star arguments" % callee.short)
    ps = [p.arg for p in a.args]
    is_method = callee.cls is not None and not any(txt(d) in ("staticmethod", "classmethod") for d in h.decorator_list)
    if h.decorator_list and not is_method:
        raise FuseError("%s is decorated" % callee.short)
    if is_method and h.decorator_list:
        raise FuseError("%s is decorated" % callee.short)
    hb = copy.deepcopy(h.body)
    if hb and isinstance(hb[0], ast.Expr) and isinstance(hb[0].value, ast.Constant) and isinstance(hb[0].value.value, str):
        hb = hb[1:]
    # returns inside loops of the helper cannot become continue/break of ours
    def check(stmts, in_loop, in_finally):
        for s in stmts:
            if isinstance(s, ast.Return) and ((in_loop and mode == "loop") or in_finally):
                raise FuseError("%s returns from inside a loop / finally block" % callee.short)
            if isinstance(s, (ast.FunctionDef, ast.AsyncFunctionDef, ast.ClassDef)):
                continue
            for fld in ("body", "orelse"):
                sub = getattr(s, fld, None)
                if isinstance(sub, list) and sub and isinstance(sub[0], ast.stmt):
                    check(sub, in_loop or isinstance(s, (ast.For, ast.While, ast.AsyncFor)), in_finally)
            for hd in getattr(s, "handlers", []) or []:
                check(hd.body, in_loop, in_finally)
            if getattr(s, "finalbody", None):
                check(s.finalbody, in_loop, True)
            for c in getattr(s, "cases", []) or []:
                check(c.body, in_loop, in_finally)
    check(hb, False, False)
    # bind parameters
    taken = _all_names(fn)
    ren = {}
    hlocals = _bound_names(h)
    prelude = []
    bound = {}
    pos = list(call.args)
    if is_method:
        if not ps or not (isinstance(call.func, ast.Attribute) and isinstance(call.func.value, ast.Name) and call.func.value.id == ps[0] == "self"):
            raise FuseError("receiver of %s is not self" % txt(call.func))
        hlocals.discard(ps[0])
        ps = ps[1:]
    if len(pos) > len(ps):
        raise FuseError("too many arguments for %s" % callee.short)
    for p, v in zip(ps, pos):
        bound[p] = v
    allps = ps + [k.arg for k in a.kwonlyargs]
    for k in call.keywords:
        if k.arg not in allps or k.arg in bound:
            raise FuseError("cannot bind keyword %s of %s" % (k.arg, callee.short))
        bound[k.arg] = k.value
    defaults = dict(zip([p.arg for p in a.args][len(a.args) - len(a.defaults) :], a.defaults))
    for k, d in zip(a.kwonlyargs, a.kw_defaults):
        if d is not None:
            defaults[k.arg] = d
    for name in sorted(hlocals):
        if name in taken:
            k = 1
            while "%s_f%d" % (name, k) in taken:
                k += 1
            ren[name] = "%s_f%d" % (name, k)
            taken.add(ren[name])
        else:
            taken.add(name)
    for p in allps:
        if p in bound:
            v = bound[p]
        elif p in defaults:
            v = copy.deepcopy(defaults[p])
        else:
            raise FuseError("parameter %s of %s is unbound" % (p, callee.short))
        prelude.append(ast.Assign(targets=[ast.Name(id=ren.get(p, p), ctx=ast.Store())], value=v))
    rn = _Rename(ren)
    hb = [rn.visit(s) for s in hb]

    def on_return(e):
        e = e if e is not None else ast.Constant(value=None)
        isc, cv = _const_of(e)
        out = []
        if mode == "tail":
            if kind == "return":
                return [ast.Return(value=e)]
            if kind == "expr":
                return ([ast.Expr(value=e)] if _has_effect(e) else []) + [ast.Return(value=None)]
            raise FuseError("tail expansion of %s" % txt(st))
        if kind == "expr":
            if _has_effect(e):
                out.append(ast.Expr(value=e))
            out.extend(copy.deepcopy(rest))
        elif kind == "assign":
            out.append(ast.Assign(targets=[ast.Name(id=x, ctx=ast.Store())], value=e))
            r2 = copy.deepcopy(rest)
            out.extend(_specialise(r2, x, cv) if isc else r2)
        else:
            if isc:
                out.extend(copy.deepcopy(st.body if bool(cv) != neg else st.orelse))
            else:
                t = ast.UnaryOp(op=ast.Not(), operand=e) if neg else e
                out.append(ast.If(test=t, body=copy.deepcopy(st.body) or [ast.Pass()], orelse=copy.deepcopy(st.orelse)))
            if not _terminates(out):
                out.extend(copy.deepcopy(rest))
        if not _terminates(out):
            out.append(ast.Continue())
        return out

    def rewrite(stmts):
        out = []
        for s in stmts:
            if isinstance(s, ast.Return):
                out.extend(on_return(s.value))
                return out
            if isinstance(s, (ast.FunctionDef, ast.AsyncFunctionDef, ast.ClassDef)):
                out.append(s)
                continue
            for fld in ("body", "orelse", "finalbody"):
                sub = getattr(s, fld, None)
                if isinstance(sub, list) and sub and isinstance(sub[0], ast.stmt):
                    setattr(s, fld, rewrite(sub))
            for hd in getattr(s, "handlers", []) or []:
                hd.body = rewrite(hd.body)
            for c in getattr(s, "cases", []) or []:
                c.body = rewrite(c.body)
            out.append(s)
        return out

    new = rewrite(hb)
    if not _terminates(new):
        new.extend(on_return(None))
    new = prelude + new
    for s in new:
        for n in ast.walk(s):
            if isinstance(n, (ast.stmt, ast.expr)) and not hasattr(n, "lineno"):
                ast.copy_location(n, st)
        ast.fix_missing_locations(s)
    body[idx:] = new


def _sink_into_branches(block, i):
    """block[i] is an `if` inside an iteration whose end (of block) is followed by
    the next iteration: move what follows it into both branches (exact, see the
    header comment); afterwards either branch is such a block itself."""
    st = block[i]
    z = block[i + 1 :]
    for fld in ("body", "orelse"):
        br = getattr(st, fld)
        if not _terminates(br):
            br.extend(copy.deepcopy(z))
        if not _terminates(br):
            br.append(ast.copy_location(ast.Continue(), st))
    del block[i + 1 :]
    ast.fix_missing_locations(st)


def _call_stmt_sites(prog, fi, fn, wanted):
    """(block, index, callee, mode) of the first statement that calls a
    function for which wanted(callee) holds: in a loop body, at its top level or
    inside `if` statements only (after `while H():` has been put into the
    `while True: if H(): .. else: break` form, and after the statements following
    the enclosing `if`s were moved into their branches), or as the last statement
    of the function."""
    def call_in(st):
        if isinstance(st, ast.Expr):
            e = st.value
        elif isinstance(st, ast.Assign) and len(st.targets) == 1 and isinstance(st.targets[0], ast.Name):
            e = st.value
        elif isinstance(st, ast.Return):
            e = st.value
        elif isinstance(st, ast.If):
            e = st.test
            while isinstance(e, ast.UnaryOp) and isinstance(e.op, ast.Not):
                e = e.operand
        else:
            return None
        return e if isinstance(e, ast.Call) else None

    def direct(st):
        if isinstance(st, ast.Return):
            return None
        e = call_in(st)
        if e is not None:
            c = callee_of(prog, fi, e)
            if c is not None and wanted(c):
                return c
        return None

    def holds(st):
        """the `if` nest st contains a wanted call statement (through ifs only)"""
        if direct(st) is not None:
            return True
        if isinstance(st, ast.If):
            return any(holds(x) for x in st.body + st.orelse)
        return False

    def descend(block):
        for i, st in enumerate(block):
            c = direct(st)
            if c is not None:
                return block, i, c, "loop"
            if isinstance(st, ast.If) and holds(st):
                _sink_into_branches(block, i)
                for br in (st.body, st.orelse):
                    r = descend(br)
                    if r is not None:
                        return r
        return None

    for n in _own_walk(fn.body):
        if isinstance(n, ast.While):
            t = n.test
            while isinstance(t, ast.UnaryOp) and isinstance(t.op, ast.Not):
                t = t.operand
            if isinstance(t, ast.Call) and not n.orelse:
                c = callee_of(prog, fi, t)
                if c is not None and wanted(c):
                    # while T: B   ==   while True: if T: B else: break   (no else clause)
                    n.body = [ast.copy_location(ast.If(test=n.test, body=n.body, orelse=[ast.copy_location(ast.Break(), n)]), n)]
                    n.test = ast.copy_location(ast.Constant(value=True), n)
                    ast.fix_missing_locations(n)
                    return n.body, 0, c, "loop"
        if isinstance(n, (ast.While, ast.For)):
            r = descend(n.body)
            if r is not None:
                return r
    if fn.body:
        st = fn.body[-1]
        e = call_in(st) if isinstance(st, (ast.Expr, ast.Return)) else None
        if e is not None:
            c = callee_of(prog, fi, e)
            if c is not None and wanted(c):
                return fn.body, len(fn.body) - 1, c, "tail"
    return None


def fuse(prog, fi, contains_anchor, max_rounds=4, required=True):
    """A FuncInfo for a copy of fi in which the statically bound callees that
    (transitively) contain the anchor have been expanded at loop-body / tail
    statements, or fi itself when its own body already contains the anchor.
    contains_anchor(FuncInfo) -> bool looks at one function's own body.
    required=False: when no statically bound callee of fi contains the anchor
    either (the anchor does not exist at all), fi is returned unchanged and the
    caller's clauses decide what its absence means."""
    if contains_anchor(fi):
        return fi, []

    def wanted(c, depth=0, seen=()):
        if c.qn in seen or depth > 3:
            return False
        if contains_anchor(c):
            return True
        for call in [n for n in _own_walk(c.node.body) if isinstance(n, ast.Call)]:
            d = callee_of(prog, c, call)
            if d is not None and d is not c and wanted(d, depth + 1, seen + (c.qn,)):
                return True
        return False

    fn = copy.deepcopy(fi.node)
    cur = FuncInfo(fi.qn, fn, fi.module, fi.cls, fi.parent)
    log = []
    for _ in range(max_rounds):
        if contains_anchor(cur):
            return cur, log
        site = _call_stmt_sites(prog, cur, fn, wanted)
        if site is None:
            break
        block, idx, callee, mode = site
        _expand_at(prog, cur, fn, block, idx, callee, mode)
        log.append(callee.short)
        cur = FuncInfo(fi.qn, fn, fi.module, fi.cls, fi.parent)
    if contains_anchor(cur):
        return cur, log
    if not required:
        reachable = False
        for call in [n for n in _own_walk(fn.body) if isinstance(n, ast.Call)]:
            d = callee_of(prog, cur, call)
            if d is not None and wanted(d):
                reachable = True
        if not reachable:
            return (cur, log) if log else (fi, [])
    raise FuseError("the anchor is not in %s nor in a step function called (outside try/with blocks) in one of its loops" % fi.short)


# ---------------------------------------------------------------------------
# names bound by `for` over a literal sequence: joint alternatives


def literal_elements(e, consts=None):
    """elements of a tuple / list display (or of an immutable module constant), else None"""
    if isinstance(e, ast.Name) and consts is not None:
        c = consts(e.id)
        if c is not None:
            e = c
    if isinstance(e, (ast.Tuple, ast.List)) and not any(isinstance(x, ast.Starred) for x in e.elts):
        return list(e.elts)
    return None


def _bind_target(target, value, env):
    if isinstance(target, ast.Name):
        env[target.id] = value
        return True
    if isinstance(target, (ast.Tuple, ast.List)) and isinstance(value, (ast.Tuple, ast.List)) and len(target.elts) == len(value.elts) \
            and not any(isinstance(x, ast.Starred) for x in list(target.elts) + list(value.elts)):
        return all(_bind_target(t, v, env) for t, v in zip(target.elts, value.elts))
    return False


def loop_alternatives(e, for_of_name, elements_of):
    """Values expression e takes over the iterations of the enclosing `for`
    loops over literal sequences that bind names occurring in e.
    for_of_name(Name node) -> ast.For | None (the loop whose target is the
    unique reaching definition of the name); elements_of(For) -> [expr] | None.
    -> [(expr, {id(For): element index})]; names of loops over non-literal
    iterables stay as they are."""
    fors = {}
    for n in ast.walk(e):
        if isinstance(n, ast.Name) and isinstance(n.ctx, ast.Load):
            f = for_of_name(n)
            if f is not None and id(f) not in fors:
                el = elements_of(f)
                if el is not None:
                    fors[id(f)] = (f, el)
    alts = [({}, {})]
    for fid, (f, el) in fors.items():
        nxt = []
        for env, idx in alts:
            for i, x in enumerate(el):
                env2 = dict(env)
                if not _bind_target(f.target, x, env2):
                    return [(e, {})]
                idx2 = dict(idx)
                idx2[fid] = i
                nxt.append((env2, idx2))
        alts = nxt
    return [(fold(subst(e, env)), idx) for env, idx in alts]


def runs_every_iteration(cfg, for_stmt, nid):
    """nid lies in the body of the `for` and every pass through the body (normal
    flow) executes it before the loop is continued or left"""
    heads = cfg.locate(for_stmt)
    if len(heads) != 1:
        return False
    head = heads[0]
    ts = [d for d, lab in cfg.succ[head] if lab == "T"]
    if len(ts) != 1:
        return False
    t = ts[0]
    if nid not in cfg.reach({t}, avoid={head}):
        return False
    return cfg.must_pass(t, {nid}, to=head) and cfg.must_pass(t, {nid}, to=cfg.exit)


# ---------------------------------------------------------------------------
# membership premise for dict subscripts (exempts a KeyError site of the
# escape analysis after the structural premise has been checked)

_PURE_BUILTINS = {"len", "isinstance", "int", "bool", "bytes", "str", "min", "max", "abs", "type", "repr"}


def _is_harmless_call(c):
    return is_log_call(c) or (isinstance(c.func, ast.Name) and c.func.id in _PURE_BUILTINS)


def _evaluated_after(stmt, sub):
    """ids of the nodes of statement `stmt` that are evaluated after the
    expression `sub` (Python evaluates operands left to right, a call after its
    callee and arguments, the right-hand side of an assignment before the
    subexpressions of its targets).  Displays whose child order is not the
    evaluation order (dict displays, comprehensions) count as 'before'."""
    path = []

    def find(n):
        if n is sub:
            path.append(n)
            return True
        for c in ast.iter_child_nodes(n):
            if find(c):
                path.append(n)
                return True
        return False

    if not find(stmt):
        return set()
    path.reverse()  # stmt ... sub
    after = set()
    for a, p in zip(path, path[1:]):
        if isinstance(a, ast.Assign):
            order = [a.value] + list(a.targets)
        elif isinstance(a, ast.AnnAssign):
            order = ([a.value] if a.value is not None else []) + [a.target]
        elif isinstance(a, (ast.Dict, ast.ListComp, ast.SetComp, ast.DictComp, ast.GeneratorExp, ast.Lambda)):
            order = None
        else:
            order = list(ast.iter_child_nodes(a))
        if isinstance(a, (ast.Call, ast.Await)):
            after.add(id(a))
        if order is None:
            continue
        seen = False
        for c in order:
            if c is p:
                seen = True
            elif seen:
                for x in ast.walk(c):
                    after.add(id(x))
    return after


def present_key_reads(fi):
    """Subscript nodes `self.D[k]` (loads) of fi at which the key is known to be
    present: on every path from the entry to the read, after the last statement
    that could change the mapping or the key (any call that is not logging / a
    pure builtin, any await, any store to the mapping, to the key's names or
    to an attribute), one of
        the test `k in self.D` came out true / `k not in self.D` came out false,
        `self.D[k] = ...` or `self.D.setdefault(k, ...)` was executed
    with the same mapping chain and the same key expression (compared as
    syntax trees after following single-assignment locals).  Then the read
    cannot raise KeyError."""
    out = []
    cands = []
    for n in walk_no_nested(fi.node):
        if isinstance(n, ast.Subscript) and isinstance(n.ctx, ast.Load) and not isinstance(n.slice, ast.Slice):
            c = chain(n.value)
            if c and c.startswith("self."):
                cands.append((n, c))
    if not cands:
        return out
    cfg = cfg_of(fi)

    def key_of(e):
        return dump(resolve_local(fi.node, e))

    def node_calls(astnode):
        if astnode is None:
            return []
        root = astnode
        if isinstance(astnode, (ast.For, ast.AsyncFor)):
            root = astnode.iter
        elif isinstance(astnode, (ast.With, ast.AsyncWith)):
            root = ast.Tuple(elts=[i.context_expr for i in astnode.items], ctx=ast.Load())
        elif isinstance(astnode, ast.ExceptHandler):
            return []
        elif isinstance(astnode, (ast.If, ast.While, ast.Try)):
            return []
        return [x for x in walk_no_nested(root) if isinstance(x, (ast.Call, ast.Await, ast.Yield, ast.YieldFrom))]

    for sub, D in cands:
        kd = key_of(sub.slice)
        knames = {x.id for x in ast.walk(resolve_local(fi.node, sub.slice)) if isinstance(x, ast.Name)}
        uses = cfg.locate(sub)
        if not uses:
            continue
        est = set()
        for nd in cfg.nodes:
            if nd.kind in ("T", "F") and isinstance(nd.ast, ast.Compare) and len(nd.ast.ops) == 1 and isinstance(nd.ast.ops[0], (ast.In, ast.NotIn)):
                if chain(nd.ast.comparators[0]) == D and key_of(nd.ast.left) == kd and (nd.kind == "T") == isinstance(nd.ast.ops[0], ast.In):
                    est.add(nd.id)
            elif nd.kind == "stmt" and isinstance(nd.ast, ast.Assign):
                for t in nd.ast.targets:
                    if isinstance(t, ast.Subscript) and not isinstance(t.slice, ast.Slice) and chain(t.value) == D and key_of(t.slice) == kd:
                        est.add(nd.id)
            if nd.kind == "stmt" and isinstance(nd.ast, ast.Expr) and isinstance(nd.ast.value, ast.Call):
                c = nd.ast.value
                if isinstance(c.func, ast.Attribute) and c.func.attr == "setdefault" and chain(c.func.value) == D and c.args and key_of(c.args[0]) == kd:
                    est.add(nd.id)
        if not est:
            continue
        killers = set()
        for nd in cfg.nodes:
            if nd.id in est or nd.ast is None or nd.kind in ("T", "F", "join", "entry", "exit", "rexit"):
                continue
            a = nd.ast
            bad = any(not (isinstance(x, ast.Call) and _is_harmless_call(x)) for x in node_calls(a))
            if not bad and isinstance(a, (ast.stmt, ast.expr)) and not isinstance(a, (ast.If, ast.While, ast.Try, ast.For, ast.AsyncFor, ast.With, ast.AsyncWith)):
                for x in walk_no_nested(a):
                    if isinstance(x, (ast.Attribute, ast.Subscript)) and isinstance(x.ctx, (ast.Store, ast.Del)):
                        bad = True
                    elif isinstance(x, ast.Name) and isinstance(x.ctx, (ast.Store, ast.Del)) and x.id in knames:
                        bad = True
            if isinstance(a, (ast.For, ast.AsyncFor)) and any(isinstance(x, ast.Name) and x.id in knames for x in ast.walk(a.target)):
                bad = True
            if isinstance(a, ast.ExceptHandler) and a.name in knames:
                bad = True
            if bad:
                killers.add(nd.id)
        ok = True
        for u in uses:
            stmt = cfg.nodes[u].ast
            # calls of the reading statement that may run before the read
            after = _evaluated_after(stmt, sub)
            before = [c for c in node_calls(stmt) if id(c) not in after and not (isinstance(c, ast.Call) and _is_harmless_call(c))]
            if before:
                ok = False
                break
            if u in cfg.reach({cfg.entry} | killers, avoid=est - {u}):
                ok = False
                break
        if ok:
            out.append(sub)
    return out


# ---------------------------------------------------------------------------
# threading of tests on a local that was just assigned a constant
#
# Helper expansion (the engine's and ours) turns `return False` of a step
# function into `t = False` followed, at the end of the expanded body, by
# `if not t: break`.  A statement-level CFG does not know that the test is
# decided on that path.  The rewrites below move the test to the assignments
# (exact: the test is executed at the same points of every path, it only reads
# a local, and its arms only jump):
#
#   sink   P; S      ==>  P'        S = `if <test on local x>: jumps [else: jumps]`
#                                   P a compound statement assigning x a constant
#                                   somewhere; P' = P with (a copy of) S appended at
#                                   every point where P completes normally
#   fold   x = c; S  ==>  x = c; <the arm of S chosen by c>
#   rotate x = c; while x: B   ==>  x = c; while True: B'; S   with S = `if not x: break`,
#                                   when c makes the first test true and the loop has no
#                                   else clause; B' = B with S inserted before every
#                                   `continue` of this loop (the next thing a `continue`
#                                   does is that test)


def _test_local(test):
    """name of the only local a test asks about (`x`, `not x`, `x is [not] None`,
    `x == c`, `c == x`), else None"""
    while isinstance(test, ast.UnaryOp) and isinstance(test.op, ast.Not):
        test = test.operand
    if isinstance(test, ast.Name):
        return test.id
    if isinstance(test, ast.Compare) and len(test.ops) == 1 and isinstance(test.ops[0], (ast.Is, ast.IsNot, ast.Eq, ast.NotEq)):
        l, r = test.left, test.comparators[0]
        if isinstance(l, ast.Name) and isinstance(r, ast.Constant):
            return l.id
        if isinstance(r, ast.Name) and isinstance(l, ast.Constant):
            return r.id
    return None


def _only_jumps(stmts):
    for s in stmts:
        if isinstance(s, (ast.Break, ast.Continue, ast.Pass)):
            continue
        if isinstance(s, ast.Return) and (s.value is None or isinstance(s.value, ast.Constant)):
            continue
        return False
    return True


def _is_jump_test(st):
    return isinstance(st, ast.If) and _test_local(st.test) is not None and _only_jumps(st.body) and _only_jumps(st.orelse)


def _const_assign(st, x):
    """(True, value) when st is `x = <constant>`"""
    if isinstance(st, ast.Assign) and len(st.targets) == 1 and isinstance(st.targets[0], ast.Name) and st.targets[0].id == x and isinstance(st.value, ast.Constant):
        return True, st.value.value
    return False, None


def _assigns_const(stmts, x):
    for n in _own_walk(stmts):
        if isinstance(n, ast.stmt) and _const_assign(n, x)[0]:
            return True
    return False


def _apply_test(S, prev, x):
    """statements that S amounts to directly after statement `prev`"""
    isc, cv = _const_assign(prev, x) if prev is not None else (False, None)
    if isc:
        d = _const_truth_tests(S.test, x, cv)
        if d is not None:
            return copy.deepcopy(S.body if d else S.orelse)
    return [copy.deepcopy(S)]


def _sink_block(block, S, x):
    if not block:
        block.extend(_apply_test(S, None, x))
        return
    last = block[-1]
    if isinstance(last, (ast.Return, ast.Raise, ast.Break, ast.Continue)):
        return
    if isinstance(last, ast.If):
        _sink_block(last.body, S, x)
        _sink_block(last.orelse, S, x)
        return
    if isinstance(last, ast.Try) and not last.finalbody:
        _sink_block(last.orelse if last.orelse else last.body, S, x)
        for h in last.handlers:
            _sink_block(h.body, S, x)
        return
    if isinstance(last, ast.With):
        _sink_block(last.body, S, x)
        return
    block.extend(_apply_test(S, last, x))


def thread_tests(fn):
    """apply sink / fold / rotate to the function (in place); -> number of rewrites"""
    count = [0]

    def writes(x):
        return [n for n in _own_walk(fn.body) if isinstance(n, ast.Name) and n.id == x and isinstance(n.ctx, (ast.Store, ast.Del))]

    def const_writes_only(x):
        ok = True
        nconst = 0
        for n in _own_walk(fn.body):
            if isinstance(n, ast.stmt) and _const_assign(n, x)[0]:
                nconst += 1
        if any(a.arg == x for a in fn.args.args + fn.args.kwonlyargs + fn.args.posonlyargs):
            ok = False
        return ok and nconst == len(writes(x)) and nconst > 0

    def add_before_continues(stmts, S):
        out = []
        for s in stmts:
            if isinstance(s, ast.Continue):
                out.append(copy.deepcopy(S))
                out.append(s)
                continue
            if isinstance(s, (ast.For, ast.While, ast.AsyncFor, ast.FunctionDef, ast.AsyncFunctionDef, ast.ClassDef)):
                out.append(s)  # continues in there belong to the inner loop
                continue
            for fld in ("body", "orelse", "finalbody"):
                sub = getattr(s, fld, None)
                if isinstance(sub, list) and sub and isinstance(sub[0], ast.stmt):
                    setattr(s, fld, add_before_continues(sub, S))
            for h in getattr(s, "handlers", []) or []:
                h.body = add_before_continues(h.body, S)
            out.append(s)
        return out

    def has_finally_continue(stmts):
        for n in _own_walk(stmts):
            if isinstance(n, ast.Try) and n.finalbody and any(isinstance(m, ast.Continue) for m in _own_walk(n.finalbody)):
                return True
        return False

    def process(block):
        i = 0
        while i < len(block):
            st = block[i]
            if isinstance(st, (ast.FunctionDef, ast.AsyncFunctionDef, ast.ClassDef)):
                i += 1
                continue
            # rotate
            if isinstance(st, ast.While) and not st.orelse and i > 0:
                x = _test_local(st.test)
                if x is not None and const_writes_only(x) and not has_finally_continue(st.body):
                    isc, cv = _const_assign(block[i - 1], x)
                    if isc and _const_truth_tests(st.test, x, cv) is True:
                        S = ast.If(test=ast.UnaryOp(op=ast.Not(), operand=st.test), body=[ast.Break()], orelse=[])
                        st.body = add_before_continues(st.body, S) + ([] if _terminates(st.body) else [copy.deepcopy(S)])
                        st.test = ast.Constant(value=True)
                        count[0] += 1
            for fld in ("body", "orelse", "finalbody"):
                sub = getattr(st, fld, None)
                if isinstance(sub, list) and sub and isinstance(sub[0], ast.stmt):
                    process(sub)
            for h in getattr(st, "handlers", []) or []:
                process(h.body)
            # fold / sink
            if i > 0 and _is_jump_test(st):
                x = _test_local(st.test)
                prev = block[i - 1]
                isc, cv = _const_assign(prev, x)
                if isc and _const_truth_tests(st.test, x, cv) is not None:
                    block[i : i + 1] = _apply_test(st, prev, x)
                    count[0] += 1
                    continue
                if isinstance(prev, (ast.If, ast.Try, ast.With)) and not (isinstance(prev, ast.Try) and prev.finalbody) and _assigns_const([prev], x):
                    _sink_block([prev], st, x)
                    del block[i]
                    count[0] += 1
                    process([prev])
                    continue
            i += 1

    process(fn.body)
    if count[0]:
        ast.fix_missing_locations(fn)
    return count[0]


def threaded(fi):
    """fi, or a copy of it with thread_tests applied when that changes anything"""
    fn = copy.deepcopy(fi.node)
    if thread_tests(fn):
        return FuncInfo(fi.qn, fn, fi.module, fi.cls, fi.parent), True
    return fi, False


# ---------------------------------------------------------------------------
# evaluation of a small predicate function on concrete arguments


def ceval(e, env):
    """norm.consteval extended by bool()/int() of a value, conditional
    expressions and `is` between constants; env maps names to python values"""
    if isinstance(e, ast.IfExp):
        return ceval(e.body if ceval(e.test, env) else e.orelse, env)
    if isinstance(e, ast.Call) and isinstance(e.func, ast.Name) and e.func.id in ("bool", "int") and len(e.args) == 1 and not e.keywords:
        v = ceval(e.args[0], env)
        return bool(v) if e.func.id == "bool" else int(v)
    if isinstance(e, ast.UnaryOp) and isinstance(e.op, ast.Not):
        return not ceval(e.operand, env)
    if isinstance(e, ast.BoolOp):
        if isinstance(e.op, ast.And):
            v = True
            for x in e.values:
                v = ceval(x, env)
                if not v:
                    return v
            return v
        v = False
        for x in e.values:
            v = ceval(x, env)
            if v:
                return v
        return v
    if isinstance(e, ast.Compare):
        left = ceval(e.left, env)
        for op, r in zip(e.ops, e.comparators):
            right = ceval(r, env)
            if isinstance(op, (ast.Is, ast.IsNot)):
                if not all(x is None or isinstance(x, bool) for x in (left, right)):
                    raise NormError("identity of non-singletons")
                res = left is right
                res = res if isinstance(op, ast.Is) else not res
            else:
                res = norm.consteval(ast.Compare(left=ast.Constant(value=left), ops=[op], comparators=[ast.Constant(value=right)]))
            if not res:
                return False
            left = right
        return True
    if isinstance(e, ast.BinOp):
        return norm.consteval(ast.BinOp(left=ast.Constant(value=ceval(e.left, env)), op=e.op, right=ast.Constant(value=ceval(e.right, env))))
    cenv = {k: ast.Constant(value=v) for k, v in env.items()}
    return norm.consteval(e, cenv)


def eval_predicate(fnode, args, what="predicate"):
    """truth value returned by the loop-free function fnode for the concrete
    arguments `args` ({parameter: python value}); the path whose conditions
    all hold is followed.  AnalysisError when it cannot be evaluated."""
    cache = fnode.__dict__.setdefault("_c15_paths", None)
    if cache is None:
        cache = fnode.__dict__["_c15_paths"] = enumerate_paths(fnode, what=what)
    try:
        for p in cache:
            if all(bool(ceval(t, args)) == pol for t, pol in p.conds):
                if p.kind != "return":
                    raise AnalysisError("%s raises for %r" % (what, args))
                return bool(ceval(p.value, args)) if p.value is not None else False
    except NormError as ex:
        raise AnalysisError("%s cannot be evaluated for %r: %s" % (what, args, ex))
    raise AnalysisError("%s: no path for %r" % (what, args))


# ---------------------------------------------------------------------------
# one attribute field of self over the CFG of one function: which locals hold
# the very object the field holds (must-alias classes), and whether that object
# can be None (the "CSM received" state is `self._remote_settings is not None`)

NULL_NONE, NULL_OBJ, NULL_ANY = "none", "not-none", "unknown"

_DICT_MUTATORS = {"pop", "update", "setdefault", "clear", "popitem", "__setitem__", "__delitem__", "__ior__",
                  "append", "extend", "insert", "remove", "add", "discard"}


def _capture_names(pattern):
    out = []
    for x in ast.walk(pattern):
        if isinstance(x, (ast.MatchAs, ast.MatchStar)) and x.name:
            out.append(x.name)
        elif isinstance(x, ast.MatchMapping) and x.rest:
            out.append(x.rest)
    return out


def node_parts(node):
    """What ONE CFG node stands for: (expressions it evaluates, [(target, value or None)]
    it binds in order, names it rebinds to something unknown).  For compound
    statements only the header belongs to the node."""
    a, k = node.ast, node.kind
    if a is None or k in ("T", "F", "join", "entry", "exit", "rexit"):
        return [], [], []
    if isinstance(a, (ast.For, ast.AsyncFor)):
        return [a.iter], [(a.target, None)], []
    if isinstance(a, (ast.With, ast.AsyncWith)):
        return [it.context_expr for it in a.items], [(it.optional_vars, None) for it in a.items if it.optional_vars is not None], []
    if isinstance(a, ast.ExceptHandler):
        return [], [], [a.name] if a.name else []
    if isinstance(a, ast.expr):
        return [a], [], []
    if isinstance(a, ast.Assign):
        return [a.value] + [t for t in a.targets if not isinstance(t, ast.Name)], [(t, a.value) for t in a.targets], []
    if isinstance(a, ast.AnnAssign):
        if a.value is None:
            return [], [], []
        return [a.value] + ([] if isinstance(a.target, ast.Name) else [a.target]), [(a.target, a.value)], []
    if isinstance(a, ast.AugAssign):
        return [a.value] + ([] if isinstance(a.target, ast.Name) else [a.target]), [(a.target, None)], []
    if isinstance(a, (ast.Return, ast.Expr, ast.Raise, ast.Delete, ast.Assert)):
        return [a], [], []
    if isinstance(a, (ast.FunctionDef, ast.AsyncFunctionDef, ast.ClassDef)):
        return list(a.decorator_list), [], [a.name]
    if isinstance(a, (ast.Import, ast.ImportFrom)):
        return [], [], [(al.asname or al.name.split(".")[0]) for al in a.names]
    if isinstance(a, ast.Match):
        return [a.subject], [], [n for c in a.cases for n in _capture_names(c.pattern)]
    if isinstance(a, (ast.Pass, ast.Break, ast.Continue, ast.Global, ast.Nonlocal)):
        return [], [], []
    raise AnalysisError("field flow: statement kind %s is outside the vocabulary" % type(a).__name__)


class FieldFlow:
    """Forward data-flow over a CFG (normal edges, plus the edges into exception
    handlers).  A state is a partition of {locals, FIELD} into classes of names
    that are KNOWN to hold the same object, each class with a nullness
    (none / not-none / unknown); names outside every class hold an unknown object
    of their own.  The join keeps only what holds on every incoming path
    (pairwise intersection of classes), so `x in aliases(nid)` means: on every
    path to nid, x and the field are the same object -- a store through x is a
    store into the field's object, whatever x is called and however often it was
    assigned.  Tests `X is None` / `X is not None` / `X` / `isinstance(X, ..)`
    refine the class of X on their outcomes (a contradicting outcome is dead).

    decide(nid) -> True/False/None fixes the outcome of test nodes (used to
    specialise the flow to one value of a finite-domain subject).
    calls_rebind: a call may rebind the field (then every call forgets what the
    field holds); pass False only under a closed-world premise that no function
    that can run meanwhile assigns the field.
    """

    def __init__(self, cfg, field, decide=None, calls_rebind=True):
        self.cfg = cfg
        self.field = field
        self.root = field.split(".")[0]
        self.decide = decide or (lambda nid: None)
        self.calls_rebind = calls_rebind
        self.inn = {}
        self._solve()

    # ---- states: frozenset of (frozenset(names), nullness); canonical
    @staticmethod
    def _freeze(classes):
        return frozenset((frozenset(c), n) for c, n in classes if c and (len(c) > 1 or n != NULL_ANY))

    @staticmethod
    def _join(a, b):
        if a is None:
            return b
        if b is None:
            return a
        if a == b:
            return a
        out = []
        for ca, na in a:
            for cb, nb in b:
                c = ca & cb
                if c:
                    out.append((c, na if na == nb else NULL_ANY))
        return FieldFlow._freeze(out)

    def _var(self, e):
        """the tracked name an expression denotes (a local, or the field), else None"""
        if isinstance(e, ast.NamedExpr):
            return e.target.id
        if isinstance(e, ast.Name):
            return e.id
        if isinstance(e, ast.Attribute) and chain(e) == self.field:
            return self.field
        return None

    @staticmethod
    def _cls_of(classes, v, create=False):
        for c in classes:
            if v in c[0]:
                return c
        if create:
            c = [{v}, NULL_ANY]
            classes.append(c)
            return c
        return None

    def nullness(self, e, state):
        """nullness of the value of expression e in `state` (a frozen state)"""
        return self._null(e, [[set(c), n] for c, n in state])

    def _null(self, e, classes):
        if isinstance(e, ast.Constant):
            return NULL_NONE if e.value is None else NULL_OBJ
        if isinstance(e, (ast.Dict, ast.DictComp, ast.List, ast.ListComp, ast.Set, ast.SetComp, ast.Tuple, ast.JoinedStr, ast.Lambda, ast.GeneratorExp, ast.Compare)):
            # a display / comprehension / comparison result is an object
            return NULL_OBJ
        if isinstance(e, ast.NamedExpr):
            return self._null(e.value, classes)
        v = self._var(e)
        if v is not None:
            c = self._cls_of(classes, v)
            return c[1] if c else NULL_ANY
        if isinstance(e, ast.Call) and isinstance(e.func, ast.Name) and e.func.id in ("dict", "list", "set", "tuple", "frozenset", "int", "str", "bytes", "bool", "len"):
            return NULL_OBJ
        if isinstance(e, ast.BoolOp):
            if isinstance(e.op, ast.Or):
                # `a or b` is a when a is truthy (then not None), else b
                res = self._null(e.values[-1], classes)
                for x in reversed(e.values[:-1]):
                    nx = self._null(x, classes)
                    if res == NULL_OBJ:
                        continue
                    res = NULL_NONE if (res == NULL_NONE and nx == NULL_NONE) else NULL_ANY
                return res
            first = self._null(e.values[0], classes)
            return NULL_NONE if first == NULL_NONE else NULL_ANY
        if isinstance(e, ast.IfExp):
            res = None
            for arm, pol in ((e.body, True), (e.orelse, False)):
                cl = [[set(c), n] for c, n in classes]
                if self._refine(cl, e.test, pol) is None:
                    continue
                n = self._null(arm, cl)
                res = n if res is None or res == n else NULL_ANY
            return res or NULL_ANY
        if isinstance(e, ast.BinOp) and isinstance(e.left, (ast.Dict, ast.DictComp)):
            return NULL_OBJ
        return NULL_ANY

    def _refine(self, classes, test, pol):
        """narrow `classes` in place by the outcome of an atomic test; None when
        the outcome contradicts what is known (dead edge)"""
        if isinstance(test, ast.UnaryOp) and isinstance(test.op, ast.Not):
            return self._refine(classes, test.operand, not pol)
        want = None
        v = None
        if isinstance(test, ast.Compare) and len(test.ops) == 1 and isinstance(test.ops[0], (ast.Is, ast.IsNot)):
            l, r = test.left, test.comparators[0]
            if isinstance(l, ast.Constant) and l.value is None:
                l, r = r, l
            if isinstance(r, ast.Constant) and r.value is None:
                v = self._var(l)
                want = NULL_NONE if isinstance(test.ops[0], ast.Is) == pol else NULL_OBJ
        elif isinstance(test, ast.Call) and isinstance(test.func, ast.Name) and test.func.id == "isinstance" and len(test.args) == 2 and not test.keywords:
            names = {x.id for x in ast.walk(test.args[1]) if isinstance(x, ast.Name)}
            if pol and "NoneType" not in names and not any(isinstance(x, ast.Call) for x in ast.walk(test.args[1])):
                v = self._var(test.args[0])
                want = NULL_OBJ
        else:
            v = self._var(test)
            if v is not None and pol:
                want = NULL_OBJ  # a truthy value is not None
        if v is None or want is None:
            return classes
        c = self._cls_of(classes, v, create=True)
        if c[1] != NULL_ANY and c[1] != want:
            return None
        c[1] = want
        return classes

    def _kill(self, classes, v):
        for c in classes:
            c[0].discard(v)

    def _transfer(self, nid, state):
        node = self.cfg.nodes[nid]
        if node.kind in ("T", "F"):
            if not isinstance(node.ast, ast.expr):
                return state
            cl = self._refine([[set(c), n] for c, n in state], node.ast, node.kind == "T")
            return None if cl is None else self._freeze(cl)
        evals, binds, kills = node_parts(node)
        if not (evals or binds or kills):
            return state
        classes = [[set(c), n] for c, n in state]
        targets = {id(t) for t, _v in binds}

        def evaluate(ev):
            # (a walrus is bound when it is met in pre-order: exact for one walrus per
            # expression whose value contains no further walrus, conservative kills otherwise)
            walrus = {id(x.target) for x in walk_no_nested(ev) if isinstance(x, ast.NamedExpr)}
            maybe_skipped = False
            if walrus:
                for x in walk_no_nested(ev):
                    if isinstance(x, (ast.BoolOp, ast.IfExp, ast.ListComp, ast.SetComp, ast.DictComp, ast.GeneratorExp)) and any(isinstance(y, ast.NamedExpr) for y in ast.walk(x)):
                        maybe_skipped = True  # the walrus is not evaluated on every path through the expression
            if len(walrus) > 1 or maybe_skipped:
                for x in walk_no_nested(ev):
                    if isinstance(x, ast.NamedExpr):
                        self._kill(classes, x.target.id)
                walrus_bind = False
            else:
                walrus_bind = True
            for x in walk_no_nested(ev):
                if isinstance(x, (ast.Call, ast.Await, ast.Yield, ast.YieldFrom)) and self.calls_rebind:
                    self._kill(classes, self.field)
                elif isinstance(x, ast.NamedExpr):
                    if walrus_bind:
                        self._bind(classes, x.target.id, self._describe(classes, x.value))
                elif isinstance(x, ast.Name) and id(x) in walrus:
                    pass
                elif isinstance(x, ast.Name) and isinstance(x.ctx, (ast.Store, ast.Del)):
                    self._kill(classes, x.id)
                    if x.id == self.root:
                        self._kill(classes, self.field)
                elif isinstance(x, ast.Attribute) and isinstance(x.ctx, (ast.Store, ast.Del)) and chain(x) == self.field:
                    self._kill(classes, self.field)

        # the right-hand sides are evaluated (their calls and walruses take effect),
        # then described, then the targets are evaluated and bound left to right
        for ev in evals:
            if id(ev) not in targets:
                evaluate(ev)
        plan = []
        self._memo = {}
        for target, value in binds:
            self._plan(classes, target, value, plan)
        for ev in evals:
            if id(ev) in targets:
                evaluate(ev)
        for v, desc in plan:
            if desc is None and isinstance(node.ast, ast.AugAssign):
                # `x op= y` that completes leaves an object in x (None supports no operator);
                # whether it is the same object depends on the type: a name of its own
                desc = ("fresh", NULL_OBJ)
            self._bind(classes, v, desc)
        for v in kills:
            self._kill(classes, v)
        return self._freeze(classes)

    def _describe(self, classes, value, memo=None):
        """the class the value of an expression belongs to (a new, still empty one for a
        value that is not a tracked name); one value expression bound to several targets
        (`a = self.f = {}`) is ONE object"""
        if value is None:
            return None
        if memo is not None and id(value) in memo:
            return memo[id(value)]
        v = self._var(value) if not isinstance(value, ast.NamedExpr) else None
        if v is not None:
            d = ("same", self._cls_of(classes, v, create=True))
        else:
            c = [set(), self._null(value, classes)]
            classes.append(c)
            d = ("same", c)
        if memo is not None:
            memo[id(value)] = d
        return d

    def _plan(self, classes, target, value, plan):
        if isinstance(target, (ast.Tuple, ast.List)):
            if isinstance(value, (ast.Tuple, ast.List)) and len(value.elts) == len(target.elts) and not any(isinstance(x, ast.Starred) for x in list(value.elts) + list(target.elts)):
                for t, v in zip(target.elts, value.elts):
                    self._plan(classes, t, v, plan)
            else:
                for t in target.elts:
                    self._plan(classes, t.value if isinstance(t, ast.Starred) else t, None, plan)
            return
        v = None
        if isinstance(target, ast.Name):
            v = target.id
        elif isinstance(target, ast.Attribute) and chain(target) == self.field:
            v = self.field
        if v is not None:
            plan.append((v, self._describe(classes, value, self._memo)))

    def _bind(self, classes, v, desc):
        self._kill(classes, v)
        if v == self.root:
            self._kill(classes, self.field)
        if desc is None:
            return
        if desc[0] == "same":
            desc[1][0].add(v)
        else:
            classes.append([{v}, desc[1]])

    def _solve(self):
        cfg = self.cfg
        self.inn = {cfg.entry: frozenset()}
        todo = [cfg.entry]
        rounds = 0
        while todo:
            rounds += 1
            if rounds > 200000:
                raise AnalysisError("field flow does not stabilise")
            n = todo.pop()
            state = self.inn[n]
            out = self._transfer(n, state)
            dec = self.decide(n) if cfg.nodes[n].kind == "test" else None
            for d, lab in cfg.succ[n]:
                if lab == "exc":
                    if cfg.nodes[d].kind != "handler":
                        continue
                    # the exception may leave the statement before or after its effect
                    prop = self._join(state, out)
                else:
                    prop = out
                if prop is None:
                    continue
                if dec is not None and lab in ("T", "F") and (lab == "T") != dec:
                    continue
                new = self._join(self.inn.get(d), prop)
                if d not in self.inn or new != self.inn[d]:
                    self.inn[d] = new
                    todo.append(d)

    # ---- queries
    def reachable(self, nid):
        return nid in self.inn

    def aliases(self, nid):
        """locals that hold the field's object on every path to nid"""
        for c, _n in self.inn.get(nid, ()):
            if self.field in c:
                return set(c) - {self.field}
        return set()

    def field_nullness(self, nid):
        for c, n in self.inn.get(nid, ()):
            if self.field in c:
                return n
        return NULL_ANY


def may_aliases(fnode, field):
    """Locals that are bound, anywhere in the function, from an expression that
    mentions the field or another such local (flow-insensitive upper bound of
    the names through which the field's object might be reached)."""
    out = set()

    def mentions(e):
        for x in ast.walk(e):
            if isinstance(x, ast.Attribute) and chain(x) == field:
                return True
            if isinstance(x, ast.Name) and isinstance(x.ctx, ast.Load) and x.id in out:
                return True
        return False

    def names(t):
        return {x.id for x in ast.walk(t) if isinstance(x, ast.Name)}

    changed = True
    while changed:
        changed = False
        for n in walk_with_lambdas(fnode):
            pairs = []
            if isinstance(n, ast.Assign):
                pairs = [(t, n.value) for t in n.targets]
            elif isinstance(n, (ast.AnnAssign, ast.AugAssign)) and n.value is not None:
                pairs = [(n.target, n.value)]
            elif isinstance(n, ast.NamedExpr):
                pairs = [(n.target, n.value)]
            elif isinstance(n, (ast.For, ast.AsyncFor, ast.comprehension)):
                pairs = [(n.target, n.iter)]
            elif isinstance(n, ast.withitem) and n.optional_vars is not None:
                pairs = [(n.optional_vars, n.context_expr)]
            for t, v in pairs:
                if isinstance(t, (ast.Subscript, ast.Attribute)):
                    continue
                if mentions(v):
                    new = names(t) - out
                    if new:
                        out |= new
                        changed = True
    return out


def dict_effects(node, receivers, is_field):
    """Effects of one CFG node on the dictionary reached through any of
    `receivers` (local names) or through the field (is_field(expr)).  Yields
    (kind, site, key, value, receiver expression):
      "rebind"  the field itself is assigned / deleted (value None: not a plain assignment; receiver None)
      "set"     d[k] = v,  d.__setitem__(k, v),  d.update({k: v}, k=v) with literal keys
      "merge"   d.update(x) / d |= x: keys not visible
      "other"   any other mutation (del d[k], pop, clear, setdefault, nested stores, method value taken)
      "escape"  the dictionary is handed to a call / stored in another object / returned
    """
    a = node.ast
    if a is None or node.kind in ("T", "F", "join", "entry", "exit", "rexit"):
        return

    def is_recv(e):
        return (isinstance(e, ast.Name) and e.id in receivers) or is_field(e)

    evals, binds, _k = node_parts(node)
    stmt = a
    for target, value in binds:
        tupled = isinstance(target, (ast.Tuple, ast.List))
        for t in (target.elts if tupled else [target]):
            if is_field(t):
                if isinstance(stmt, ast.AugAssign):
                    yield ("merge", stmt, None, None, t)
                else:
                    yield ("rebind", stmt, None, value if not tupled else None, None)
            elif isinstance(t, ast.Name) and t.id in receivers and isinstance(stmt, ast.AugAssign):
                yield ("merge", stmt, None, None, t)
            elif isinstance(t, ast.Subscript):
                if is_recv(t.value) and not isinstance(t.slice, ast.Slice):
                    if isinstance(stmt, ast.Assign) and not tupled:
                        yield ("set", stmt, t.slice, value, t.value)
                    else:
                        yield ("other", stmt, None, None, t.value)
                else:
                    base = t.value
                    while isinstance(base, ast.Subscript):
                        base = base.value
                    if is_recv(base):
                        yield ("other", stmt, None, None, base)
            elif isinstance(t, ast.Attribute) and value is not None and is_recv(value):
                yield ("escape", stmt, None, None, value)
    if isinstance(a, ast.Delete):
        for t in a.targets:
            base = t
            while isinstance(base, ast.Subscript):
                base = base.value
            if is_field(t):
                yield ("rebind", a, None, None, None)
            elif base is not t and is_recv(base):
                yield ("other", a, None, None, base)
    claimed = set()
    for root in evals:
        for x in walk_with_lambdas(root):
            if isinstance(x, ast.Call):
                f = x.func
                if isinstance(f, ast.Attribute) and is_recv(f.value):
                    claimed.add(id(f))
                    plain = not any(isinstance(z, ast.Starred) for z in x.args) and not any(k.arg is None for k in x.keywords)
                    if f.attr == "__setitem__" and plain and len(x.args) == 2 and not x.keywords:
                        yield ("set", x, x.args[0], x.args[1], f.value)
                    elif f.attr == "update":
                        if plain and len(x.args) <= 1 and (not x.args or (isinstance(x.args[0], ast.Dict) and all(k is not None for k in x.args[0].keys))):
                            if x.args:
                                for k, v in zip(x.args[0].keys, x.args[0].values):
                                    yield ("set", x, k, v, f.value)
                            for k in x.keywords:
                                yield ("set", x, ast.Constant(value=k.arg), k.value, f.value)
                        else:
                            yield ("merge", x, None, None, f.value)
                    elif f.attr in _DICT_MUTATORS:
                        yield ("other", x, None, None, f.value)
                for z in list(x.args) + [k.value for k in x.keywords]:
                    z = z.value if isinstance(z, ast.Starred) else z
                    if is_recv(z):
                        yield ("escape", x, None, None, z)
            elif isinstance(x, ast.Attribute) and id(x) not in claimed and x.attr in _DICT_MUTATORS and is_recv(x.value) and isinstance(x.ctx, ast.Load):
                # the bound method itself is taken (functools.partial(d.pop, k), f = d.update)
                yield ("other", x, None, None, x.value)
            elif isinstance(x, (ast.Return, ast.Yield, ast.YieldFrom)) and x.value is not None and is_recv(x.value):
                yield ("escape", x, None, None, x.value)
            elif isinstance(x, (ast.List, ast.Tuple, ast.Set)) and any(is_recv(z) for z in x.elts):
                yield ("escape", x, None, None, next(z for z in x.elts if is_recv(z)))
            elif isinstance(x, ast.Dict) and any(is_recv(z) for z in x.values):
                yield ("escape", x, None, None, next(z for z in x.values if is_recv(z)))


def binder_nodes(cfg, field, calls_rebind):
    """{name or field: set of CFG node ids that may rebind it}"""
    root = field.split(".")[0]
    out = {}

    def add(v, nid):
        out.setdefault(v, set()).add(nid)
        if v == root:
            out.setdefault(field, set()).add(nid)

    for node in cfg.nodes:
        evals, binds, kills = node_parts(node)
        for v in kills:
            add(v, node.id)
        for ev in list(evals) + [t for t, _v in binds]:
            for x in walk_no_nested(ev):
                if isinstance(x, ast.Name) and isinstance(x.ctx, (ast.Store, ast.Del)):
                    add(x.id, node.id)
                elif isinstance(x, ast.Attribute) and isinstance(x.ctx, (ast.Store, ast.Del)) and chain(x) == field:
                    add(field, node.id)
                elif isinstance(x, (ast.Call, ast.Await, ast.Yield, ast.YieldFrom)) and calls_rebind:
                    add(field, node.id)
    return out


# ---------------------------------------------------------------------------
# constructors as functions from call-site arguments to fields: one call site
# is bound to the parameters of __init__ (defaults filled in, the arguments
# replaced by opaque symbols so that nothing of the caller's scope is captured),
# then enumerate_paths(obj=...) says what every field holds afterwards.


def bind_call(fn, call, what="call"):
    """(env0, symbols, by_keyword) for evaluating the body of `fn` (a
    FunctionDef whose first positional parameter is the receiver) at the call
    site `call`: every parameter is bound to an opaque symbol ARG__<param> (the
    argument given at the site; symbols[sym] = that expression), to its default
    when the default is a constant, or to a symbol DEFAULT__<param> otherwise;
    `*args` / `**kwargs` parameters become a tuple / dict display of the surplus
    arguments.  by_keyword[k] = symbol of the keyword (or position) k of the
    site.  Refuses (AnalysisError) what Python itself would reject and what is
    not statically known (`*x` / `**x` at the site)."""
    a = fn.args
    pos = [x.arg for x in a.posonlyargs + a.args]
    if not pos:
        raise AnalysisError("%s: the callee has no receiver parameter" % what)
    pos = pos[1:]
    posonly = {x.arg for x in a.posonlyargs}
    defaults = {}
    allpos = a.posonlyargs + a.args
    for p, d in zip(allpos[len(allpos) - len(a.defaults):], a.defaults):
        defaults[p.arg] = d
    for p, d in zip(a.kwonlyargs, a.kw_defaults):
        if d is not None:
            defaults[p.arg] = d
    names = pos + [x.arg for x in a.kwonlyargs]
    if any(isinstance(x, ast.Starred) for x in call.args) or any(k.arg is None for k in call.keywords):
        raise AnalysisError("%s: the arguments of %s are not statically known (* / **)" % (what, txt(call)))
    env, symbols, by_kw = {}, {}, {}

    def sym(key, expr):
        s = "ARG__%s" % key
        symbols[s] = expr
        by_kw[key] = s
        return ast.Name(id=s, ctx=ast.Load())

    extra_pos = []
    for i, x in enumerate(call.args):
        if i < len(pos):
            env[pos[i]] = sym(pos[i], x)
            by_kw[i] = by_kw[pos[i]]
        elif a.vararg is not None:
            extra_pos.append(sym("pos%d" % i, x))
            by_kw[i] = by_kw["pos%d" % i]
        else:
            raise AnalysisError("%s: too many positional arguments in %s" % (what, txt(call)))
    extra_kw = []
    for k in call.keywords:
        if k.arg in names and k.arg not in posonly:
            if k.arg in env:
                raise AnalysisError("%s: argument %s given twice in %s" % (what, k.arg, txt(call)))
            env[k.arg] = sym(k.arg, k.value)
        elif a.kwarg is not None:
            extra_kw.append((k.arg, sym(k.arg, k.value)))
        else:
            raise AnalysisError("%s: unexpected keyword %s in %s" % (what, k.arg, txt(call)))
    for n in names:
        if n in env:
            continue
        if n not in defaults:
            raise AnalysisError("%s: required argument %s missing in %s" % (what, n, txt(call)))
        d = defaults[n]
        env[n] = copy.deepcopy(d) if isinstance(d, ast.Constant) else ast.Name(id="DEFAULT__%s" % n, ctx=ast.Load())
    if a.vararg is not None:
        env[a.vararg.arg] = ast.Tuple(elts=extra_pos, ctx=ast.Load())
    if a.kwarg is not None:
        env[a.kwarg.arg] = ast.Dict(keys=[ast.Constant(value=k) for k, _ in extra_kw], values=[v for _, v in extra_kw])
    return env, symbols, by_kw


_LOOKS_ONLY = {"type", "isinstance", "id", "repr", "str", "hasattr", "len", "bool"}


def receiver_stores(prog, clsqn, method, seen=None):
    """Names of the attributes of the receiver that method `method` of class
    clsqn may store (itself or through further methods of the receiver it
    calls); None = cannot tell (the receiver is used as a value: aliased,
    passed on, returned; setattr with a computed name; unknown method)."""
    seen = set() if seen is None else seen
    if method in seen:
        return set()
    seen.add(method)
    fi = prog.lookup_method(clsqn, method)
    if fi is None:
        return None
    a = fi.node.args
    ps = [x.arg for x in a.posonlyargs + a.args]
    if not ps:
        return None
    me = ps[0]
    out = set()
    based = set()
    for n in ast.walk(fi.node):
        if isinstance(n, ast.Attribute) and isinstance(n.value, ast.Name) and n.value.id == me and n.attr != "__dict__":
            based.add(id(n.value))
            if isinstance(n.ctx, (ast.Store, ast.Del)):
                out.add(n.attr)
    for n in ast.walk(fi.node):
        if isinstance(n, ast.Call) and isinstance(n.func, ast.Name) and n.func.id in ("setattr", "delattr") and n.args and isinstance(n.args[0], ast.Name) and n.args[0].id == me \
                and len(n.args) >= 2 and isinstance(n.args[1], ast.Constant) and isinstance(n.args[1].value, str):
            out.add(n.args[1].value)
            based.add(id(n.args[0]))
    # the receiver handed to something that only looks at it: formatting, type tests
    for n in ast.walk(fi.node):
        if isinstance(n, ast.FormattedValue) and isinstance(n.value, ast.Name):
            based.add(id(n.value))
        if isinstance(n, ast.Call) and ((isinstance(n.func, ast.Name) and n.func.id in _LOOKS_ONLY) or is_log_call(n)) and not n.keywords:
            for a_ in n.args:
                if isinstance(a_, ast.Name):
                    based.add(id(a_))
    for n in ast.walk(fi.node):
        if isinstance(n, ast.Name) and n.id == me and id(n) not in based:
            return None
    for n in ast.walk(fi.node):
        if isinstance(n, ast.Call) and isinstance(n.func, ast.Attribute) and isinstance(n.func.value, ast.Name) and n.func.value.id == me:
            sub = receiver_stores(prog, clsqn, n.func.attr, seen)
            if sub is None:
                return None
            out |= sub
    return out


def truth3(e, facts):
    """Three-valued truth of a path condition under what is known about the
    symbols: facts[name] = constant value of the symbol.  None = open."""
    def val(x):
        if isinstance(x, ast.Constant):
            return True, x.value
        if isinstance(x, ast.Name) and x.id in facts:
            return True, facts[x.id]
        return False, None

    if isinstance(e, ast.UnaryOp) and isinstance(e.op, ast.Not):
        r = truth3(e.operand, facts)
        return None if r is None else not r
    if isinstance(e, ast.BoolOp):
        rs = [truth3(v, facts) for v in e.values]
        if isinstance(e.op, ast.And):
            return False if any(r is False for r in rs) else (True if all(r is True for r in rs) else None)
        return True if any(r is True for r in rs) else (False if all(r is False for r in rs) else None)
    if isinstance(e, ast.Compare) and len(e.ops) == 1:
        (ka, a), (kb, b) = val(e.left), val(e.comparators[0])
        if not (ka and kb):
            return None
        op = e.ops[0]
        try:
            if isinstance(op, (ast.Is, ast.IsNot)):
                if a is None or b is None:
                    same = a is None and b is None
                    return same if isinstance(op, ast.Is) else not same
                return None
            if isinstance(op, ast.Eq):
                return bool(a == b)
            if isinstance(op, ast.NotEq):
                return bool(a != b)
            if isinstance(op, ast.Lt):
                return bool(a < b)
            if isinstance(op, ast.LtE):
                return bool(a <= b)
            if isinstance(op, ast.Gt):
                return bool(a > b)
            if isinstance(op, ast.GtE):
                return bool(a >= b)
        except TypeError:
            return None
        return None
    k, v = val(e)
    if k:
        return bool(v)
    return None


def implied_constant(conds, sym):
    """Constants c such that the path conditions say `sym == c` (or `sym is
    None`): [(value,)]; comparisons in either operand order and polarity."""
    out = []
    for t, pol in conds:
        while isinstance(t, ast.UnaryOp) and isinstance(t.op, ast.Not):
            t, pol = t.operand, not pol
        if not (isinstance(t, ast.Compare) and len(t.ops) == 1):
            continue
        l, r = t.left, t.comparators[0]
        if isinstance(r, ast.Name) and r.id == sym:
            l, r = r, l
        if not (isinstance(l, ast.Name) and l.id == sym and isinstance(r, ast.Constant)):
            continue
        op = t.ops[0]
        if (isinstance(op, ast.Eq) and pol) or (isinstance(op, ast.NotEq) and not pol):
            out.append((r.value,))
        elif r.value is None and ((isinstance(op, ast.Is) and pol) or (isinstance(op, ast.IsNot) and not pol)):
            out.append((None,))
    return out


# ---------------------------------------------------------------------------
# named constants and capture patterns: two exact rewrites that put a function
# into the vocabulary of the rules without touching what it does.
#
#  * `C.A` where C names a class of the package whose body binds A exactly once
#    to a literal and nothing in the package stores / deletes an attribute A
#    through that class, becomes the literal.  (A namespace class of option
#    numbers; an IntEnum member compares and hashes like its value, a member of
#    a plain Enum does not and is left alone.)
#  * `case x [if g]: body` of a `match` whose subject S is a pure attribute chain
#    becomes `case _ [if g[x:=S]]: x = S; body`: the capture is the subject, and
#    nothing can run between the evaluation of the subject and the guard but
#    comparisons of the earlier value patterns.


def class_constant(prog, module, e):
    """ast.Constant for an attribute `C.A` denoting an immutable class-level
    literal (see above), else None"""
    if not (isinstance(e, ast.Attribute) and isinstance(e.ctx, ast.Load) and isinstance(e.value, ast.Name)):
        return None
    q = prog.resolve_in_module(module, e.value.id)
    ci = prog.classes.get(q)
    if ci is None:
        return None
    cache = prog.__dict__.setdefault("_c15_class_consts", {})
    key = (q, e.attr)
    if key not in cache:
        cache[key] = None
        binds = []
        for st in ast.walk(ci.node):
            if isinstance(st, ast.Name) and st.id == e.attr and isinstance(st.ctx, (ast.Store, ast.Del)):
                binds.append(st)
        value = None
        for st in ci.node.body:
            if isinstance(st, ast.Assign) and len(st.targets) == 1 and isinstance(st.targets[0], ast.Name) and st.targets[0].id == e.attr:
                value = st.value
            elif isinstance(st, ast.AnnAssign) and isinstance(st.target, ast.Name) and st.target.id == e.attr:
                value = st.value
        ok = len(binds) == 1 and value is not None and not any(isinstance(x, (ast.FunctionDef, ast.AsyncFunctionDef, ast.ClassDef)) and x.name == e.attr for x in ast.walk(ci.node))
        mro = prog.mro(q)
        if any(b.startswith("enum.") for b in mro) and not any(b in ("enum.IntEnum", "enum.IntFlag", "int") for b in mro):
            ok = False
        if any(not b.startswith("aiocoap.") and not b.startswith("enum.") and b not in ("object", "int") for b in mro):
            ok = False  # a base we cannot see may define attribute hooks
        if ci.node.keywords and not any(b.startswith("enum.") for b in mro):
            ok = False  # a metaclass of unknown meaning
        cv = None
        if ok:
            try:
                cv = norm.consteval(value)
            except Exception:
                ok = False
        if ok and not (isinstance(cv, (int, str, bytes)) and not isinstance(cv, bool)):
            ok = False
        if ok:
            short = q.rsplit(".", 1)[-1]
            for m in prog.modules.values():
                for n in ast.walk(m.tree):
                    if isinstance(n, ast.Attribute) and n.attr == e.attr and isinstance(n.ctx, (ast.Store, ast.Del)):
                        base = n.value
                        if isinstance(base, ast.Name) and (base.id == short or prog.resolve_in_module(m, base.id) == q or base.id == "cls"):
                            ok = False
                    elif isinstance(n, ast.Call) and isinstance(n.func, ast.Name) and n.func.id in ("setattr", "delattr") and n.args and isinstance(n.args[0], ast.Name) \
                            and (n.args[0].id == short or prog.resolve_in_module(m, n.args[0].id) == q):
                        ok = False
        if ok:
            cache[key] = cv
    cv = cache[key]
    return None if cv is None else ast.copy_location(ast.Constant(value=cv), e)


def _pure_chain(e):
    while isinstance(e, ast.Attribute):
        e = e.value
    return isinstance(e, ast.Name)


def simplified(prog, fi):
    """(fi or a rewritten copy of it, [notes])"""
    fn = copy.deepcopy(fi.node)
    notes = []
    bound_elsewhere = {}
    for n in ast.walk(fn):
        if isinstance(n, ast.Name) and isinstance(n.ctx, (ast.Store, ast.Del)):
            bound_elsewhere[n.id] = bound_elsewhere.get(n.id, 0) + 1
        elif isinstance(n, ast.arg):
            bound_elsewhere[n.arg] = bound_elsewhere.get(n.arg, 0) + 1
        elif isinstance(n, (ast.MatchAs, ast.MatchStar)) and n.name is not None:
            bound_elsewhere[n.name] = bound_elsewhere.get(n.name, 0) + 1
        elif isinstance(n, ast.MatchMapping) and n.rest is not None:
            bound_elsewhere[n.rest] = bound_elsewhere.get(n.rest, 0) + 1

    class Consts(ast.NodeTransformer):
        def visit_Attribute(self, n):
            c = class_constant(prog, fi.module, n)
            if c is not None and n.value.id not in bound_elsewhere:
                notes.append("%s is the class-level constant %r" % (txt(n), c.value))
                return c
            return self.generic_visit(n)

    fn = Consts().visit(fn)

    class Captures(ast.NodeTransformer):
        def visit_Match(self, st):
            st = self.generic_visit(st)
            if not _pure_chain(st.subject):
                return st
            for case in st.cases:
                p = case.pattern
                if isinstance(p, ast.MatchAs) and p.pattern is None and p.name is not None and bound_elsewhere.get(p.name) == 1:
                    x = p.name
                    # the capture binds x even when the guard fails: every use must lie in this case
                    inside = sum(1 for r in ([case.guard] if case.guard is not None else []) + case.body for n in ast.walk(r) if isinstance(n, ast.Name) and n.id == x)
                    if inside != sum(1 for n in ast.walk(fn) if isinstance(n, ast.Name) and n.id == x):
                        continue
                    if case.guard is not None:
                        case.guard = subst(case.guard, {x: st.subject})
                    bind = ast.Assign(targets=[ast.Name(id=x, ctx=ast.Store())], value=copy.deepcopy(st.subject))
                    ast.copy_location(bind, case.body[0])
                    ast.fix_missing_locations(bind)
                    case.body = [bind] + case.body
                    case.pattern = ast.copy_location(ast.MatchAs(pattern=None, name=None), p)
                    notes.append("capture pattern `case %s` read as the subject %s" % (x, txt(st.subject)))
            return st

    fn = Captures().visit(fn)
    if not notes:
        return fi, []
    ast.fix_missing_locations(fn)
    return FuncInfo(fi.qn, fn, fi.module, fi.cls, fi.parent), notes
