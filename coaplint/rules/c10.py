"""C10 Message-layer reactions follow the RFC 7252 type rules."""

import ast
import itertools

from ..rulekit import *
from ..norm import Normalizer, Poly
from ..absdom import Interp, Sym, code_predicates, RFC_CODE_CLASSES, rfc_class

R = Rules(
    "C10",
    explanation=(
        "Finite-domain abstract evaluation (E5) of MessageManager.dispatch_message and send_message: the guard "
        "expressions of the two dispatchers are extracted from the syntax tree and evaluated by the checker's own "
        "interpreter for every valuation of (message type) x (boundary codes of every RFC 7252 code class) x "
        "(duplicate hit) x (response matched) x (received on multicast), resp. (code class) x (No-Response value) x "
        "(piggy-back opportunity) x (preset type) x (shutting down) x (multicast destination) x (reliability) x "
        "(request type); the effect calls reached are compared cell by cell with a reference table written from "
        "RFC 7252 section 4, RFC 7967 and the property text.  The meaning of Code.is_request/is_response/... is itself "
        "extracted from numbers/codes.py and compared with RFC 7252 section 12.1 first.  Further clauses: the Reset / "
        "empty ACK builders use the incoming message ID and the response address; piggy-back bookkeeping (timer only "
        "for CON, stored under (remote, token), every removal cancels the timer or is the timer firing); "
        "as_response_address strips the local address iff received on multicast.  The 0.1 s race between handler "
        "completion and the empty-ACK timer is not decided."
    ),
    rule_text="exhaustive finite-domain evaluation of extracted guards against a reference decision table; dominance and pairing rules",
)

MM = "messagemanager.MessageManager."
TYPES = ("CON", "NON", "ACK", "RST")
CODES = (0, 1, 31, 32, 63, 64, 69, 95, 96, 132, 160, 191, 192, 223, 224, 225, 255)
CONSTS = {t: Sym(t) for t in TYPES}
CONSTS["EMPTY"] = 0


def _msg_ctor_fields(fi, e):
    """(mtype symbol text, mid expr, code expr) of a Message(...) construction
    reached through a single-assignment local; later attribute stores
    `x.mid = ...` on the same local are honoured."""
    name = e.id if isinstance(e, ast.Name) else None
    v = resolve_local(fi.node, e)
    if not (isinstance(v, ast.Call) and (call_name(v) or "").split(".")[-1] == "Message"):
        return None
    f = {}
    for kw in v.keywords:
        if kw.arg:
            f[kw.arg.lstrip("_")] = kw.value
    remote = None
    if name:
        for n in walk_no_nested(fi.node):
            if isinstance(n, ast.Assign) and len(n.targets) == 1 and isinstance(n.targets[0], ast.Attribute) and chain(n.targets[0].value) == name:
                if n.targets[0].attr == "remote":
                    remote = n.value
                else:
                    f[n.targets[0].attr] = n.value
    f["remote"] = remote
    return f


def dispatch_effect(fi, m):
    def effect(call, it):
        cn = call_name(call) or ""
        if cn == "self._deduplicate_message":
            return "dedup"
        if cn == "self._remove_exchange":
            return "remove_exchange"
        if cn == "self._process_ping":
            return "ping"
        if cn == "self._process_request":
            return "process_request"
        if cn == "self._process_response":
            return "process_response"
        if cn == "self._send_empty_ack":
            mid = call.args[1] if len(call.args) > 1 else next((k.value for k in call.keywords if k.arg == "mid"), None)
            return "send:ACK/EMPTY/mid=%s" % (chain(mid) if mid is not None else "?")
        if cn == "self._send_initially":
            f = _msg_ctor_fields(fi, call.args[0]) if call.args else None
            if f is None:
                return "send:?"
            return "send:%s/%s/mid=%s" % (chain(f.get("mtype")), chain(f.get("code")), chain(f.get("mid")))
        if cn.startswith("self._") or cn.startswith("self.token_manager.") or cn.startswith("self.message_interface."):
            return "other:" + cn
        return None
    return effect


def reference_dispatch(mtype, code, dedup, matched, mcast, m):
    """RFC 7252 section 4.2/4.3/4.5, section 8.1 and the property text (DESIGN A.7)."""
    cls = rfc_class(code)
    eff = []
    if cls == "request":
        eff.append("dedup")
        if dedup:
            return eff
    if mtype in ("ACK", "RST"):
        eff.append("remove_exchange")
    if cls == "EMPTY":
        if mtype == "CON":
            eff.append("ping")
    elif cls == "request":
        if mtype in ("CON", "NON"):
            eff.append("process_request")
    elif cls == "response":
        if mtype in ("CON", "NON", "ACK"):
            eff.append("process_response")
            if matched:
                if mtype == "CON":
                    eff.append("send:ACK/EMPTY/mid=%s.mid" % m)
            else:
                if mtype == "CON" and not mcast:
                    eff.append("send:RST/EMPTY/mid=%s.mid" % m)
    return eff


@R.clause("C10.a", "decision table of dispatch_message over type x code x duplicate x matched x multicast equals the RFC 7252 reference (exhaustive)")
def a(ctx):
    preds = code_predicates(ctx.prog)
    ci = ctx.prog.cls("numbers.codes.Code")
    for name, (lo, hi) in RFC_CODE_CLASSES.items():
        got = preds[name]
        want = set(range(lo, hi + 1))
        diff = sorted(set(got) ^ want)
        ctx.ob("Code.%s covers exactly %s..%s (RFC 7252 section 12.1)" % (name, lo, hi), not diff, ci.methods[name], ci.methods[name].node,
               construct="Code.%s" % name, detail="differs for codes %s" % diff[:8] if diff else "256 codes evaluated")
    fi = ctx.prog.func(MM + "dispatch_message")
    m = params(fi)[0]
    ctx.ob("dispatch_message is atomic (plain def)", is_plain_sync(fi), fi, fi.node, construct="def dispatch_message")
    rows = 0
    bad = {}
    samples = []
    for mtype, code, dedup, matched, mcast in itertools.product(TYPES, CODES, (False, True), (False, True), (False, True)):
        cls = rfc_class(code)
        if cls != "request" and dedup:
            continue
        if cls != "response" and matched:
            continue
        env = {
            m + ".mtype": Sym(mtype),
            m + ".code": code,
            m + ".remote.is_multicast_locally": mcast,
            # the *source* of an incoming datagram is never a multicast address; what matters is the local address
            m + ".remote.is_multicast": False,
        }
        calls = [
            ("self._deduplicate_message($x)", dedup),
            ("self._process_response($x)", matched),
        ]
        it = Interp(fi, env, calls, preds, CONSTS, dispatch_effect(fi, m))
        # locals assigned from the helper calls
        for n in walk_no_nested(fi.node):
            if isinstance(n, ast.Assign) and len(n.targets) == 1 and isinstance(n.targets[0], ast.Name):
                pass
        it.run()
        got = [e for e in it.trace]
        want = reference_dispatch(mtype, code, dedup, matched, mcast, m)
        rows += 1
        if len(samples) < 6 and got:
            samples.append({"mtype": mtype, "code": code, "dedup": dedup, "matched": matched, "multicast": mcast, "effects": got})
        if got != want:
            key = (tuple(got), tuple(want))
            bad.setdefault(key, []).append((mtype, code, dedup, matched, mcast))
    ctx.extra["dispatch_table_rows"] = rows
    ctx.extra["exhaustive"] = True
    ctx.extra["dispatch_samples"] = samples
    ctx.floor("rows of the dispatch table", rows, 200)
    if not bad:
        ctx.ob("all %d cells of the dispatch_message decision table agree with the reference" % rows, True, fi, fi.node, construct="dispatch_message decision table")
    for (got, want), cells in sorted(bad.items()):
        # pin to the first effect that differs
        cell = cells[0]
        ctx.ob("reaction to (type, code, duplicate, matched, multicast) equals the RFC 7252 rule", False, fi, fi.node,
               construct="dispatch_message: %s instead of %s" % (list(got), list(want)),
               detail="%d cell(s), e.g. mtype=%s code=%d duplicate=%s matched=%s multicast=%s" % ((len(cells),) + cell))


@R.clause("C10.b", "Reset and empty ACK carry the incoming message ID and go to the response address")
def b(ctx):
    n = 0
    # _process_ping
    fi = ctx.prog.func(MM + "_process_ping")
    m = params(fi)[0]
    sends = list(find("self._send_initially($x)", fi.node))
    ctx.floor("sends in _process_ping", len(sends), 1)
    for c, bnd in sends:
        f = _msg_ctor_fields(fi, bnd["x"])
        ok = f is not None and chain(f.get("mtype")) == "RST" and chain(f.get("code")) == "EMPTY" and chain(f.get("mid")) == m + ".mid"
        ctx.ob("a ping is answered by an empty Reset with the ping's message ID", ok, fi, c, detail=str({k: stmt_text(v) for k, v in (f or {}).items() if v is not None}))
        ctx.ob("the Reset goes to the response address of the sender", f is not None and f.get("remote") is not None and match("%s.remote.as_response_address()" % m, f["remote"]) is not None, fi, c)
        n += 1
    # unmatched response arm
    fi = ctx.prog.func(MM + "dispatch_message")
    m = params(fi)[0]
    for c, bnd in find("self._send_initially($x)", fi.node):
        f = _msg_ctor_fields(fi, bnd["x"])
        ok = f is not None and chain(f.get("mtype")) == "RST" and chain(f.get("code")) == "EMPTY" and chain(f.get("mid")) == m + ".mid"
        ctx.ob("an unmatched confirmable response is answered by an empty Reset with its message ID", ok, fi, c)
        ctx.ob("the Reset goes to the response address of the sender", f is not None and f.get("remote") is not None and match("%s.remote.as_response_address()" % m, f["remote"]) is not None, fi, c)
        n += 1
    for c, bnd in find("self._send_empty_ack($*a, $**kw)", fi.node):
        a = bnd["a"]
        ok = len(a) >= 2 and chain(a[0]) == m + ".remote" and chain(a[1]) == m + ".mid"
        ctx.ob("a matched confirmable response is acknowledged under its own message ID and remote", ok, fi, c)
        n += 1
    # _send_empty_ack
    fi = ctx.prog.func(MM + "_send_empty_ack")
    p = params(fi)
    for c, bnd in find("self._send_initially($x)", fi.node):
        f = _msg_ctor_fields(fi, bnd["x"])
        ok = f is not None and chain(f.get("mtype")) == "ACK" and chain(f.get("code")) == "EMPTY" and isinstance(f.get("mid"), ast.Name) and f["mid"].id == p[1]
        ctx.ob("_send_empty_ack sends (ACK, EMPTY, given mid)", ok, fi, c, detail=str({k: stmt_text(v) for k, v in (f or {}).items() if v is not None}))
        ctx.ob("the empty ACK goes to the response address of the given remote", f is not None and f.get("remote") is not None and match("%s.as_response_address()" % p[0], f["remote"]) is not None, fi, c)
        n += 1
    ctx.floor("Reset/ACK builder sites", n, 4)


PB = "self._piggyback_opportunities"


@R.clause("C10.c", "piggy-back bookkeeping: timer only for CON, stored as (mid, handle) under (remote, token); every removal cancels the timer or is the timer firing")
def c(ctx):
    fi = ctx.prog.func(MM + "_process_request")
    rq = params(fi)[0]
    cfg = cfg_of(fi)
    timers = list(find("self.loop.call_later($d, $cb, $*rest)", fi.node))
    ctx.floor("empty-ACK timers in _process_request", len(timers), 1)
    N = Normalizer(env=norm.local_env(fi.node))
    for call, bnd in timers:
        nid = cfg.loc1(call)
        alive, _ = mtype_values(guard_exprs(cfg, nid), "%s.mtype" % rq, TYPES)
        ctx.ob("the empty-ACK timer is armed only for confirmable requests", alive == {"CON"}, fi, call, detail="mtype in %s" % sorted(alive))
        ctx.ob("the timer delay is EMPTY_ACK_DELAY of the request's tuning", N.poly(bnd["d"]) == Poly.atom("%s.transport_tuning.EMPTY_ACK_DELAY" % rq), fi, call)
    # every CON request arms one: from the T pseudo-node of mtype==CON all paths to exit pass a timer + a store
    stores = [(k, n) for k, n in stores_to(fi.node, PB, nested=False) if k == "setitem"]
    ctx.floor("stores into _piggyback_opportunities", len(stores), 1)
    for k, st in stores:
        tgt = st.targets[0]
        key = resolve_local(fi.node, tgt.slice)
        kb = match("($a, $b)", key)
        ctx.ob("the opportunity is stored under (request.remote, request.token)", kb is not None and chain(kb["a"]) == rq + ".remote" and chain(kb["b"]) == rq + ".token", fi, st)
        vb = match("($a, $b)", st.value)
        hok = False
        if vb is not None and isinstance(vb["b"], ast.Name):
            hv = resolve_local(fi.node, vb["b"])
            hok = any(hv is t for t, _ in timers)
        ctx.ob("what is stored is (request.mid, timer handle)", vb is not None and chain(vb["a"]) == rq + ".mid" and hok, fi, st)
    con_t = [n.id for n in cfg.nodes if n.kind == "T" and mtype_values([(n.ast, True)], "%s.mtype" % rq, TYPES)[0] == {"CON"}]
    ctx.need(con_t, "_process_request has no branch on mtype == CON")
    for t in con_t:
        ctx.ob("every confirmable request gets an acknowledgement opportunity before it is processed", cfg.must_pass(t, [cfg.loc1(st) for _, st in stores]), fi, cfg.nodes[t].ast)
    pr = list(find("self.token_manager.process_request($x)", fi.node))
    ctx.floor("hand-over to the token manager", len(pr), 1)
    for c, bnd in pr:
        ctx.ob("the request is handed on on every normal path", cfg.must_pass(cfg.entry, [cfg.loc1(c)]), fi, c)
    # the timer callback: pops its own key and sends the empty ACK with the stored mid
    for call, bnd in timers:
        cb = bnd["cb"]
        cbf = None
        if isinstance(cb, ast.Name) and ctx.prog.has_func(fi.short + ".<locals>." + cb.id):
            cbf = ctx.prog.func(fi.short + ".<locals>." + cb.id)
        ctx.need(cbf is not None, "empty-ACK timer callback is not a nested function")
        cp = [a.arg for a in cbf.node.args.args]
        rest = bnd["rest"]
        bind = dict(zip(cp, rest))
        pops = [(k, n) for k, n in stores_to(cbf.node, PB.replace("self", cp[0] if cp and cp[0] == "self" else "self")) if k == "pop"]
        ctx.ob("the timer callback removes its own opportunity", len(pops) == 1, cbf, cbf.node, construct="def " + cbf.name)
        for k, n in pops:
            kb = match("($a, $b)", n.args[0]) if n.args else None
            okk = kb is not None and all(isinstance(x, ast.Name) and x.id in bind for x in (kb["a"], kb["b"])) and \
                chain(bind[kb["a"].id]) == rq + ".remote" and chain(bind[kb["b"].id]) == rq + ".token"
            ctx.ob("the callback removes exactly the key it was armed for", okk, cbf, n)
        acks = list(find("self._send_empty_ack($*a)", cbf.node))
        ctx.ob("the callback sends the empty ACK", len(acks) == 1, cbf, cbf.node, construct="def " + cbf.name)
        for c2, b2 in acks:
            a = b2["a"]
            mid_ok = False
            if len(a) >= 2 and isinstance(a[1], ast.Name):
                for w in writes_to_name(cbf.node, a[1].id):
                    if isinstance(w, ast.Assign) and isinstance(w.targets[0], ast.Tuple) and w.targets[0].elts and isinstance(w.targets[0].elts[0], ast.Name) and w.targets[0].elts[0].id == a[1].id and any(w.value is n for _, n in pops):
                        mid_ok = True
            ctx.ob("the empty ACK carries the stored message ID of the request", mid_ok, cbf, c2)
            r_ok = len(a) >= 1 and (chain(a[0]) == rq + ".remote" or (isinstance(a[0], ast.Name) and a[0].id in bind and chain(bind[a[0].id]) == rq + ".remote"))
            ctx.ob("the empty ACK goes to the request's remote", r_ok, cbf, c2)
    # all pops in the class
    pops = []
    for f in ctx.prog.funcs.values():
        if f.module.name != "aiocoap.messagemanager":
            continue
        for k, n in stores_to_any(f.node, "_piggyback_opportunities"):
            if k in ("pop", "delitem", "popitem", "clear"):
                pops.append((f, k, n))
    ctx.floor("removals from _piggyback_opportunities", len(pops), 3)
    for f, k, n in pops:
        if f.name == "on_timeout" or (f.parent is not None and f.parent.short == MM + "_process_request"):
            continue  # the timer firing itself
        cfg2 = cfg_of(f)
        nid = cfg2.loc1(n)
        st = cfg2.nodes[nid].ast
        han = None
        if isinstance(st, ast.Assign) and isinstance(st.targets[0], ast.Tuple) and len(st.targets[0].elts) == 2 and isinstance(st.targets[0].elts[1], ast.Name):
            han = st.targets[0].elts[1].id
        cancels = [cfg2.loc1(c) for c, _ in find("%s.cancel()" % han, f.node)] if han else []
        ctx.ob("removing an acknowledgement opportunity cancels its empty-ACK timer on every normal path", bool(cancels) and cfg2.must_pass(nid, cancels), f, n)


def send_effect(fi, m):
    def effect(call, it):
        cn = call_name(call) or ""
        if cn == "self._send_initially":
            a0 = chain(call.args[0]) if call.args else "?"
            return ("send", it.env.get(a0 + ".mtype"), it.env.get(a0 + ".code"), it.env.get(a0 + ".mid"), it.env.get(a0 + ".remote"))
        if isinstance(call.func, ast.Attribute) and call.func.attr in ("append", "insert", "appendleft") and isinstance(call.func.value, ast.Subscript) and chain(call.func.value.value) == "self._backlogs":
            arg = call.args[-1] if call.args else None
            a0 = chain(arg.elts[0]) if isinstance(arg, ast.Tuple) and arg.elts else "?"
            return ("queue", it.env.get(a0 + ".mtype"), it.env.get(a0 + ".code"), it.env.get(a0 + ".mid"), it.env.get(a0 + ".remote"))
        if cn.endswith(".cancel"):
            return ("cancel", it.env.get(cn[:-7]))
        return None
    return effect


@R.clause("C10.d", "send_message decision table: piggy-backing, No-Response mask, type selection, ConToMulticast (exhaustive)")
def d(ctx):
    preds = code_predicates(ctx.prog)
    fi = ctx.prog.func(MM + "send_message")
    m = params(fi)[0]
    ctx.ob("send_message is atomic (plain def)", is_plain_sync(fi), fi, fi.node, construct="def send_message")
    # who is the handle / mid popped from the opportunity table
    rows = 0
    bad = {}
    samples = []
    codes = (1, 69, 132, 160)
    for code, nr, hit, preset, shut, mcast, rel, reqt, backlog in itertools.product(
            codes, (None, 0, 2, 8, 16, 26), (False, True), (None, "CON", "NON", "ACK"), (False, True), (False, True), (True, False, None), (None, "NON", "CON"), (False, True)):
        if code == 1 and (nr is not None or hit or reqt is not None):
            continue
        if preset == "ACK" and not (code != 1):
            continue
        env = {
            m + ".mid": None,
            m + ".code": code,
            m + ".mtype": Sym(preset) if preset else None,
            m + ".opt.no_response": nr,
            m + ".remote": ("object", "remote"),
            m + ".token": ("object", "token"),
            m + ".remote.is_multicast": mcast,
            m + ".transport_tuning.reliability": rel,
            m + ".request": ("object", "request") if reqt else None,
            m + ".request.mtype": Sym(reqt) if reqt else None,
            "self._active_exchanges": None if shut else ("object", "table"),
        }
        calls = [
            ("$k in self._piggyback_opportunities", hit),
            ("$k not in self._piggyback_opportunities", not hit),
            ("$r in self._backlogs", backlog),
            ("$r not in self._backlogs", not backlog),
            ("$x.as_response_address()", ("object", "response-address")),
        ]
        it = Interp(fi, env, calls, preds, CONSTS, send_effect(fi, m))
        it.run()
        got = (tuple(it.trace), it.outcome.split("(")[0] if it.outcome else None)
        want = reference_send(code, nr, hit, preset, shut, mcast, rel, reqt, backlog)
        rows += 1
        g = normalise_send(got)
        if len(samples) < 5 and hit:
            samples.append({"code": code, "no_response": nr, "piggyback": hit, "preset": preset, "effects": repr(g)})
        if g != want:
            bad.setdefault((repr(g), repr(want)), []).append((code, nr, hit, preset, shut, mcast, rel, reqt, backlog))
    ctx.extra["send_table_rows"] = rows
    ctx.extra["send_samples"] = samples
    ctx.floor("rows of the send_message table", rows, 1000)
    if not bad:
        ctx.ob("all %d cells of the send_message decision table agree with the reference" % rows, True, fi, fi.node, construct="send_message decision table")
    for (g, w), cells in sorted(bad.items())[:12]:
        ctx.ob("outcome for (code, No-Response, piggy-back, preset type, shutdown, multicast, reliability, request type, backlog) equals the reference", False, fi, fi.node,
               construct="send_message: %s instead of %s" % (g, w),
               detail="%d cell(s), e.g. code=%s no_response=%s piggyback=%s preset=%s shutdown=%s multicast=%s reliability=%s request_type=%s backlog=%s" % ((len(cells),) + cells[0]))


def normalise_send(got):
    trace, outcome = got
    out = []
    for t in trace:
        if t[0] == "cancel":
            out.append(("cancel-timer",) if isinstance(t[1], tuple) and t[1][0] == "elt" and t[1][2] == 1 else ("cancel", repr(t[1])))
        else:
            kind, mtype, code, mid, remote = t
            midk = "stored" if isinstance(mid, tuple) and mid[0] == "elt" and mid[2] == 0 else ("fresh" if isinstance(mid, tuple) and mid[0] == "expr" and "_next_message_id" in mid[1] else repr(mid))
            rem = "response-address" if remote == ("object", "response-address") else "same"
            out.append((kind, str(mtype) if mtype is not None else None, code, midk, rem))
    oc = "raise ConToMulticast" if outcome and outcome.startswith("raise:") and "ConToMulticast" in outcome else outcome
    return (tuple(out), oc)


def reference_send(code, nr, hit, preset, shut, mcast, rel, reqt, backlog):
    """RFC 7252 section 4.2/5.2.1/5.2.2, RFC 7967 and the property text."""
    eff = []
    mtype = preset
    mid = "fresh"
    remote = "same"
    is_resp = 64 <= code <= 191
    if is_resp:
        cls = code >> 5
        suppressed = ((nr or 0) & (1 << (cls - 1))) != 0
        if hit:
            eff.append(("cancel-timer",))
            if suppressed:
                code, mtype, mid, remote = 0, "ACK", "stored", "response-address"
            else:
                mtype, mid = "ACK", "stored"
        elif suppressed:
            return (tuple(eff), "return")
    if mtype is None:
        if shut:
            mtype = "NON"
        elif mcast and remote == "same":
            mtype = "NON"
        elif remote != "same":
            mtype = mtype  # replaced message already has its type
        elif rel is True:
            mtype = "CON"
        elif rel is False:
            mtype = "NON"
        else:
            mtype = "NON" if reqt == "NON" else "CON"
    elif shut:
        mtype = "NON"
    if mtype == "CON" and mcast and remote == "same":
        return (tuple(eff), "raise ConToMulticast")
    if mtype == "CON" and backlog:
        eff.append(("queue", mtype, code, mid, remote))
    else:
        eff.append(("send", mtype, code, mid, remote))
    return (tuple(eff), "return")


@R.clause("C10.f", "no transmission or queueing is reachable once mtype == CON and the destination is multicast")
def f(ctx):
    fi = ctx.prog.func(MM + "send_message")
    m = params(fi)[0]
    cfg = cfg_of(fi)
    raises = [n for n in walk_no_nested(fi.node) if isinstance(n, ast.Raise) and n.exc is not None and "ConToMulticast" in ast.unparse(n.exc)]
    ctx.ob("send_message refuses confirmable messages to multicast destinations (raises ConToMulticast)", bool(raises), fi, fi.node, construct="def send_message")
    for r in raises:
        nid = cfg.loc1(r)
        alive, others = mtype_values(guard_exprs(cfg, nid), "%s.mtype" % m, TYPES)
        ctx.ob("the refusal applies to CON", alive == {"CON"}, fi, r)
        ctx.ob("the refusal applies to multicast destinations", guarded_by(cfg, nid, "%s.remote.is_multicast" % m, True), fi, r)
        cls = ctx.prog.resolve_in_module(fi.module, chain(r.exc.func if isinstance(r.exc, ast.Call) else r.exc) or "?")
        ctx.ob("ConToMulticast is a library error", ctx.prog.is_subclass(cls, "aiocoap.error.Error"), fi, r, detail=cls)
    sinks = [cfg.loc1(c) for c, _ in find("self._send_initially($*a)", fi.node)] + [cfg.loc1(n) for k, n in stores_to(fi.node, "self._backlogs") if k in ("append", "insert", "appendleft")]
    ctx.floor("transmission/queue sites in send_message", len(sinks), 2)
    # every sink is dominated by the F outcome of the (CON and multicast) test pair: i.e. no path entry -> sink
    # avoiding both `mtype == CON` F and `is_multicast` F after the final type has been chosen
    tests_con = [n for n in cfg.nodes if n.kind == "test" and mtype_values([(n.ast, True)], "%s.mtype" % m, TYPES)[0] == {"CON"} and
                 any(cfg.nodes[d].kind == "T" and any(cfg.nodes[x].kind == "test" and match("%s.remote.is_multicast" % m, cfg.nodes[x].ast) is not None for x, _ in cfg.succ[d]) for d, _ in cfg.succ[n.id])]
    ctx.ob("the CON-to-multicast test exists", bool(tests_con), fi, fi.node, construct="def send_message")
    for t in tests_con:
        for s in sinks:
            ctx.ob("every transmission or queueing site is passed only after the CON-to-multicast test", cfg.dominates(t.id, s), fi, cfg.nodes[s].ast)
        # no store to message.mtype after the test
        late = [n for n in walk_no_nested(fi.node) if isinstance(n, ast.Assign) and any(chain(x) == m + ".mtype" for x in n.targets) and t.id in cfg.dominators(cfg.loc1(n))]
        ctx.ob("the message type is final when the test is made", not late, fi, late[0] if late else t.ast)


@R.clause("C10.g", "as_response_address strips the local (multicast) address iff the message was received on multicast")
def g(ctx):
    fi = ctx.prog.func("transports.udp6.UDP6EndpointAddress.as_response_address")
    cfg = cfg_of(fi)
    rets = [n for n in walk_no_nested(fi.node) if isinstance(n, ast.Return)]
    ctx.floor("returns in as_response_address", len(rets), 2)
    saw_self = saw_copy = False
    for r in rets:
        nid = cfg.loc1(r)
        if isinstance(r.value, ast.Name) and r.value.id == "self":
            saw_self = True
            ctx.ob("the address is kept as is only when not received on multicast", guarded_by(cfg, nid, "self.is_multicast_locally", False), fi, r)
        else:
            saw_copy = True
            v = r.value
            okc = isinstance(v, ast.Call) and (match("type(self)", v.func) is not None or chain(v.func) in ("UDP6EndpointAddress", "self.__class__"))
            no_pkt = okc and not any(k.arg == "pktinfo" and not (isinstance(k.value, ast.Constant) and k.value.value is None) for k in v.keywords) and len(v.args) <= 2
            same_sock = okc and v.args and chain(v.args[0]) == "self.sockaddr"
            ctx.ob("for messages received on multicast a copy without the local address (pktinfo) is returned", okc and no_pkt and same_sock, fi, r)
            ctx.ob("the copy is made only when received on multicast", guarded_by(cfg, nid, "self.is_multicast_locally", True), fi, r)
    ctx.ob("both outcomes exist", saw_self and saw_copy, fi, fi.node, construct="def as_response_address")


@R.clause("C10.h", "'unmatched' means what it says: a token is registered and retired under one and the same key (shared with C02.a / C02.c)")
def h_shared(ctx):
    """Whether a confirmable response is acknowledged or Reset depends on TokenManager.process_response finding the
    token.  An independently written breaking change registered a multicast request under (token, None) but armed the
    clean-up for (token, remote): the retired token stayed 'matched' and a late CON response was ACKed instead of Reset."""
    from . import c02
    c02.a(ctx)
    c02.c(ctx)


@R.clause("C10.i", "'received on a multicast address' is decided on the normalised local address: v4-mapped groups (::ffff:224.0.1.187) count as multicast, exactly as for the remote address")
def i_multicast_locally(ctx):
    """An independently written breaking change evaluated IPv6Address(<packed local address>).is_multicast directly:
    for v4-mapped addresses that is False, so an unmatched CON response received on an IPv4 group was answered with a
    Reset.  Sibling agreement: is_multicast and is_multicast_locally both take .is_multicast of ipaddress.ip_address()
    applied to a plain-address string that went through _strip_v4mapped."""
    cls = ctx.prog.cls("transports.udp6.UDP6EndpointAddress")
    for prop, helper in (("is_multicast", "_plainaddress"), ("is_multicast_locally", "_plainaddress_local")):
        fi = cls.methods.get(prop)
        ctx.need(fi is not None, "UDP6EndpointAddress.%s missing" % prop)
        rets = [n for n in walk_no_nested(fi.node) if isinstance(n, ast.Return) and n.value is not None]
        ok = False
        if len(rets) == 1:
            v = resolve_local(fi.node, rets[0].value)
            b = match("ipaddress.ip_address($a).is_multicast", v)
            if b is not None:
                a = resolve_local(fi.node, b["a"])
                src = [c for c in ast.walk(a) if isinstance(c, ast.Call) and call_name(c) == "self." + helper]
                ok = len(src) == 1
        ctx.ob("%s is ipaddress.ip_address(<%s()>).is_multicast" % (prop, helper), ok, fi, rets[0] if rets else fi.node)
        hf = cls.methods.get(helper)
        ctx.need(hf is not None, "UDP6EndpointAddress.%s missing" % helper)
        hr = [n for n in walk_no_nested(hf.node) if isinstance(n, ast.Return) and n.value is not None]
        okh = bool(hr) and all(any(isinstance(c, ast.Call) and call_name(c) == "self._strip_v4mapped" for c in ast.walk(r.value)) for r in hr)
        ctx.ob("%s renders v4-mapped addresses as plain IPv4 (through _strip_v4mapped)" % helper, okh, hf, hr[0] if hr else hf.node)


F_MM = "aiocoap/messagemanager.py"
R.seed("C10.a", F_MM, "        elif message.code.is_request() and message.mtype in (CON, NON):", "        elif message.code.is_request() and message.mtype in (CON,):", "NON requests ignored")
R.seed("C10.a", F_MM, "                if message.mtype == CON and not message.remote.is_multicast_locally:", "                if message.mtype == CON:", "Reset also on multicast")
R.seed("C10.a", F_MM, "                if message.mtype == CON and not message.remote.is_multicast_locally:", "                if message.mtype == CON and not message.remote.is_multicast:", "tests the peer's address instead of the local one")
R.seed("C10.a", F_MM, "                if message.mtype == CON and not message.remote.is_multicast_locally:", "                if not message.remote.is_multicast_locally:", "Reset for unmatched NON")
R.seed("C10.a", F_MM, "        if message.code is EMPTY and message.mtype is CON:\n            self._process_ping(message)", "        if message.code is EMPTY and message.mtype in (CON, NON):\n            self._process_ping(message)", "Reset for empty NON")
R.seed("C10.a", F_MM, "        elif message.code.is_response() and message.mtype in (CON, NON, ACK):", "        elif message.code.is_response() and message.mtype in (CON, NON, ACK, RST):", "response in RST processed")
R.seed("C10.a", F_MM, "                if message.mtype is CON:\n                    self._send_empty_ack(", "                if message.mtype in (CON, NON):\n                    self._send_empty_ack(", "NON responses acknowledged")
R.seed("C10.a", "aiocoap/numbers/codes.py", "return True if (self >= 1 and self < 32) else False", "return True if (self >= 1 and self < 31) else False", "code 0.31 not a request")
R.seed("C10.a", "aiocoap/numbers/codes.py", "return True if (self >= 1 and self < 32) else False", "return self.class_ == 0", "EMPTY (0.00) counts as a request: empty ACK/RST go through the duplicate filter")
R.seed("C10.b", F_MM, "rst = Message(_mtype=RST, _mid=message.mid, code=EMPTY, payload=b\"\")", "rst = Message(_mtype=RST, _mid=self._next_message_id(), code=EMPTY, payload=b\"\")", "Reset with a fresh mid")
R.seed("C10.b", F_MM, "                    rst.remote = message.remote.as_response_address()", "                    rst.remote = message.remote", "Reset from the multicast address")
R.seed("C10.b", F_MM, "        ack.mid = mid\n", "        ack.mid = self._next_message_id()\n", "ACK with a fresh mid")
R.seed("C10.c", F_MM, "                mid, handle = self._piggyback_opportunities.pop(piggyback_key)\n                handle.cancel()\n", "                mid, handle = self._piggyback_opportunities.pop(piggyback_key)\n", "timer not cancelled: second ACK")
R.seed("C10.c", F_MM, "        if request.mtype == CON:\n\n            def on_timeout", "        if request.mtype in (CON, NON):\n\n            def on_timeout", "NON requests acknowledged")
R.seed("C10.c", F_MM, "            self._piggyback_opportunities[key] = (request.mid, handle)", "            self._piggyback_opportunities[key] = (self.message_id, handle)", "wrong mid stored")
R.seed("C10.c", F_MM, "            key = (request.remote, request.token)\n            if key in self._piggyback_opportunities:", "            key = (request.remote, request.mid)\n            if key in self._piggyback_opportunities:", "keyed by mid")
R.seed("C10.d", F_MM, "                1 << message.code.class_ - 1\n", "                1 << message.code.class_\n", "No-Response mask shifted")
R.seed("C10.d", F_MM, "                    message.mtype = ACK\n                    message.mid = mid\n", "                    message.mtype = ACK\n", "piggy-backed response with a fresh mid")
R.seed("C10.d", F_MM, "                if no_response:\n                    self.log.debug(\n                        \"Stopping message", "                if False:\n                    self.log.debug(\n                        \"Stopping message", "suppressed response sent")
R.seed("C10.d", F_MM, "                        case None:\n                            if (\n                                message.request is not None\n                                and message.request.mtype is NON\n                            ):\n                                message.mtype = NON", "                        case None:\n                            if (\n                                message.request is not None\n                                and message.request.mtype is NON\n                            ):\n                                message.mtype = CON", "NON request answered CON")
R.seed("C10.d", F_MM, "                if message.remote.is_multicast:\n                    message.mtype = NON", "                if False:\n                    message.mtype = NON", "CON chosen for multicast")
R.seed("C10.d", F_MM, "                    new_message = Message(code=EMPTY, mid=mid, mtype=ACK)", "                    new_message = Message(code=EMPTY, mid=mid, mtype=NON)", "suppressed response: empty NON instead of ACK")
R.seed("C10.f", F_MM, "        if message.mtype == CON and message.remote.is_multicast:\n            raise error.ConToMulticast\n\n        if message.mid is None:\n            message.mid = self._next_message_id()\n\n", "        if message.mid is None:\n            message.mid = self._next_message_id()\n\n", "test removed")
R.seed("C10.g", "aiocoap/transports/udp6.py", "        if not self.is_multicast_locally:\n            return self", "        if self.is_multicast_locally:\n            return self", "inverted")
R.seed("C10.g", "aiocoap/transports/udp6.py", "        return type(self)(self.sockaddr, self.interface)\n", "        return type(self)(self.sockaddr, self.interface, pktinfo=self.pktinfo)\n", "local address kept")

R.seed("C10.h", "aiocoap/tokenmanager.py", "        request.on_interest_end(\n            functools.partial(self.outgoing_requests.pop, key, None)\n        )\n", "        request.on_interest_end(\n            functools.partial(self.outgoing_requests.pop, (msg.token, msg.remote), None)\n        )\n", "multicast request cleaned up under another key than it is registered under")

R.seed("C10.i", "aiocoap/transports/udp6.py", "        return ipaddress.ip_address(self._plainaddress_local()).is_multicast", "        return ipaddress.IPv6Address(_in6_pktinfo.unpack_from(self.pktinfo)[0]).is_multicast", "v4-mapped multicast groups are not recognised: Reset sent to an IPv4 group")
