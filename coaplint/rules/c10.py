"""C10 Message-layer reactions follow the RFC 7252 type rules."""

import ast
import itertools

from ..rulekit import *
from ..norm import Normalizer, Poly
from ..model import AnalysisError
from ..absdom import Sym, code_predicates, RFC_CODE_CLASSES, rfc_class
from . import _kit_c10 as kit
from ._kit_c10 import Obj, Machine, new_dict, new_list

R = Rules(
    "C10",
    explanation=(
        "Finite-domain evaluation (E5) by scenarios: MessageManager.dispatch_message, send_message, _process_request "
        "(with the timer callback it arms), _process_ping, _send_empty_ack and UDP6EndpointAddress.as_response_address "
        "are run in the checker's own tree-walking evaluator (rules/_kit_c10.py; nothing of the repository is imported "
        "or executed) on concrete finite worlds: for every valuation of (message type) x (boundary codes of every "
        "RFC 7252 code class) x (duplicate hit) x (response matched) x (received on multicast), resp. (code class) x "
        "(No-Response value) x (piggy-back opportunity) x (preset type) x (shutting down) x (multicast destination) x "
        "(reliability) x (request type) x (backlog absent / empty / busy); what happens (modelled methods reached, fields "
        "of the message that is sent or queued, final contents of the opportunity table and the backlog, cancelled "
        "timers, exception leaving) is compared cell by cell with a reference written from RFC 7252 section 4, "
        "RFC 7967 and the property text.  The meaning of Code.is_request/is_response/... is itself extracted from "
        "numbers/codes.py and compared with RFC 7252 section 12.1 first.  Further clauses, decided the same way: the "
        "Reset / empty ACK builders use the incoming message ID and the response address; piggy-back bookkeeping "
        "(exactly one timer and only for CON, stored as (mid, handle) under (remote, token) before the request is "
        "handed on, the fired timer retires its own entry and acknowledges under the stored mid, every other removal "
        "cancels the timer); as_response_address strips the local address iff received on multicast; "
        "UDP6EndpointAddress.is_multicast / is_multicast_locally are evaluated on concrete representative addresses "
        "(IPv6 groups, IPv4 groups in v4-mapped form, range edges, unicast) against a model of ipaddress/struct/socket "
        "that spells out the pre-3.13 and 3.13+ library semantics, and must be True exactly for the groups.  Helper methods "
        "are evaluated whether or not the engine expanded them, so the verdict does not depend on how the functions "
        "are spelled.  Message(...) is not modelled but evaluated through the analysed Message.__init__, and the scenarios "
        "are run with opaque individuals AND with the boundary values 0, 1, 65535 as message IDs (0 is a message ID, "
        "CON = 0 a type, EMPTY = 0 a code: a truthiness test standing in for `is not None` anywhere between the request "
        "and the wire loses them in the evaluation as it does at run time); what the constructor files under .mid / "
        ".mtype / .code is also decided on its own.  Responses that a proxy forwards from another hop: every render "
        "method of proxy/server.py is evaluated (through the analysed Message.copy) with an upstream answer of every "
        "type, and the message type its result carries is fed as preset type into the analysed send_message -- what "
        "reaches the wire must be legal for this hop whichever of the two sites resets the upstream type.  "
        "Exactly-once acknowledgement across receptions: dispatch_message (with the analysed duplicate filter and the "
        "analysed _process_request, on the tables the first reception leaves behind) receives the same request one to "
        "three times while the handler is busy, then the empty-ACK timers still running fire: all ACKs under the "
        "request's message ID together must be one for CON and none for NON, and whatever acknowledges on reception "
        "must have retired the open opportunity.  "
        "The 0.1 s race between handler completion and the empty-ACK timer is not decided."
    ),
    rule_text="exhaustive finite-domain evaluation of the dispatchers in the checker's own evaluator against a reference decision table; scenario evaluation of the bookkeeping (final-state and effect comparison)",
)

MM = "messagemanager.MessageManager."
TYPES = ("CON", "NON", "ACK", "RST")
CODES = (0, 1, 31, 32, 63, 64, 69, 95, 96, 132, 160, 191, 192, 223, 224, 225, 255)
CONSTS = {t: Sym(t) for t in TYPES}
CONSTS["EMPTY"] = 0


def _msg_ctor_fields(fi, e):
    """(mtype symbol text, mid expr, code expr) of a Message(...) construction
    reached through a single-assignment local; later attribute stores
    `x.mid = ...` on the same local are honoured."""
    name = e.id if isinstance(e, ast.Name) else None
    v = resolve_local(fi.node, e)
    if not (isinstance(v, ast.Call) and (call_name(v) or "").split(".")[-1] == "Message"):
        return None
    f = {}
    for kw in v.keywords:
        if kw.arg:
            f[kw.arg.lstrip("_")] = kw.value
    remote = None
    if name:
        for n in walk_no_nested(fi.node):
            if isinstance(n, ast.Assign) and len(n.targets) == 1 and isinstance(n.targets[0], ast.Attribute) and chain(n.targets[0].value) == name:
                if n.targets[0].attr == "remote":
                    remote = n.value
                else:
                    f[n.targets[0].attr] = n.value
    f["remote"] = remote
    return f


def dispatch_effect(fi, m):
    """Effect labelling for absdom.Interp (kept for rules/c03.py, which imports it together with CODES and CONSTS).
    C10 itself no longer uses it: `dispatch_reaction(prog, preds, mtype, code, dedup, matched, mcast)` below gives
    the same labels from the scenario evaluator and does not depend on how dispatch_message is spelled."""
    def effect(call, it):
        cn = call_name(call) or ""
        if cn == "self._deduplicate_message":
            return "dedup"
        if cn == "self._remove_exchange":
            return "remove_exchange"
        if cn == "self._process_ping":
            return "ping"
        if cn == "self._process_request":
            return "process_request"
        if cn == "self._process_response":
            return "process_response"
        if cn == "self._send_empty_ack":
            mid = call.args[1] if len(call.args) > 1 else next((k.value for k in call.keywords if k.arg == "mid"), None)
            return "send:ACK/EMPTY/mid=%s" % (chain(mid) if mid is not None else "?")
        if cn == "self._send_initially":
            f = _msg_ctor_fields(fi, call.args[0]) if call.args else None
            if f is None:
                return "send:?"
            return "send:%s/%s/mid=%s" % (chain(f.get("mtype")), chain(f.get("code")), chain(f.get("mid")))
        if cn.startswith("self._") or cn.startswith("self.token_manager.") or cn.startswith("self.message_interface."):
            return "other:" + cn
        return None
    return effect


# ---------------------------------------------------------------------------------------------------------------
# Clauses a-g are decided on *scenarios* (rules/_kit_c10.py): dispatch_message, send_message, _process_request (and
# the timer callback it arms), _process_ping, _send_empty_ack and as_response_address are run in the checker's own
# evaluator on concrete finite worlds -- messages with a type symbol, a code integer and distinct individuals for
# remote / token / message ID, bookkeeping tables that are concrete dicts, collaborators whose calls are recorded --
# and what happened (calls reaching the modelled methods, fields of the message that is sent, final table
# contents, cancelled timers, exception leaving) is compared with a reference written from RFC 7252 section 4,
# RFC 7967 and the property text.  A refuted obligation is therefore backed by a concrete scenario and does not
# depend on spelling: helper methods (expanded by the engine or not), early returns vs nested ifs, named
# conditions and hoisted locals, `in (A, B)` vs `==` chains, conditional expressions, match vs if chains,
# membership test + pop vs `.get()` / `pop(k, None)` / `del`, constructor keywords vs later attribute assignment,
# nested def vs lambda vs functools.partial vs bound method as timer callback all evaluate alike.  Methods named
# here as effects (anchors of the confirmed tree that leave the message layer or are decided by other clauses:
# _send_initially, _next_message_id, _deduplicate_message, _remove_exchange, _process_request, _process_response)
# are recorded, every other method of the class -- _process_ping and _send_empty_ack included -- is evaluated down
# to them, so it does not matter which method on the way performs a step (e.g. takes the response address);
# anything outside the evaluator's vocabulary is an analysis error, never a violation.

MMCLS = "messagemanager.MessageManager"


def _cached(ctx, key, build):
    cache = ctx.prog.__dict__.setdefault("_c10_cache", {})
    if key not in cache:
        try:
            cache[key] = ("ok", build())
        except AnalysisError as e:
            cache[key] = ("err", e)
    kind, v = cache[key]
    if kind == "err":
        raise AnalysisError(str(v))
    return v


def _preds(ctx):
    return _cached(ctx, "preds", lambda: code_predicates(ctx.prog))


def _remote(tag, mcast=False, mcast_locally=False):
    """A peer address.  Its response address (RFC 7252 section 8.2: never the multicast address the request
    came to) is another individual that denotes the same peer; taking the response address twice changes nothing."""
    r = Obj("obj", tag, attrs={"is_multicast": mcast, "is_multicast_locally": mcast_locally})
    resp = Obj("obj", "response-address(%s)" % tag, attrs={"is_multicast": mcast, "is_multicast_locally": False})
    resp.methods["as_response_address"] = lambda m, recv, a, k, n: recv
    r.methods["as_response_address"] = lambda m, recv, a, k, n: resp
    r.resp = resp
    resp.resp = resp
    return r


def _call_later(m, recv, args, kwargs, node):
    if kwargs or len(args) < 2:
        raise kit.Unknown("loop.call_later with %d arguments / keywords" % len(args))
    m.counter += 1
    h = Obj("handle", "timer#%d" % m.counter)
    m.effect("call_later", h, args[0], args[1], tuple(args[2:]))
    return h


def _self_obj(pb=None, backlogs=None, active=None):
    s = Obj("self", "self", lazy=True)
    s.attrs["loop"] = Obj("obj", "loop", methods={"call_later": _call_later})
    s.attrs["token_manager"] = Obj("obj", "token_manager")
    s.attrs["message_interface"] = Obj("obj", "message_interface")
    s.attrs["_piggyback_opportunities"] = pb if pb is not None else new_dict(tag="_piggyback_opportunities")
    s.attrs["_backlogs"] = backlogs if backlogs is not None else new_dict(tag="_backlogs")
    s.attrs["_active_exchanges"] = active
    s.attrs["message_id"] = 4711
    return s


def _argmap(m, name, args, kwargs):
    """arguments of a recorded method call by parameter name (signature taken from the analysed class)"""
    fi = m.prog.lookup_method(m.cls.qn, name)
    if fi is None:
        raise kit.Unknown("method %s" % name)
    fr = kit.Frame(fi.module)
    m.bind(fi.node, fr, None, [m.self_obj] + list(args), kwargs)
    return [fr.vars[p] for p in params(fi)]


def _same(a, b):
    """the same individual, or the same concrete message ID"""
    return a is b or (type(a) is int and type(b) is int and a == b)


# Message IDs are 16-bit integers and 0 is one of them (as good as any other: RFC 7252 section 3): the scenarios
# are evaluated with opaque individuals as message IDs (identity is what is compared) AND with the concrete boundary
# values, so that a truthiness test standing in for `is not None` somewhere between the request and the wire
# (`if mid:`, `mid or self._next_message_id()`) loses the ID 0 in the evaluation exactly as it does at run time.
MID_VALUES = (0, 1, 0xFFFF)


def _label(x):
    if isinstance(x, Obj):
        return x.tag
    if isinstance(x, Sym):
        return str(x)
    return repr(x)


def _code_label(c):
    return "EMPTY" if c == 0 and not isinstance(c, bool) else _label(c)


def _other_effects(trace):
    """labels of recorded events that no reference expects (calls on collaborators, timers, table writes)"""
    out = []
    for t in trace:
        if t[0] == "other":
            out.append("other:%s" % t[1])
        elif t[0] == "call_later":
            out.append("call_later")
    return out


# -- dispatch_message -------------------------------------------------------------------------------------------

def dispatch_reaction(prog, preds, mtype, code, dedup, matched, mcast, mid=None):
    """Labels of what dispatch_message does with an incoming (mtype, code) message in a world where the duplicate
    filter answers `dedup`, the token layer answers `matched` and the message was received on a multicast address
    iff `mcast`.  -> (labels, machine)"""
    cls = prog.cls(MMCLS)
    fi = prog.func(MM + "dispatch_message")
    # the *source* of an incoming datagram is never a multicast address; what matters is the local address
    remote = _remote("message.remote", mcast=False, mcast_locally=mcast)
    msg = Obj("obj", "message", lazy=True, attrs={
        "mtype": Sym(mtype), "code": code, "mid": Obj("obj", "message.mid") if mid is None else mid, "token": Obj("obj", "message.token"), "remote": remote})

    def plain(method, label, result):
        def stub(m, args, kwargs, node):
            a = _argmap(m, method, args, kwargs)
            m.effect("label", label if a and a[0] is msg else "%s(%s)" % (label, _label(a[0]) if a else ""))
            return result
        return stub

    def stub_send(m, args, kwargs, node):
        a = _argmap(m, "_send_initially", args, kwargs)
        x = a[0]
        if not isinstance(x, Obj):
            m.effect("label", "send:%r" % (x,))
            return
        f = x.attrs
        m.effect("label", "send:%s/%s/mid=%s/to=%s" % (_label(f.get("mtype")), _code_label(f.get("code")), _label(f.get("mid")), _label(f.get("remote"))))

    stubs = {
        "_deduplicate_message": plain("_deduplicate_message", "dedup", dedup),
        "_remove_exchange": plain("_remove_exchange", "remove_exchange", None),
        "_process_request": plain("_process_request", "process_request", None),
        "_process_response": plain("_process_response", "process_response", matched),
        # _process_ping and _send_empty_ack are evaluated down to _send_initially: what counts is the message that
        # reaches the wire, not which of the methods in between turns the remote into the response address
        "_send_initially": stub_send,
        "_next_message_id": lambda m, args, kwargs, node: Obj("obj", "fresh-mid"),
    }
    m = Machine(prog, cls, _self_obj(active=new_dict(tag="_active_exchanges")), CONSTS, preds, stubs)
    out = m.run(fi, [m.self_obj, msg])
    labels = []
    for t in m.trace:
        if t[0] == "label":
            labels.append(t[1])
        elif t[0] == "cancel":
            labels.append("cancel:%s" % t[1].tag)
        elif t[0] in ("table-store", "table-remove"):
            labels.append("%s:%s" % (t[0], t[1].tag))
    labels += _other_effects(m.trace)
    if out[0] == "raise":
        labels.append("raise:%s" % out[1])
    return labels, m


def reference_dispatch(mtype, code, dedup, matched, mcast, m="message"):
    """RFC 7252 section 4.2/4.3/4.5, section 8.1 and the property text (DESIGN A.7)."""
    cls = rfc_class(code)
    eff = []
    if cls == "request":
        eff.append("dedup")
        if dedup:
            return eff
    if mtype in ("ACK", "RST"):
        eff.append("remove_exchange")
    rst = "send:RST/EMPTY/mid=%s.mid/to=response-address(%s.remote)" % (m, m)
    if cls == "EMPTY":
        if mtype == "CON":
            # a ping is answered by a Reset (RFC 7252 section 4.3), wherever it was received
            eff.append(rst)
    elif cls == "request":
        if mtype in ("CON", "NON"):
            eff.append("process_request")
    elif cls == "response":
        if mtype in ("CON", "NON", "ACK"):
            eff.append("process_response")
            if matched:
                if mtype == "CON":
                    eff.append("send:ACK/EMPTY/mid=%s.mid/to=response-address(%s.remote)" % (m, m))
            else:
                if mtype == "CON" and not mcast:
                    eff.append(rst)
    return eff


@R.clause("C10.a", "decision table of dispatch_message over type x code x duplicate x matched x multicast equals the RFC 7252 reference (exhaustive)")
def a(ctx):
    preds = _preds(ctx)
    ci = ctx.prog.cls("numbers.codes.Code")
    for name, (lo, hi) in RFC_CODE_CLASSES.items():
        got = preds[name]
        want = set(range(lo, hi + 1))
        diff = sorted(set(got) ^ want)
        ctx.ob("Code.%s covers exactly %s..%s (RFC 7252 section 12.1)" % (name, lo, hi), not diff, ci.methods[name], ci.methods[name].node,
               construct="Code.%s" % name, detail="differs for codes %s" % diff[:8] if diff else "256 codes evaluated")
    fi = ctx.prog.func(MM + "dispatch_message")
    ctx.need(len(params(fi)) == 1, "dispatch_message does not take exactly the incoming message")
    ctx.ob("dispatch_message is atomic (plain def)", is_plain_sync(fi), fi, fi.node, construct="def dispatch_message")
    rows = 0
    bad = {}
    samples = []
    for mtype, code, dedup, matched, mcast in itertools.product(TYPES, CODES, (False, True), (False, True), (False, True)):
        cls = rfc_class(code)
        if cls != "request" and dedup:
            continue
        if cls != "response" and matched:
            continue
        got, _ = dispatch_reaction(ctx.prog, preds, mtype, code, dedup, matched, mcast)
        want = reference_dispatch(mtype, code, dedup, matched, mcast)
        rows += 1
        if len(samples) < 6 and got:
            samples.append({"mtype": mtype, "code": code, "dedup": dedup, "matched": matched, "multicast": mcast, "effects": got})
        if got != want:
            key = (tuple(got), tuple(want))
            bad.setdefault(key, []).append((mtype, code, dedup, matched, mcast))
    ctx.extra["dispatch_table_rows"] = rows
    ctx.extra["exhaustive"] = True
    ctx.extra["dispatch_samples"] = samples
    ctx.floor("rows of the dispatch table", rows, 200)
    if not bad:
        ctx.ob("all %d cells of the dispatch_message decision table agree with the reference" % rows, True, fi, fi.node, construct="dispatch_message decision table")
    for (got, want), cells in sorted(bad.items()):
        cell = cells[0]
        ctx.ob("reaction to (type, code, duplicate, matched, multicast) equals the RFC 7252 rule", False, fi, fi.node,
               construct="dispatch_message: %s instead of %s" % (list(got), list(want)),
               detail="%d cell(s), e.g. mtype=%s code=%d duplicate=%s matched=%s multicast=%s" % ((len(cells),) + cell))


# -- Reset / empty ACK builders -----------------------------------------------------------------------------------

def _builder_run(ctx, fname, make_args):
    """Run one of the builders with _send_initially recorded; -> (sent field dicts, other labels, outcome, args)"""
    prog = ctx.prog
    cls = prog.cls(MMCLS)
    fi = prog.func(MM + fname)
    sent = []

    def stub_send(m, args, kwargs, node):
        a = _argmap(m, "_send_initially", args, kwargs)
        x = a[0]
        sent.append(dict(x.attrs) if isinstance(x, Obj) else {"?": x})

    def stub_mid(m, args, kwargs, node):
        return Obj("obj", "fresh-mid")

    m = Machine(prog, cls, _self_obj(active=new_dict(tag="_active_exchanges")), CONSTS, _preds(ctx), {"_send_initially": stub_send, "_next_message_id": stub_mid})
    args = make_args()
    out = m.run(fi, [m.self_obj] + args)
    others = _other_effects(m.trace) + ["cancel:%s" % t[1].tag for t in m.trace if t[0] == "cancel"]
    return fi, sent, others, out, args


def _fields(f):
    return {k: _label(v) for k, v in f.items() if k in ("mtype", "code", "mid", "remote")}


@R.clause("C10.b", "Reset and empty ACK carry the incoming message ID and go to the response address")
def b(ctx):
    n = 0
    # _process_ping: an empty CON is answered by an empty RST with the same message ID (RFC 7252 section 4.3)
    for mcast, mid in itertools.product((False, True), (None,) + MID_VALUES):
        def mk():
            return [Obj("obj", "message", lazy=True, attrs={"mtype": Sym("CON"), "code": 0, "mid": Obj("obj", "message.mid") if mid is None else mid, "token": Obj("obj", "message.token"),
                                                            "remote": _remote("message.remote", mcast_locally=mcast)})]
        fi, sent, others, out, args = _builder_run(ctx, "_process_ping", mk)
        msg = args[0]
        world = "" if mid is None else "message ID %d: " % mid
        ctx.ob("a ping is answered by exactly one message and nothing else", len(sent) == 1 and not others and out[0] == "return", fi, fi.node, construct="def _process_ping",
               detail="%ssent %d message(s), other effects %s, outcome %s" % (world, len(sent), others, out[0]))
        for f in sent:
            ok = isinstance(f.get("mtype"), Sym) and f["mtype"] == "RST" and f.get("code") == 0 and not isinstance(f.get("code"), bool) and _same(f.get("mid"), msg.attrs["mid"])
            ctx.ob("a ping is answered by an empty Reset with the ping's message ID", ok, fi, fi.node, construct="_process_ping: the Reset", detail=world + str(_fields(f)))
            ctx.ob("the Reset goes to the response address of the sender", f.get("remote") is msg.attrs["remote"].resp, fi, fi.node, construct="_process_ping: destination of the Reset", detail=world + str(_fields(f)))
            n += 1
    # _send_empty_ack(remote, mid, reason)
    fi = ctx.prog.func(MM + "_send_empty_ack")
    ctx.need(len(params(fi)) >= 2, "_send_empty_ack does not take (remote, mid, ...)")
    for mid in (None,) + MID_VALUES:
        def mk2():
            return [_remote("remote"), Obj("obj", "mid") if mid is None else mid, "reason"]
        world = "" if mid is None else "message ID %d: " % mid
        fi, sent, others, out, args = _builder_run(ctx, "_send_empty_ack", lambda: mk2()[:len(params(fi))])
        ctx.ob("_send_empty_ack sends exactly one message and nothing else", len(sent) == 1 and not others and out[0] == "return", fi, fi.node, construct="def _send_empty_ack",
               detail="%ssent %d message(s), other effects %s, outcome %s" % (world, len(sent), others, out[0]))
        for f in sent:
            ok = isinstance(f.get("mtype"), Sym) and f["mtype"] == "ACK" and f.get("code") == 0 and not isinstance(f.get("code"), bool) and _same(f.get("mid"), args[1])
            ctx.ob("_send_empty_ack sends (ACK, EMPTY, given mid)", ok, fi, fi.node, construct="_send_empty_ack: the ACK", detail=world + str(_fields(f)))
            # whether _send_empty_ack or its callers take the response address is decided end to end (the ACK arm of
            # dispatch_message here and in C10.a, the timer callback in C10.c); alone it must not send it elsewhere
            ctx.ob("the empty ACK goes to the given remote", f.get("remote") is args[0].resp or f.get("remote") is args[0], fi, fi.node, construct="_send_empty_ack: destination of the ACK", detail=world + str(_fields(f)))
            n += 1
    # the two arms of dispatch_message that answer a confirmable response
    fi = ctx.prog.func(MM + "dispatch_message")
    preds = _preds(ctx)
    for code, mid in itertools.product((65, 69, 132, 160), (None,) + MID_VALUES):
        ml = "message.mid" if mid is None else repr(mid)
        got, _ = dispatch_reaction(ctx.prog, preds, "CON", code, False, False, False, mid=mid)
        sends = [x for x in got if x.startswith("send:")]
        ctx.ob("an unmatched confirmable response is answered by an empty Reset with its message ID", [s.rsplit("/to=", 1)[0] for s in sends] == ["send:RST/EMPTY/mid=%s" % ml], fi, fi.node,
               construct="dispatch_message: Reset for an unmatched CON response", detail=str(sends))
        ctx.ob("the Reset goes to the response address of the sender", [s.rsplit("/to=", 1)[-1] for s in sends] == ["response-address(message.remote)"], fi, fi.node,
               construct="dispatch_message: destination of the Reset", detail=str(sends))
        got, _ = dispatch_reaction(ctx.prog, preds, "CON", code, False, True, False, mid=mid)
        sends = [x for x in got if x.startswith("send:")]
        ctx.ob("a matched confirmable response is acknowledged under its own message ID, towards the response address of its sender", sends == ["send:ACK/EMPTY/mid=%s/to=response-address(message.remote)" % ml], fi, fi.node,
               construct="dispatch_message: ACK for a matched CON response", detail=str(sends))
        n += 2
    ctx.floor("Reset/ACK builder scenarios", n, 4)


# -- send_message -------------------------------------------------------------------------------------------------

SEND_CODES = (1, 69, 132, 160)
NO_RESPONSE = (None, 0, 2, 8, 16, 26)
BACKLOG = ("absent", "empty", "busy")


def send_reaction(prog, preds, code, nr, hit, preset, shut, mcast, rel, reqt, backlog, stale_mid=False, stored=None):
    """What send_message does with an outgoing message of the given code / No-Response option / preset type in a
    world with (hit) or without an acknowledgement opportunity under (message.remote, message.token), during
    shutdown or not, towards a multicast address or not, with the given transport tuning, type of the request it
    answers, and state of the remote's backlog (no entry / entry with an empty queue / entry with a queued message).
    -> (observation dict, machine)"""
    cls = prog.cls(MMCLS)
    fi = prog.func(MM + "send_message")
    remote = _remote("message.remote", mcast=mcast)
    token = Obj("obj", "message.token")
    request = Obj("obj", "message.request", lazy=True, attrs={"mtype": Sym(reqt)}) if reqt else None
    msg = Obj("obj", "message", lazy=True, attrs={
        "mid": (stale_mid if type(stale_mid) is int else Obj("obj", "stale-mid")) if stale_mid is not False else None, "code": code, "mtype": Sym(preset) if preset else None, "token": token, "remote": remote,
        "opt": Obj("obj", "message.opt", lazy=True, attrs={"no_response": nr}),
        "transport_tuning": Obj("obj", "message.transport_tuning", lazy=True, attrs={"reliability": rel}),
        "request": request})
    monitor = Obj("obj", "messageerror_monitor")
    # stored: a concrete message ID under which the request is waiting for its acknowledgement (default: an individual)
    stored_mid, stored_timer = (Obj("obj", "stored-mid") if stored is None else stored), Obj("handle", "stored-timer")
    by_key, by_val = (_remote("bystander.remote"), Obj("obj", "bystander.token")), (Obj("obj", "bystander.mid"), Obj("handle", "bystander-timer"))
    pb = new_dict({by_key: by_val}, tag="_piggyback_opportunities")
    key = (remote, token)
    if hit:
        pb.data[key] = (stored_mid, stored_timer)
    backlogs = new_dict(tag="_backlogs")
    initial = []
    if backlog != "absent":
        if backlog == "busy":
            initial = [(Obj("obj", "queued-message", lazy=True, attrs={"mtype": Sym("CON"), "remote": remote}), Obj("obj", "queued-monitor"))]
        backlogs.data[remote] = new_list(initial, tag="_backlogs[message.remote]")
    active = None
    if not shut:
        active = new_dict(tag="_active_exchanges")
        if backlog != "absent":
            active.data[(remote, Obj("obj", "active-mid"))] = (Obj("obj", "active-monitor"), Obj("handle", "retransmission-timer"))
    fresh_mid = Obj("obj", "fresh-mid")
    sent = []

    def describe(x, mon):
        if not isinstance(x, Obj):
            return ("?%r" % (x,),)
        f = x.attrs
        mid = f.get("mid")
        midk = "stored" if _same(mid, stored_mid) else "fresh" if mid is fresh_mid else _label(mid)
        rem = f.get("remote")
        remk = "same" if rem is remote else "response-address" if rem is remote.resp else _label(rem)
        mt = f.get("mtype")
        mtk = str(mt) if isinstance(mt, Sym) else _label(mt)
        # _send_initially needs the monitor for confirmable messages only (it files the exchange under it)
        monk = "-" if mtk != "CON" else ("monitor" if mon is monitor else "monitor=%s" % _label(mon))
        c = f.get("code")
        return (mtk, c if isinstance(c, int) and not isinstance(c, bool) else _label(c), midk, remk, monk)

    def stub_send(m, args, kwargs, node):
        a = _argmap(m, "_send_initially", args, kwargs)
        sent.append(describe(a[0], a[1] if len(a) > 1 else None))

    def stub_mid(m, args, kwargs, node):
        m.effect("fresh-mid")
        return fresh_mid

    m = Machine(prog, cls, _self_obj(pb, backlogs, active), CONSTS, preds, {"_send_initially": stub_send, "_next_message_id": stub_mid})
    out = m.run(fi, [m.self_obj, msg, monitor][:1 + len(params(fi))])
    obs = {}
    if hit:
        obs["timer"] = "cancelled" if stored_timer.attrs.get("cancelled") else "running"
    tbl = m.self_obj.attrs.get("_piggyback_opportunities")
    if tbl is not pb:
        obs["table"] = "replaced"
    else:
        k = m._find_key(pb, key)
        if hit:
            obs["opportunity"] = "taken" if k is kit._MISSING else "left" if pb.data[k] == (stored_mid, stored_timer) else "changed"
        else:
            obs["opportunity"] = "absent" if k is kit._MISSING else "appeared"
        bk = m._find_key(pb, by_key)
        if bk is kit._MISSING or pb.data[bk] != by_val or by_val[1].attrs.get("cancelled") or len(pb.data) != (1 if k is kit._MISSING else 2):
            obs["bystander"] = "disturbed"
    obs["sent"] = tuple(sent)
    queued = []
    bl = m.self_obj.attrs.get("_backlogs")
    if bl is not backlogs:
        obs["backlogs"] = "replaced"
    else:
        rk = m._find_key(bl, remote)
        if (rk is kit._MISSING) != (backlog == "absent") or len(bl.data) != (0 if backlog == "absent" else 1):
            obs["backlogs"] = "entry %s" % ("appeared" if backlog == "absent" else "vanished")
        elif rk is not kit._MISSING:
            lst = bl.data[rk]
            items = list(lst.data) if isinstance(lst, Obj) and lst.kind == "list" else None
            if items is None or items[:len(initial)] != initial:
                obs["backlogs"] = "queue disturbed"
            else:
                for it in items[len(initial):]:
                    # _continue_backlog unpacks every entry as (message, messageerror_monitor)
                    if isinstance(it, tuple) and len(it) == 2:
                        queued.append(describe(it[0], it[1]))
                    else:
                        queued.append(("?%s" % _label(it),))
    obs["queued"] = tuple(queued)
    others = _other_effects(m.trace) + ["cancel:%s" % t[1].tag for t in m.trace if t[0] == "cancel" and t[1] is not stored_timer and t[1] is not by_val[1]]
    if others:
        obs["other"] = tuple(others)
    if out[0] == "raise":
        obs["outcome"] = "raise ConToMulticast" if out[1].split(".")[-1] == "ConToMulticast" else "raise %s" % out[1]
        obs["_exc"] = out[1]
    else:
        obs["outcome"] = "return"
    return obs, m


def reference_send(code, nr, hit, preset, shut, mcast, rel, reqt, backlog):
    """RFC 7252 section 4.2/5.2.1/5.2.2, RFC 7967 and the property text."""
    obs = {"sent": (), "queued": (), "outcome": "return"}
    if hit:
        obs["timer"] = "running"
    obs["opportunity"] = "left" if hit else "absent"
    mtype = preset
    mid = "fresh"
    remote = "same"
    is_resp = 64 <= code <= 191
    if is_resp:
        cls = code >> 5
        suppressed = ((nr or 0) & (1 << (cls - 1))) != 0
        if hit:
            # the response uses up the opportunity: the empty-ACK timer is cancelled and the entry retired
            obs["timer"] = "cancelled"
            obs["opportunity"] = "taken"
            if suppressed:
                code, mtype, mid, remote = 0, "ACK", "stored", "response-address"
            else:
                mtype, mid = "ACK", "stored"
        elif suppressed:
            return obs
    if mtype is None:
        if shut:
            mtype = "NON"
        elif mcast and remote == "same":
            mtype = "NON"
        elif rel is True:
            mtype = "CON"
        elif rel is False:
            mtype = "NON"
        else:
            mtype = "NON" if reqt == "NON" else "CON"
    elif shut:
        mtype = "NON"
    if mtype == "CON" and mcast and remote == "same":
        obs["outcome"] = "raise ConToMulticast"
        return obs
    rec = (mtype, code, mid, remote, "monitor" if mtype == "CON" else "-")
    if mtype == "CON" and backlog != "absent":
        obs["queued"] = (rec,)
    else:
        obs["sent"] = (rec,)
    return obs


def _render(obs):
    parts = []
    if obs.get("timer") == "cancelled":
        parts.append(("cancel-timer",))
    if obs.get("timer") == "running":
        parts.append(("timer-left-running",))
    if obs.get("opportunity") in ("left", "changed", "appeared") or obs.get("table"):
        parts.append(("opportunity-%s" % (obs.get("opportunity") or obs.get("table")),))
    if obs.get("bystander"):
        parts.append(("other-opportunity-disturbed",))
    for s in obs.get("sent", ()):
        parts.append(("send",) + tuple(s))
    for s in obs.get("queued", ()):
        parts.append(("queue",) + tuple(s))
    if obs.get("backlogs"):
        parts.append(("backlogs", obs["backlogs"]))
    for o in obs.get("other", ()):
        parts.append((o,))
    return (tuple(parts), obs.get("outcome"))


def _send_cells():
    for code, nr, hit, preset, shut, mcast, rel, reqt, backlog in itertools.product(
            SEND_CODES, NO_RESPONSE, (False, True), (None, "CON", "NON", "ACK"), (False, True), (False, True), (True, False, None), (None, "NON", "CON"), BACKLOG):
        if code == 1 and (nr is not None or hit or reqt is not None):
            continue
        if preset == "ACK" and code == 1:
            continue
        yield (code, nr, hit, preset, shut, mcast, rel, reqt, backlog)


def _send_table(ctx):
    """All cells of the send_message table, evaluated once per program: [(cell, got, want)], executed node ids"""
    def build():
        preds = _preds(ctx)
        rows = []
        executed = set()
        for cell in _send_cells():
            got, m = send_reaction(ctx.prog, preds, *cell)
            executed |= m.executed
            rows.append((cell, got, reference_send(*cell)))
        return rows, executed
    return _cached(ctx, "send_table", build)


def _cmp(obs):
    return {k: v for k, v in obs.items() if not k.startswith("_")}


@R.clause("C10.d", "send_message decision table: piggy-backing, No-Response mask, type selection, ConToMulticast (exhaustive)")
def d(ctx):
    fi = ctx.prog.func(MM + "send_message")
    ctx.need(len(params(fi)) == 2, "send_message does not take (message, messageerror_monitor)")
    ctx.ob("send_message is atomic (plain def)", is_plain_sync(fi), fi, fi.node, construct="def send_message")
    table, _ = _send_table(ctx)
    bad = {}
    samples = []
    for cell, got, want in table:
        if len(samples) < 5 and cell[2]:
            samples.append({"code": cell[0], "no_response": cell[1], "piggyback": cell[2], "preset": cell[3], "effects": repr(_render(got))})
        if _cmp(got) != want:
            bad.setdefault((repr(_render(got)), repr(_render(want))), []).append(cell)
    # a message ID set by the application is never put on the wire
    preds = _preds(ctx)
    stale = 0
    for code, hit, preset, stale_mid in itertools.product(SEND_CODES, (False, True), (None, "CON", "NON"), (True, 0)):
        if code == 1 and hit:
            continue
        cell = (code, None, hit, preset, False, False, None, None, "absent")
        got, _m = send_reaction(ctx.prog, preds, *cell, stale_mid=stale_mid)
        stale += 1
        if _cmp(got) != reference_send(*cell):
            bad.setdefault((repr(_render(got)), repr(_render(reference_send(*cell)))), []).append(cell + (("message ID %d set by the application" % stale_mid,) if stale_mid is not True else ()))
    # the acknowledgement goes out under the request's message ID whatever its value (0 included): piggy-backed
    # response and empty ACK for a suppressed one
    for code, nr, preset, reqt, mid in itertools.product((69, 132), (None, 2, 26), (None, "CON"), ("CON",), MID_VALUES):
        cell = (code, nr, True, preset, False, False, None, reqt, "absent")
        got, _m = send_reaction(ctx.prog, preds, *cell, stored=mid)
        stale += 1
        if _cmp(got) != reference_send(*cell):
            bad.setdefault((repr(_render(got)), repr(_render(reference_send(*cell)))), []).append(cell + ("stored message ID %d" % mid,))
    rows = len(table) + stale
    ctx.extra["send_table_rows"] = rows
    ctx.extra["send_samples"] = samples
    ctx.floor("rows of the send_message table", rows, 1000)
    if not bad:
        ctx.ob("all %d cells of the send_message decision table agree with the reference" % rows, True, fi, fi.node, construct="send_message decision table")
    for (g, w), cells in sorted(bad.items())[:12]:
        ctx.ob("outcome for (code, No-Response, piggy-back, preset type, shutdown, multicast, reliability, request type, backlog) equals the reference", False, fi, fi.node,
               construct="send_message: %s instead of %s" % (g, w),
               detail="%d cell(s), e.g. code=%s no_response=%s piggyback=%s preset=%s shutdown=%s multicast=%s reliability=%s request_type=%s backlog=%s" % ((len(cells),) + cells[0][:9]) + "".join(" (%s)" % x for x in cells[0][9:]))


@R.clause("C10.f", "no transmission or queueing is reachable once mtype == CON and the destination is multicast")
def f(ctx):
    fi = ctx.prog.func(MM + "send_message")
    table, _ = _send_table(ctx)
    refused = 0
    leaked = []
    missing = []
    classes = set()
    for cell, got, want in table:
        mcast = cell[5]
        con_out = [s for s in got.get("sent", ()) + got.get("queued", ()) if s and s[0] == "CON" and len(s) > 3 and s[3] == "same"]
        if mcast and con_out:
            leaked.append((cell, con_out))
        if want["outcome"] == "raise ConToMulticast":
            if got.get("outcome") == "raise ConToMulticast":
                refused += 1
                classes.add(got["_exc"])
            else:
                missing.append(cell)
    ctx.ob("send_message refuses confirmable messages to multicast destinations (raises ConToMulticast)", refused > 0 and not missing, fi, fi.node, construct="def send_message",
           detail="refused in %d cell(s)" % refused + ("; not refused e.g. for (code, No-Response, piggy-back, preset, shutdown, multicast, reliability, request type, backlog) = %s" % (missing[0],) if missing else ""))
    ctx.ob("no confirmable message is transmitted or queued towards a multicast destination, whichever way its type was chosen", not leaked, fi, fi.node,
           construct="send_message: CON towards multicast", detail="e.g. %s -> %s" % leaked[0] if leaked else "%d cells" % len(table))
    spurious = [cell for cell, got, want in table if got.get("outcome") == "raise ConToMulticast" and want["outcome"] != "raise ConToMulticast"]
    ctx.ob("the refusal applies to CON towards multicast only", not spurious, fi, fi.node, construct="send_message: scope of the ConToMulticast refusal",
           detail="also refused: %s" % (spurious[0],) if spurious else None)
    for cls in sorted(classes):
        ctx.ob("ConToMulticast is a library error", ctx.prog.is_subclass(cls, "aiocoap.error.Error"), fi, fi.node, construct="raise %s" % cls.split(".")[-1], detail=cls)


# -- piggy-back bookkeeping ---------------------------------------------------------------------------------------

PB = "self._piggyback_opportunities"


def request_scenario(ctx, mtype, prior, mid_value=None):
    """_process_request on a request of the given type, with (prior) or without an older opportunity under the
    same (remote, token); afterwards the armed timers are fired one by one.  -> dict of observations"""
    prog = ctx.prog
    cls = prog.cls(MMCLS)
    fi = prog.func(MM + "_process_request")
    remote, token, mid = _remote("request.remote"), Obj("obj", "request.token"), (Obj("obj", "request.mid") if mid_value is None else mid_value)
    tuning = Obj("obj", "request.transport_tuning", lazy=True)
    req = Obj("obj", "request", lazy=True, attrs={"mtype": Sym(mtype), "code": 1, "mid": mid, "token": token, "remote": remote, "transport_tuning": tuning})
    by_key, by_val = (_remote("bystander.remote"), Obj("obj", "bystander.token")), (Obj("obj", "bystander.mid"), Obj("handle", "bystander-timer"))
    old = (Obj("obj", "older.mid"), Obj("handle", "older-timer"))
    pb = new_dict({by_key: by_val}, tag="_piggyback_opportunities")
    key = (remote, token)
    if prior:
        pb.data[key] = old

    def stub_send(m, args, kwargs, node):
        a = _argmap(m, "_send_initially", args, kwargs)
        m.effect("sent", dict(a[0].attrs) if isinstance(a[0], Obj) else {"?": a[0]})

    m = Machine(prog, cls, _self_obj(pb, None, new_dict(tag="_active_exchanges")), CONSTS, _preds(ctx),
                {"_send_initially": stub_send, "_next_message_id": lambda m_, a_, k_, n_: Obj("obj", "fresh-mid")})
    out = m.run(fi, [m.self_obj, req])
    o = {"machine": m, "fi": fi, "req": req, "key": key, "pb": pb, "old": old, "by_key": by_key, "by_val": by_val, "outcome": out}
    o["timers"] = [t for t in m.trace if t[0] == "call_later"]
    o["delay"] = m.getattr(tuning, "EMPTY_ACK_DELAY")
    o["table_is_same"] = m.self_obj.attrs.get("_piggyback_opportunities") is pb
    o["entry"] = pb.data.get(key)
    o["keys"] = list(pb.data.keys())
    handed = [i for i, t in enumerate(m.trace) if t[0] == "other" and t[1] == "token_manager.process_request"]
    o["handed"] = [m.trace[i] for i in handed]
    stored = [i for i, t in enumerate(m.trace) if t[0] == "table-store" and t[1] is pb and t[2] == key]
    o["stored_before_handover"] = bool(stored) and bool(handed) and max(stored) < min(handed)
    o["stray"] = [x for x in _other_effects(m.trace) if x not in ("call_later", "other:token_manager.process_request")] + ["message sent" for t in m.trace if t[0] == "sent"]
    o["cancelled"] = [t[1] for t in m.trace if t[0] == "cancel"]
    # fire
    o["fired"] = []
    for t in o["timers"]:
        _, handle, delay, cb, rest = t
        if handle.attrs.get("cancelled"):
            continue
        before = len(m.trace)
        had = key in pb.data
        res = m.invoke(cb, rest, what="empty-ACK timer callback")
        ev = m.trace[before:]
        o["fired"].append({"handle": handle, "result": res, "had": had, "acks": [e[1] for e in ev if e[0] == "sent"], "removed": [e[2] for e in ev if e[0] == "table-remove" and e[1] is pb],
                           "stray": _other_effects(ev), "cancelled": [e[1] for e in ev if e[0] == "cancel"], "left": list(pb.data.keys()),
                           "stored": [e[2] for e in ev if e[0] == "table-store"]})
    return o


@R.clause("C10.c", "piggy-back bookkeeping: timer only for CON, stored as (mid, handle) under (remote, token); every removal cancels the timer or is the timer firing")
def c(ctx):
    fi = ctx.prog.func(MM + "_process_request")
    ctx.need(len(params(fi)) == 1, "_process_request does not take exactly the request")
    node = fi.node
    executed = set()
    n_con = 0
    for mtype, prior, mid_value in itertools.product(TYPES, (False, True), (None, 0)):
        o = request_scenario(ctx, mtype, prior, mid_value)
        m = o["machine"]
        executed |= m.executed
        req, key, pb = o["req"], o["key"], o["pb"]
        world = "%s request%s, %s" % (mtype, "" if mid_value is None else " with message ID %d" % mid_value, "an older opportunity under the same (remote, token) is still open" if prior else "no older opportunity")
        ctx.ob("_process_request returns normally", o["outcome"][0] == "return", fi, node, construct="_process_request: outcome", detail="%s: %s" % (world, o["outcome"],))
        ctx.ob("the request is handed on to the token manager exactly once, and nothing else is called", len(o["handed"]) == 1 and o["handed"][0][2][:1] == (req,) and not o["stray"], fi, node,
               construct="_process_request: hand-over to the token manager", detail="%s: %d hand-over(s), other effects %s" % (world, len(o["handed"]), o["stray"]))
        ctx.ob("the table of opportunities is updated in place", o["table_is_same"], fi, node, construct="_process_request: table identity", detail=world)
        bystander_ok = o["by_key"] in pb.data and pb.data[o["by_key"]] == o["by_val"] and not o["by_val"][1].attrs.get("cancelled")
        ctx.ob("opportunities of other requests are left alone", bystander_ok and set(o["keys"]) <= {o["by_key"], key}, fi, node, construct="_process_request: other opportunities",
               detail="%s: table keys %s" % (world, [tuple(_label(x) for x in k) if isinstance(k, tuple) else _label(k) for k in o["keys"]]))
        if mtype == "CON":
            n_con += 1
            timers = o["timers"]
            ctx.ob("every confirmable request arms exactly one empty-ACK timer", len(timers) == 1, fi, node, construct="_process_request: timer for CON", detail="%s: %d timer(s)" % (world, len(timers)))
            for t in timers:
                ctx.ob("the timer delay is EMPTY_ACK_DELAY of the request's tuning", t[2] is o["delay"], fi, node, construct="_process_request: timer delay", detail="%s: delay %s" % (world, _label(t[2])))
            e = o["entry"]
            ctx.ob("the opportunity is stored under (request.remote, request.token)", e is not None and len(o["keys"]) == 2, fi, node, construct="_process_request: key of the opportunity",
                   detail="%s: table keys %s" % (world, [tuple(_label(x) for x in k) if isinstance(k, tuple) else _label(k) for k in o["keys"]]))
            hok = isinstance(e, tuple) and len(e) == 2 and _same(e[0], req.attrs["mid"]) and len(timers) == 1 and e[1] is timers[0][1]
            ctx.ob("what is stored is (request.mid, timer handle)", hok, fi, node, construct="_process_request: stored opportunity",
                   detail="%s: stored %s" % (world, tuple(_label(x) for x in e) if isinstance(e, tuple) else _label(e)))
            ctx.ob("every confirmable request gets an acknowledgement opportunity before it is processed", o["stored_before_handover"], fi, node,
                   construct="_process_request: opportunity before hand-over", detail=world)
            live = [t for t in timers if not t[1].attrs.get("cancelled")]
            ctx.ob("the timer that was just armed is left running", len(live) == len(timers), fi, node, construct="_process_request: new timer running", detail=world)
            if prior:
                ctx.ob("removing an acknowledgement opportunity cancels its empty-ACK timer on every normal path", bool(o["old"][1].attrs.get("cancelled")), fi, node,
                       construct="_process_request: superseded opportunity", detail="%s: the older timer is %s" % (world, "cancelled" if o["old"][1].attrs.get("cancelled") else "left running: a second empty ACK will be sent"))
            else:
                ctx.ob("no timer is cancelled without cause", not o["cancelled"], fi, node, construct="_process_request: cancellations", detail="%s: cancelled %s" % (world, [h.tag for h in o["cancelled"]]))
            ctx.ob("the timer can fire", len(o["fired"]) == len(live), fi, node, construct="_process_request: timer callback")
            for fz in o["fired"]:
                ctx.ob("the timer callback returns normally", fz["result"][0] == "return", fi, node, construct="empty-ACK timer callback: outcome", detail="%s: %s" % (world, fz["result"],))
                ctx.ob("the timer callback removes its own opportunity", fz["removed"] == [key] and key not in fz["left"] and not fz["stored"], fi, node, construct="empty-ACK timer callback: removal",
                       detail="%s: removed %s, left %s" % (world, [tuple(_label(x) for x in k) if isinstance(k, tuple) else _label(k) for k in fz["removed"]], len(fz["left"])))
                ctx.ob("the callback removes exactly the key it was armed for", o["by_key"] in fz["left"] and len(fz["left"]) == 1, fi, node, construct="empty-ACK timer callback: key", detail=world)
                ctx.ob("the callback sends the empty ACK", len(fz["acks"]) == 1 and not fz["stray"] and not fz["cancelled"], fi, node, construct="empty-ACK timer callback: empty ACK",
                       detail="%s: %d empty ACK(s), other effects %s" % (world, len(fz["acks"]), fz["stray"]))
                for ack in fz["acks"]:
                    isack = isinstance(ack.get("mtype"), Sym) and ack["mtype"] == "ACK" and ack.get("code") == 0 and not isinstance(ack.get("code"), bool)
                    ctx.ob("what the callback sends is an empty ACK", isack, fi, node, construct="empty-ACK timer callback: type and code", detail="%s: %s" % (world, _fields(ack)))
                    ctx.ob("the empty ACK carries the stored message ID of the request", _same(ack.get("mid"), req.attrs["mid"]), fi, node, construct="empty-ACK timer callback: message ID", detail="%s: mid %s" % (world, _label(ack.get("mid"))))
                    ctx.ob("the empty ACK goes to the request's remote", ack.get("remote") is req.attrs["remote"].resp, fi, node, construct="empty-ACK timer callback: remote", detail="%s: remote %s" % (world, _label(ack.get("remote"))))
        else:
            ctx.ob("the empty-ACK timer is armed only for confirmable requests", not o["timers"] and not o["cancelled"] and (o["entry"] is None) == (not prior) and (not prior or o["entry"] == o["old"]), fi, node,
                   construct="_process_request: timer for non-CON", detail="%s: %d timer(s), entry %s" % (world, len(o["timers"]), o["entry"]))
    ctx.floor("confirmable-request scenarios", n_con, 2)
    # a response that takes the opportunity retires it and cancels the timer (send_message, also part of the C10.d table)
    table, ex2 = _send_table(ctx)
    executed |= ex2
    sfi = ctx.prog.func(MM + "send_message")
    hits = [(cell, got) for cell, got, want in table if cell[2]]
    ctx.floor("send_message scenarios with an open opportunity", len(hits), 10)
    running = [cell for cell, got in hits if got.get("timer") != "cancelled"]
    ctx.ob("removing an acknowledgement opportunity cancels its empty-ACK timer on every normal path", not running, sfi, sfi.node, construct="send_message: timer of the used opportunity",
           detail="timer left running e.g. for (code, No-Response, piggy-back, preset, shutdown, multicast, reliability, request type, backlog) = %s" % (running[0],) if running else "%d scenarios" % len(hits))
    left = [cell for cell, got in hits if got.get("opportunity") != "taken"]
    ctx.ob("a response that uses an acknowledgement opportunity retires it", not left, sfi, sfi.node, construct="send_message: used opportunity retired",
           detail="entry still present e.g. for %s" % (left[0],) if left else "%d scenarios" % len(hits))
    disturbed = [cell for cell, got, want in table if got.get("bystander")]
    ctx.ob("opportunities of other requests are left alone", not disturbed, sfi, sfi.node, construct="send_message: other opportunities", detail="e.g. %s" % (disturbed[0],) if disturbed else None)
    # every other place that removes opportunities: either it was exercised by the scenarios above (where the timer
    # of every removed entry is observed) or it must cancel the timer of what it removes on every normal path
    sites = []
    for f in ctx.prog.funcs.values():
        if f.module.name != "aiocoap.messagemanager":
            continue
        for k, n in stores_to_any(f.node, "_piggyback_opportunities"):
            if k in ("pop", "delitem", "popitem", "clear", "ref:pop", "ref:popitem", "ref:clear"):
                sites.append((f, k, n))
    uncovered = []
    for f, k, n in sites:
        if k.startswith("ref:"):
            cov = ("called", id(n)) in executed
        else:
            cov = id(n) in executed
        if not cov:
            uncovered.append((f, k, n))
    # methods of the manager that need nothing but the manager (shutdown and the like) are exercised on a table
    # with two open opportunities: whatever they remove must have its timer cancelled when they are done
    tried = set()
    for f, k, n in list(uncovered):
        top = f
        while top.parent is not None:
            top = top.parent
        if top.cls is None or top.cls.qn != ctx.prog.cls(MMCLS).qn or params(top) or top.qn in tried:
            continue
        tried.add(top.qn)
        vals = [(Obj("obj", "mid#%d" % i), Obj("handle", "timer#%d" % i)) for i in (1, 2)]
        pb = new_dict({(_remote("remote#%d" % i), Obj("obj", "token#%d" % i)): v for i, v in zip((1, 2), vals)}, tag="_piggyback_opportunities")
        m = Machine(ctx.prog, ctx.prog.cls(MMCLS), _self_obj(pb, None, new_dict(tag="_active_exchanges")), CONSTS, _preds(ctx), {})
        m.allow_async = True
        try:
            m.run(top, [m.self_obj])
        except AnalysisError as e:
            ctx.note("%s could not be exercised (%s); its removal sites are decided on the flow graph" % (top.short, e))
            continue
        executed |= m.executed
        removed = [t[2] for t in m.trace if t[0] == "table-remove" and t[1] is pb]
        running = [v for v in vals if not any(kk in pb.data and pb.data[kk] is v for kk in pb.data) and not v[1].attrs.get("cancelled")]
        if removed:
            ctx.ob("removing an acknowledgement opportunity cancels its empty-ACK timer on every normal path", not running, top, top.node, construct="%s: timers of the removed opportunities" % top.name,
                   detail="%d removed, %d timer(s) left running" % (len(removed), len(running)))
    uncovered = [(f, k, n) for f, k, n in uncovered if not ((("called", id(n)) in executed) if k.startswith("ref:") else (id(n) in executed))]
    ctx.extra["removal_sites"] = {"total": len(sites), "exercised_by_scenarios": len(sites) - len(uncovered)}
    for f, k, n in uncovered:
        ok = False
        if not k.startswith("ref:"):
            cfg2 = cfg_of(f)
            nid = cfg2.loc1(n)
            st = cfg2.nodes[nid].ast
            han = None
            if isinstance(st, ast.Assign) and isinstance(st.targets[0], ast.Tuple) and len(st.targets[0].elts) == 2 and isinstance(st.targets[0].elts[1], ast.Name):
                han = st.targets[0].elts[1].id
            cancels = [cfg2.loc1(c) for c, _ in find("%s.cancel()" % han, f.node)] if han else []
            ok = bool(cancels) and cfg2.must_pass(nid, cancels)
        ctx.ob("removing an acknowledgement opportunity cancels its empty-ACK timer on every normal path", ok, f, n)


@R.clause("C10.g", "as_response_address strips the local (multicast) address iff the message was received on multicast")
def g(ctx):
    """Evaluated like the clauses above: as_response_address is run on an address that was / was not received on a
    multicast address; the result must be the address itself in the latter case and, in the former, a new address
    of the same class whose constructor arguments (bound through the analysed __init__ signature) keep the socket
    address and the interface but carry no pktinfo.  Guard clause vs if/else vs conditional expression, and
    type(self) vs self.__class__ vs the class name, evaluate alike."""
    prog = ctx.prog
    cls = prog.cls("transports.udp6.UDP6EndpointAddress")
    fi = prog.func("transports.udp6.UDP6EndpointAddress.as_response_address")
    init = prog.lookup_method(cls.qn, "__init__")
    ctx.need(init is not None, "UDP6EndpointAddress.__init__ missing")
    ctx.need(not params(fi), "as_response_address takes arguments")
    outcomes = set()
    for mc in (False, True):
        sockaddr, pktinfo, interface = Obj("obj", "self.sockaddr"), Obj("obj", "self.pktinfo"), Obj("obj", "self.interface")
        me = Obj("self", "self", attrs={"is_multicast_locally": mc, "sockaddr": sockaddr, "pktinfo": pktinfo, "interface": interface, 
                                    # the weak reference the interface property dereferences
                                    "_interface": Obj("builtin", "self._interface", data=lambda m_, a_, k_, n_, i_=interface: i_)})
        m = Machine(prog, cls, me, {}, _preds(ctx), {})
        out = m.run(fi, [me])
        v = out[1] if out[0] == "return" else None
        strays = _other_effects(m.trace)
        if not mc:
            ctx.ob("the address is kept as is when not received on multicast", out[0] == "return" and v is me and not strays, fi, fi.node, construct="as_response_address: not received on multicast",
                   detail="result %s" % _label(v) if out[0] == "return" else "outcome %s" % (out,))
            outcomes.add("self" if v is me else "other")
        else:
            fresh = out[0] == "return" and isinstance(v, Obj) and v is not me and isinstance(v.data, dict) and "class" in v.data
            okc = fresh and (v.data["class"] == cls.qn or prog.is_subclass(v.data["class"], cls.qn))
            no_pkt = same_sock = False
            got = None
            if okc:
                fr = kit.Frame(init.module)
                try:
                    m.bind(init.node, fr, None, [v] + list(v.data["args"]), dict(v.data["kwargs"]))
                    got = {k: _label(x) for k, x in fr.vars.items() if k != "self"}
                    no_pkt = fr.vars.get("pktinfo", pktinfo) is None
                    same_sock = fr.vars.get("sockaddr") is sockaddr and fr.vars.get("interface") is interface
                except kit.Unknown as u:
                    raise AnalysisError("C10.g: constructor call in as_response_address: %s" % u)
            ctx.ob("for messages received on multicast a copy without the local address (pktinfo) is returned", okc and no_pkt and same_sock and not strays, fi, fi.node,
                   construct="as_response_address: received on multicast", detail="constructed with %s" % got if got is not None else "result %s" % (_label(v) if out[0] == "return" else out,))
            ctx.ob("the copy is made only when received on multicast", v is not me, fi, fi.node, construct="as_response_address: copy")
            outcomes.add("copy" if fresh else "other")
    ctx.ob("both outcomes exist", outcomes == {"self", "copy"}, fi, fi.node, construct="def as_response_address")


@R.clause("C10.h", "'unmatched' means what it says: a token is registered and retired under one and the same key (shared with C02.a / C02.c)")
def h_shared(ctx):
    """Whether a confirmable response is acknowledged or Reset depends on TokenManager.process_response finding the
    token.  An independently written breaking change registered a multicast request under (token, None) but armed the
    clean-up for (token, remote): the retired token stayed 'matched' and a late CON response was ACKed instead of Reset."""
    from . import c02
    c02.a(ctx)
    c02.c(ctx)


@R.clause("C10.i", "'received on a multicast address' is decided on the normalised local address: v4-mapped groups (::ffff:224.0.1.187) count as multicast, exactly as for the remote address")
def i_multicast_locally(ctx):
    """Independently written breaking changes evaluated IPv6Address(<packed local address>).is_multicast directly (once
    inline, once through a helper that hands out the pktinfo's address as an IPv6Address object): before Python 3.13
    that is False for v4-mapped addresses, so an unmatched CON response received on an IPv4 group was answered with a
    Reset.

    Decided by VALUE, not by shape: UDP6EndpointAddress.is_multicast / .is_multicast_locally are run in the checker's
    own evaluator (kit.AddrMachine: exact strings and bytes plus a model of ipaddress / struct /
    socket.if_indextoname that states the version-dependent library semantics explicitly) on representative
    addresses -- IPv6 groups with and without a zone, IPv4 groups in their v4-mapped spelling (what a dual-stack
    socket reports), the edges of 224.0.0.0/4 and of ff00::/8, unicast addresses of both families -- under the
    library semantics of Python < 3.13 and >= 3.13, with if_indextoname succeeding and failing.  The necessary
    condition is the table itself: the property is True exactly for the groups.  How the helpers are cut
    (_plainaddress, _plainaddress_local, _strip_v4mapped, new ones, none at all), which string method strips the
    zone, whether the address object is held in a temporary ... cannot change the verdict; asking the IPv6Address of a
    v4-mapped group does (it yields False in the < 3.13 world)."""
    prog = ctx.prog
    cls = prog.cls("transports.udp6.UDP6EndpointAddress")
    # interface indices of the scenarios: 0 = none, 3 = an interface if_indextoname knows (or not, second world)
    worlds = [(aware, names) for aware in (False, True) for names in ({3: "eth0"}, {})]
    remote = [(a, 0) for a in _ADDRESSES] + [("ff02::fd", 3), ("fe80::1", 3), ("ff02::fd%eth0", 3), ("fe80::1%eth0", 3)]
    local = [(a, i) for a in _ADDRESSES for i in (0, 3)]
    for prop, scenarios in (("is_multicast", remote), ("is_multicast_locally", local)):
        fi = prog.lookup_method(cls.qn, prop)
        ctx.need(fi is not None, "UDP6EndpointAddress.%s missing" % prop)
        wrong = []
        for literal, index in scenarios:
            host = kit._host_ip.IPv6Address(literal)
            expected = kit.reference_is_multicast(6, int(host))
            for aware, names in worlds:
                interface = Obj("obj", "self.interface")
                if prop == "is_multicast":
                    # the peer: (host, port, flowinfo, scope_id) as the socket reports it; the local address of the
                    # same datagram is a unicast one (so that nothing but the sockaddr can make it a multicast peer)
                    sockaddr = (literal, 5683, 0, index)
                    pktinfo = kit._host_struct.pack("16sI", kit._host_ip.IPv6Address("2001:db8::2").packed, 0)
                else:
                    sockaddr = ("2001:db8::1", 5683, 0, 0)
                    pktinfo = kit._host_struct.pack("16sI", host.packed, index)
                me = Obj("self", "self", attrs={"sockaddr": sockaddr, "pktinfo": pktinfo, "interface": interface,
                                                "_interface": Obj("builtin", "self._interface", data=lambda m_, a_, k_, n_, i_=interface: i_)})
                m = kit.AddrMachine(prog, cls, me, {}, {}, {}, if_names=names, mapped_aware=aware)
                try:
                    try:
                        got = m.getattr(me, prop, fi.node)
                        ctx.need(not (isinstance(got, Obj) and got.kind in ("bound", "func", "partial")), "UDP6EndpointAddress.%s is not a property" % prop)
                        got = "True" if m.truth(got) else "False"
                    except kit.Raised as r:
                        got = "raises %s" % r.cls
                except kit.Unknown as u:
                    raise AnalysisError("C10.i: evaluation of %s on %s: %s is outside the evaluator's vocabulary" % (prop, literal, u))
                if got != str(expected):
                    w = "%s%s -> %s" % (literal, " (interface %d)" % index if index else "", got)
                    if w not in wrong:
                        wrong.append(w)
        ctx.ob("%s is True exactly for multicast groups, IPv4 groups in v4-mapped form included" % prop, not wrong, fi, fi.node,
               construct="UDP6EndpointAddress.%s" % prop, detail="; ".join(wrong[:6]) if wrong else None)


# -- the constructor the message layer builds its own messages with ----------------------------------------------

MSG = "message.Message"


def _construct_message(ctx, kwargs):
    """Message(**kwargs) evaluated through the analysed __init__ -> ('return', Obj) | ('raise', class)"""
    prog = ctx.prog
    m = Machine(prog, prog.cls(MSG), Obj("self", "unused"), CONSTS, _preds(ctx), {})
    try:
        try:
            return ("return", m.construct(prog.cls(MSG).qn, [], dict(kwargs), None))
        except kit.Raised as r:
            return ("raise", r.cls)
    except kit.Unknown as u:
        raise AnalysisError("evaluation of Message(%s): %s is outside the evaluator's vocabulary" % (", ".join(sorted(kwargs)), u))


@R.clause("C10.j", "Message(...) files the message ID, type and code it is given under .mid / .mtype / .code for every legal value -- message ID 0, type CON (= 0) and code EMPTY (= 0.00) included -- under either spelling of the keyword")
def j_constructor(ctx):
    """The message layer builds every Reset and empty ACK through this constructor (`Message(_mtype=RST, _mid=..,
    code=EMPTY)`, `Message(code=EMPTY, mid=mid, mtype=ACK)`); 'acknowledged under its message ID' therefore also says
    that the constructor hands on what it is given.  An independently written breaking change tested the deprecated
    `mid=` keyword by truthiness: the empty ACK for a suppressed response to a request with message ID 0 went out
    under a fresh ID.  Decided by evaluating the analysed __init__ (helpers, guard order, spelling of the tests do not
    matter) on every message type, on the boundary message IDs and on the boundary codes of every class; the same
    scenarios run end to end through send_message / _send_empty_ack / _process_ping in C10.b-d."""
    prog = ctx.prog
    fi = prog.lookup_method(prog.cls(MSG).qn, "__init__")
    ctx.need(fi is not None, "Message.__init__ missing")
    ind = Obj("obj", "some-mid")
    n = 0
    for key in ("_mid", "mid"):
        wrong = []
        for mid in MID_VALUES + (ind, None):
            out = _construct_message(ctx, {"code": 0, key: mid})
            got = out[1].attrs.get("mid", "<unset>") if out[0] == "return" else "raises %s" % out[1]
            n += 1
            if not (out[0] == "return" and ((mid is None and got is None) or (mid is not None and _same(got, mid)))):
                wrong.append("%s=%s -> .mid %s" % (key, _label(mid), _label(got)))
        ctx.ob("Message(%s=m).mid is m for every message ID (0 is a message ID)" % key, not wrong, fi, fi.node, construct="Message(%s=...)" % key, detail="; ".join(wrong) if wrong else None)
    tvals = kit.Machine(prog, prog.cls(MSG), Obj("self", "unused"), CONSTS, {}, {}).enum_members(kit.TYPE) if kit.TYPE in prog.classes else {}
    ctx.need(set(TYPES) <= set(tvals) and all(isinstance(tvals[t], int) for t in TYPES), "numbers.types.Type does not define CON, NON, ACK, RST as integers")
    for key in ("_mtype", "mtype"):
        wrong = []
        for t in TYPES:
            for given in (Sym(t), tvals[t]):
                out = _construct_message(ctx, {"code": 0, key: given})
                got = out[1].attrs.get("mtype", "<unset>") if out[0] == "return" else "raises %s" % out[1]
                n += 1
                if not (out[0] == "return" and isinstance(got, Sym) and got == t):
                    wrong.append("%s=%s -> .mtype %s" % (key, _label(given), _label(got)))
        out = _construct_message(ctx, {"code": 0, key: None})
        if not (out[0] == "return" and out[1].attrs.get("mtype", "<unset>") is None):
            wrong.append("%s=None -> %s" % (key, _label(out[1].attrs.get("mtype", "<unset>")) if out[0] == "return" else "raises %s" % out[1]))
        ctx.ob("Message(%s=t).mtype is t for every message type (CON is 0), and stays unset (None) when none is given" % key, not wrong, fi, fi.node, construct="Message(%s=...)" % key,
               detail="; ".join(wrong) if wrong else None)
    wrong = []
    for code in (0, 1, 31, 64, 69, 132, 160, 191, None):
        out = _construct_message(ctx, {"code": code, "_mtype": Sym("ACK"), "_mid": ind})
        got = out[1].attrs.get("code", "<unset>") if out[0] == "return" else "raises %s" % out[1]
        n += 1
        if not (out[0] == "return" and ((code is None and got is None) or (code is not None and type(got) is int and got == code))):
            wrong.append("code=%s -> .code %s" % (_code_label(code), _label(got)))
        elif out[1].attrs.get("mid") is not ind or out[1].attrs.get("mtype") != "ACK":
            wrong.append("code=%s -> mid %s, mtype %s" % (_code_label(code), _label(out[1].attrs.get("mid")), _label(out[1].attrs.get("mtype"))))
    ctx.ob("Message(code=c).code is c for every code (EMPTY is 0)", not wrong, fi, fi.node, construct="Message(code=...)", detail="; ".join(wrong) if wrong else None)
    out = _construct_message(ctx, {"code": 0})
    ok = out[0] == "return" and out[1].attrs.get("mid", 1) is None and out[1].attrs.get("mtype", 1) is None and out[1].attrs.get("remote", 1) is None
    ctx.ob("a message built without message ID, type and remote has none (the message layer fills them in)", ok, fi, fi.node, construct="Message(): defaults",
           detail=None if ok else (str({k: _label(v) for k, v in out[1].attrs.items() if k in ("mid", "mtype", "remote")}) if out[0] == "return" else "raises %s" % out[1]))
    ctx.floor("constructor scenarios", n, 20)


# -- responses that arrive from another hop (forwarding proxy) ---------------------------------------------------

PROXY_MODULE = "aiocoap.proxy.server"


def _hop_message(m, tag, code, mtype, peer, opt_attrs=None):
    """A message as Message.decode leaves it after arriving from `peer`: built by the analysed constructor, then
    message type / ID / token / remote / direction of that hop filled in.  Its options are all safe to forward."""
    o = m.construct(kit.MESSAGE, [], {"code": code}, None)
    o.tag = tag
    direction = m.member_value("aiocoap.message.Direction", "INCOMING") if "aiocoap.message.Direction" in m.prog.classes and "INCOMING" in m.enum_members("aiocoap.message.Direction") else Sym("Direction.INCOMING")
    o.attrs.update({"mtype": Sym(mtype), "mid": Obj("obj", tag + ".mid"), "token": Obj("obj", tag + ".token"), "remote": _remote(peer), "direction": direction})
    o.attrs["opt"] = Obj("obj", tag + ".opt", lazy=True, attrs=dict(opt_attrs or {}), methods={"option_list": lambda m_, recv, a, k, n: ()})
    return o


def forwarded_response(ctx, cls, fi, req_type, up_type):
    """`fi` (a render method of the proxy class `cls`) run in a world where a redirector accepts the request and the
    upstream server answers 2.05 in a message of type `up_type`; for the pooled-observation proxy the answer is also
    what the observation it shares last delivered.  -> (outcome, machine, upstream message)"""
    prog = ctx.prog
    me = Obj("self", "self", lazy=True)
    m = Machine(prog, cls, me, {}, _preds(ctx), {})
    m.allow_async = True
    m.opaque_readers = True
    try:
        request = _hop_message(m, "request", 1, req_type, "client", {"observe": None, "proxy_uri": None, "proxy_scheme": None})
        upstream = _hop_message(m, "upstream-response", 69, up_type, "upstream")
    except kit.Unknown as u:
        raise AnalysisError("evaluation of Message(code=..): %s is outside the evaluator's vocabulary" % u)
    except kit.Raised as r:
        raise AnalysisError("Message(code=..) raises %s" % r.cls)
    cache_key = Obj("obj", "cache-key")
    # every request of this world asks for the same resource: one cache key
    m.instance_stubs["get_cache_key"] = lambda m_, recv, a, k, n: cache_key
    redirector = Obj("obj", "redirector", methods={"apply_redirection": lambda m_, recv, a, k, n: a[0] if a else k.get("request")})
    pending = Obj("obj", "outgoing-request", lazy=True, attrs={"response": upstream, "_ProxyWithPooledObservations__latest_response": upstream, "__latest_response": upstream})
    me.attrs["outgoing_context"] = Obj("obj", "outgoing_context", methods={"request": lambda m_, recv, a, k, n: pending})
    me.attrs["_redirectors"] = new_list([redirector], tag="_redirectors")
    me.attrs["_outgoing_observations"] = new_dict({cache_key: pending}, tag="_outgoing_observations")
    out = m.run(fi, [me, request][:1 + len(params(fi))])
    return out, m, upstream, request


def _legal_on_the_wire(sent, hit, reqt):
    """RFC 7252 section 5.2 and the property text: a response that finds the acknowledgement still open is the
    piggy-backed ACK under the request's message ID; otherwise it is a separate response (CON or NON, fresh message
    ID), a non-confirmable one when the request was non-confirmable and nobody asked for reliability."""
    if len(sent) != 1 or len(sent[0]) < 3:
        return False
    mt, _code, mid = sent[0][:3]
    if hit:
        return mt == "ACK" and mid == "stored"
    if reqt == "NON":
        return mt == "NON" and mid == "fresh"
    return mt in ("CON", "NON") and mid == "fresh"


@R.clause("C10.k", "a response forwarded from another hop reaches the wire typed by this hop's rules: what a proxy's render hands on and what send_message makes of it, taken together")
def k_forwarded(ctx):
    """TWO SITES.  send_message chooses the message type itself only for a message that has none and honours a type
    that is set (C10.d); a forwarding proxy hands the message it received from the upstream server on as its own
    response, and that message carries the type it had on the upstream hop (ACK when it was piggy-backed there, CON or
    NON when it was separate).  An independently written breaking change replaced the field-by-field reset in
    Proxy.render by `response.copy(mid=None, remote=None, token=None)`: Message.copy keeps the type, so a slow
    piggy-backed upstream answer left the proxy as a second ACK with a fresh message ID, and a NON request was answered
    CON whenever the upstream server had answered CON.

    The invariant is stated over both sites: every render method of the proxy module is run (Message.__init__,
    Message.copy and whatever helpers it uses are evaluated, not modelled) with an upstream answer of each type;
    whatever message type its result carries is then given as the preset type to the analysed send_message, for a
    confirmable request whose acknowledgement is still open / already sent and for a non-confirmable request, and
    what reaches the wire must be legal for THIS hop.  Either site may change (render may reset, copy with
    mtype-less constructor, build a new message; send_message may stop honouring presets on responses) as long as the
    composition holds."""
    prog = ctx.prog
    preds = _preds(ctx)
    proxy_classes = [c for q, c in sorted(prog.classes.items()) if c.module.name == PROXY_MODULE and "render" in c.methods]
    ctx.floor("proxy classes with a render method", len(proxy_classes), 1)
    n = 0
    for cls in proxy_classes:
        fi = cls.methods["render"]
        ctx.need(len(params(fi)) == 1, "%s does not take exactly the request" % fi.short)
        for req_type, up_type in itertools.product(("CON", "NON"), ("CON", "NON", "ACK")):
            out, m, upstream, request = forwarded_response(ctx, cls, fi, req_type, up_type)
            world = "%s request, upstream answer typed %s" % (req_type, up_type)
            ctx.need(out[0] == "return", "%s does not return in the world of a forwarded response (%s): %s" % (fi.short, world, out))
            resp = out[1]
            ctx.need(isinstance(resp, Obj) and not resp.token and "mtype" in resp.attrs and "code" in resp.attrs,
                     "%s: the result in the world of a forwarded response (%s) is not a message the evaluator can follow: %s" % (fi.short, world, _label(resp)))
            ctx.need(resp.attrs["code"] == 69, "%s: the upstream answer is not what is handed on (%s)" % (fi.short, world))
            mt = resp.attrs["mtype"]
            ctx.need(mt is None or (isinstance(mt, Sym) and mt in TYPES), "%s: message type of the result is %s" % (fi.short, _label(mt)))
            preset = None if mt is None else str(mt)
            for hit in ((False, True) if req_type == "CON" else (False,)):
                got, _m = send_reaction(prog, preds, 69, None, hit, preset, False, False, None, req_type, "absent")
                ok = got.get("outcome") == "return" and not got.get("queued") and _legal_on_the_wire(got.get("sent", ()), hit, req_type)
                n += 1
                ctx.ob("a forwarded response leaves typed by the rules of this hop (piggy-backed ACK under the request's message ID while the acknowledgement is open; afterwards a separate CON/NON "
                       "response, NON by default for a NON request), whatever type it had on the upstream hop", ok, fi, fi.node,
                       construct="%s.render: message type of the forwarded response" % cls.qn.split(".")[-1],
                       detail="%s, %s: render hands on mtype=%s, send_message makes %s of it" % (world, "acknowledgement still open" if hit else "no acknowledgement open", _label(mt), list(got.get("sent", ())) or got.get("outcome")))
    ctx.floor("forwarded-response scenarios", n, 9)


# -- exactly one acknowledgement per request, however often it is received -------------------------------------------

def retransmission_scenario(ctx, mtype, copies, mid_value=None):
    """The same request is received `copies` times (dispatch_message with the analysed duplicate filter and the
    analysed _process_request: the tables of recent messages and of open opportunities are whatever the first
    reception leaves behind, no key shape is assumed) while the handler is still busy; then the empty-ACK timers
    that are still running fire.  -> dict of observations"""
    prog = ctx.prog
    cls = prog.cls(MMCLS)
    fi = prog.func(MM + "dispatch_message")
    remote = _remote("message.remote")
    mid = Obj("obj", "message.mid") if mid_value is None else mid_value
    tuning = Obj("obj", "message.transport_tuning", lazy=True)
    msg = Obj("obj", "message", lazy=True, attrs={"mtype": Sym(mtype), "code": 1, "mid": mid, "token": Obj("obj", "message.token"), "remote": remote, "transport_tuning": tuning})

    def stub_send(m, args, kwargs, node):
        a = _argmap(m, "_send_initially", args, kwargs)
        m.effect("sent", a[0])

    pb = new_dict(tag="_piggyback_opportunities")
    s = _self_obj(pb, None, new_dict(tag="_active_exchanges"))
    # every table the constructor creates empty starts empty (the duplicate filter's among them, under whatever name)
    init = prog.lookup_method(cls.qn, "__init__")
    for st in (ast.walk(init.node) if init is not None else ()):
        if isinstance(st, (ast.Assign, ast.AnnAssign)) and st.value is not None:
            v = st.value
            empty = (isinstance(v, ast.Dict) and not v.keys) or (isinstance(v, ast.Call) and isinstance(v.func, ast.Name) and v.func.id == "dict" and not v.args and not v.keywords)
            for t in (st.targets if isinstance(st, ast.Assign) else [st.target]):
                if empty and isinstance(t, ast.Attribute) and isinstance(t.value, ast.Name) and t.value.id == "self" and t.attr not in s.attrs:
                    s.attrs[t.attr] = new_dict(tag=t.attr)
    s.attrs.setdefault("_recent_messages", new_dict(tag="_recent_messages"))
    m = Machine(prog, cls, s, CONSTS, _preds(ctx), {"_send_initially": stub_send, "_next_message_id": lambda m_, a_, k_, n_: Obj("obj", "fresh-mid")})
    o = {"machine": m, "fi": fi, "msg": msg, "pb": pb, "outcomes": [], "marks": []}
    for i in range(copies):
        o["outcomes"].append(m.run(fi, [m.self_obj, msg]))
        o["marks"].append(len(m.trace))
    delay = m.getattr(tuning, "EMPTY_ACK_DELAY")
    # the timers that stand for an acknowledgement: armed with EMPTY_ACK_DELAY, or referred to from the table of
    # opportunities (the expiry of the duplicate filter, armed with EXCHANGE_LIFETIME, is far beyond the scenario)
    in_table = []
    for v in pb.data.values():
        in_table.extend(x for x in (v if isinstance(v, tuple) else (v,)) if isinstance(x, Obj) and x.kind == "handle")
    o["left_open"] = len(pb.data)
    o["fired"] = []
    for t in [t for t in m.trace if t[0] == "call_later"]:
        _, handle, dl, cb, rest = t
        if handle.attrs.get("cancelled") or not (dl is delay or any(handle is h for h in in_table)):
            continue
        o["fired"].append(m.invoke(cb, rest, what="empty-ACK timer callback"))

    def is_ack_of_request(x):
        if not isinstance(x, Obj):
            return False
        mt = x.attrs.get("mtype")
        return isinstance(mt, Sym) and mt == "ACK" and _same(x.attrs.get("mid"), mid)
    sent = [(i, t[1]) for i, t in enumerate(m.trace) if t[0] == "sent"]
    o["acks"] = [(i, x) for i, x in sent if is_ack_of_request(x)]
    o["acks_on_reception"] = [x for i, x in o["acks"] if i < o["marks"][-1]]
    return o


@R.clause("C10.l", "a request that is received more than once while its response is being prepared is still acknowledged exactly once (CON) resp. never (NON): whatever acknowledges it on reception retires the open opportunity and its timer")
def l_retransmission(ctx):
    fi = ctx.prog.func(MM + "dispatch_message")
    n = 0
    for mtype, copies, mid_value in itertools.product(("CON", "NON"), (1, 2, 3), (None, 0)):
        o = retransmission_scenario(ctx, mtype, copies, mid_value)
        n += 1
        world = "%s request%s received %d time(s) before its response is ready" % (mtype, "" if mid_value is None else " with message ID %d" % mid_value, copies)
        ctx.ob("dispatch_message returns normally for every copy of a request", all(x[0] == "return" for x in o["outcomes"]), fi, fi.node, construct="dispatch_message: outcome for retransmitted requests",
               detail="%s: %s" % (world, [x[0] for x in o["outcomes"]]))
        acks = o["acks"]
        if mtype == "CON":
            # Necessary for "acknowledged exactly once under its message ID": after the receptions, with the handler
            # still busy, the only thing left to happen is that the running empty-ACK timers fire; all ACKs under
            # the request's message ID that the receptions and the timers produce together must be one.  (A stored
            # reply that is sent again is the same acknowledgement; none is stored here, the handler has not answered.)
            ctx.ob("a confirmable request is acknowledged exactly once under its message ID, however often it is received before the response is ready", len(acks) == 1, fi, fi.node,
                   construct="acknowledgements of a retransmitted confirmable request",
                   detail="%s: %d ACK(s) under the request's message ID (%d on reception, %d by the empty-ACK timers)" % (world, len(acks), len(o["acks_on_reception"]), len(acks) - len(o["acks_on_reception"])))
            if o["acks_on_reception"]:
                # acknowledged on reception: an opportunity left open would let send_message piggy-back the response
                # on the same message ID once more
                ctx.ob("an acknowledgement sent on reception of a request retires the request's open opportunity", o["left_open"] == 0, fi, fi.node,
                       construct="acknowledgement on reception: open opportunity", detail="%s: %d opportunity(ies) left open" % (world, o["left_open"]))
        else:
            ctx.ob("a non-confirmable request is never acknowledged, however often it is received", not acks and o["left_open"] == 0, fi, fi.node, construct="acknowledgements of a retransmitted non-confirmable request",
                   detail="%s: %d ACK(s) under the request's message ID, %d opportunity(ies) opened" % (world, len(acks), o["left_open"]))
    ctx.floor("retransmission scenarios", n, 12)


# representative addresses (as IPv6 literals: what the dual-stack socket reports): groups and non-groups of both
# families, and both edges of ff00::/8 and of 224.0.0.0/4 behind the v4 mapping
_ADDRESSES = (
    "ff02::fd", "ff05::fd", "ff00::", "ff0e::1:2", "ffff:ffff:ffff:ffff:ffff:ffff:ffff:ffff",
    "::ffff:224.0.1.187", "::ffff:224.0.0.0", "::ffff:239.255.255.255", "::ffff:239.1.2.3",
    "::ffff:223.255.255.255", "::ffff:240.0.0.0", "::ffff:192.0.2.7", "::ffff:255.0.0.1", "::ffff:127.0.0.1",
    "2001:db8::1", "fe80::1", "feff::1", "::1", "::", "::224.0.1.187", "::fffe:224.0.1.187", "64:ff9b::e000:1bb",
)


F_MM = "aiocoap/messagemanager.py"
R.seed("C10.a", F_MM, "        elif message.code.is_request() and message.mtype in (CON, NON):", "        elif message.code.is_request() and message.mtype in (CON,):", "NON requests ignored")
R.seed("C10.a", F_MM, "                if message.mtype == CON and not message.remote.is_multicast_locally:", "                if message.mtype == CON:", "Reset also on multicast")
R.seed("C10.a", F_MM, "                if message.mtype == CON and not message.remote.is_multicast_locally:", "                if message.mtype == CON and not message.remote.is_multicast:", "tests the peer's address instead of the local one")
R.seed("C10.a", F_MM, "                if message.mtype == CON and not message.remote.is_multicast_locally:", "                if not message.remote.is_multicast_locally:", "Reset for unmatched NON")
R.seed("C10.a", F_MM, "        if message.code is EMPTY and message.mtype is CON:\n            self._process_ping(message)", "        if message.code is EMPTY and message.mtype in (CON, NON):\n            self._process_ping(message)", "Reset for empty NON")
R.seed("C10.a", F_MM, "        elif message.code.is_response() and message.mtype in (CON, NON, ACK):", "        elif message.code.is_response() and message.mtype in (CON, NON, ACK, RST):", "response in RST processed")
R.seed("C10.a", F_MM, "                if message.mtype is CON:\n                    self._send_empty_ack(", "                if message.mtype in (CON, NON):\n                    self._send_empty_ack(", "NON responses acknowledged")
R.seed("C10.a", "aiocoap/numbers/codes.py", "return True if (self >= 1 and self < 32) else False", "return True if (self >= 1 and self < 31) else False", "code 0.31 not a request")
R.seed("C10.a", "aiocoap/numbers/codes.py", "return True if (self >= 1 and self < 32) else False", "return self.class_ == 0", "EMPTY (0.00) counts as a request: empty ACK/RST go through the duplicate filter")
R.seed("C10.b", F_MM, "rst = Message(_mtype=RST, _mid=message.mid, code=EMPTY, payload=b\"\")", "rst = Message(_mtype=RST, _mid=self._next_message_id(), code=EMPTY, payload=b\"\")", "Reset with a fresh mid")
R.seed("C10.b", F_MM, "                    rst.remote = message.remote.as_response_address()", "                    rst.remote = message.remote", "Reset from the multicast address")
R.seed("C10.b", F_MM, "        ack.mid = mid\n", "        ack.mid = self._next_message_id()\n", "ACK with a fresh mid")
R.seed("C10.c", F_MM, "                mid, handle = self._piggyback_opportunities.pop(piggyback_key)\n                handle.cancel()\n", "                mid, handle = self._piggyback_opportunities.pop(piggyback_key)\n", "timer not cancelled: second ACK")
R.seed("C10.c", F_MM, "        if request.mtype == CON:\n\n            def on_timeout", "        if request.mtype in (CON, NON):\n\n            def on_timeout", "NON requests acknowledged")
R.seed("C10.c", F_MM, "            self._piggyback_opportunities[key] = (request.mid, handle)", "            self._piggyback_opportunities[key] = (self.message_id, handle)", "wrong mid stored")
R.seed("C10.c", F_MM, "            key = (request.remote, request.token)\n            if key in self._piggyback_opportunities:", "            key = (request.remote, request.mid)\n            if key in self._piggyback_opportunities:", "keyed by mid")
R.seed("C10.d", F_MM, "                1 << message.code.class_ - 1\n", "                1 << message.code.class_\n", "No-Response mask shifted")
R.seed("C10.d", F_MM, "                    message.mtype = ACK\n                    message.mid = mid\n", "                    message.mtype = ACK\n", "piggy-backed response with a fresh mid")
R.seed("C10.d", F_MM, "                if no_response:\n                    self.log.debug(\n                        \"Stopping message", "                if False:\n                    self.log.debug(\n                        \"Stopping message", "suppressed response sent")
R.seed("C10.d", F_MM, "                        case None:\n                            if (\n                                message.request is not None\n                                and message.request.mtype is NON\n                            ):\n                                message.mtype = NON", "                        case None:\n                            if (\n                                message.request is not None\n                                and message.request.mtype is NON\n                            ):\n                                message.mtype = CON", "NON request answered CON")
R.seed("C10.d", F_MM, "                if message.remote.is_multicast:\n                    message.mtype = NON", "                if False:\n                    message.mtype = NON", "CON chosen for multicast")
R.seed("C10.d", F_MM, "                    new_message = Message(code=EMPTY, mid=mid, mtype=ACK)", "                    new_message = Message(code=EMPTY, mid=mid, mtype=NON)", "suppressed response: empty NON instead of ACK")
R.seed("C10.f", F_MM, "        if message.mtype == CON and message.remote.is_multicast:\n            raise error.ConToMulticast\n\n        if message.mid is None:\n            message.mid = self._next_message_id()\n\n", "        if message.mid is None:\n            message.mid = self._next_message_id()\n\n", "test removed")
R.seed("C10.g", "aiocoap/transports/udp6.py", "        if not self.is_multicast_locally:\n            return self", "        if self.is_multicast_locally:\n            return self", "inverted")
R.seed("C10.g", "aiocoap/transports/udp6.py", "        return type(self)(self.sockaddr, self.interface)\n", "        return type(self)(self.sockaddr, self.interface, pktinfo=self.pktinfo)\n", "local address kept")

# seeds for the scenario-based clauses: each breaks one observation the scenarios make
R.seed("C10.b", F_MM, "        rst.remote = message.remote.as_response_address()\n        # not going via", "        rst.remote = message.remote\n        # not going via", "ping answered from the multicast address")
R.seed("C10.b", F_MM, "        ack.remote = remote.as_response_address()\n", "        ack.remote = remote\n", "empty ACKs leave from the multicast address the request came to")
R.seed("C10.c", F_MM, "                mid, handle = self._piggyback_opportunities.pop(piggyback_key)\n", "                mid, handle = self._piggyback_opportunities[piggyback_key]\n", "used opportunity not retired: a later response is piggy-backed on the same ACK again")
R.seed("C10.c", F_MM, "                mid, own_timeout = self._piggyback_opportunities.pop((remote, token))", "                mid, own_timeout = self._piggyback_opportunities[(remote, token)]", "fired timer leaves its opportunity behind: the separate response is sent as a second ACK")
R.seed("C10.c", F_MM, "                old_handle.cancel()\n", "                pass\n", "superseded opportunity: old timer keeps running")
R.seed("C10.c", F_MM, "                request.remote, mid, \"Response took too long to prepare\"", "                request.remote, request.token, \"Response took too long to prepare\"", "empty ACK under something that is not the stored message ID")
R.seed("C10.d", F_MM, "        if message.mtype == CON and message.remote in self._backlogs:", "        if message.mtype == CON and self._backlogs.get(message.remote):", "an open exchange with an empty queue no longer holds back the next CON (NSTART)")
R.seed("C10.d", F_MM, "            self._send_initially(message, messageerror_monitor)\n", "            self._send_initially(message)\n", "confirmable message sent without its monitor")
R.seed("C10.d", F_MM, "            self._backlogs[message.remote].append((message, messageerror_monitor))", "            self._backlogs[message.remote].insert(0, (message, messageerror_monitor))", "backlog served last-in first-out")
R.seed("C10.f", F_MM, "        if message.mtype == CON and message.remote.is_multicast:\n            raise error.ConToMulticast", "        if message.mtype == CON and message.remote.is_multicast and message.code.is_request():\n            raise error.ConToMulticast", "confirmable responses to multicast let through")

R.seed("C10.h", "aiocoap/tokenmanager.py", "        request.on_interest_end(\n            functools.partial(self.outgoing_requests.pop, key, None)\n        )\n", "        request.on_interest_end(\n            functools.partial(self.outgoing_requests.pop, (msg.token, msg.remote), None)\n        )\n", "multicast request cleaned up under another key than it is registered under")

R.seed("C10.i", "aiocoap/transports/udp6.py", "        return ipaddress.ip_address(self._plainaddress_local()).is_multicast", "        return ipaddress.IPv6Address(_in6_pktinfo.unpack_from(self.pktinfo)[0]).is_multicast", "v4-mapped multicast groups are not recognised: Reset sent to an IPv4 group")
R.seed("C10.i", "aiocoap/transports/udp6.py", "        return ipaddress.ip_address(self._plainaddress().split(\"%\", 1)[0]).is_multicast", "        return ipaddress.IPv6Address(self.sockaddr[0]).is_multicast", "the peer's v4-mapped group address is not recognised: CON sent to an IPv4 group")
R.seed("C10.i", "aiocoap/transports/udp6.py", "        addr, interface = _in6_pktinfo.unpack_from(self.pktinfo)\n\n        return self._strip_v4mapped(addr)", "        addr, interface = _in6_pktinfo.unpack_from(self.pktinfo)\n\n        return str(ipaddress.IPv6Address(addr))", "local address rendered without undoing the v4 mapping: the text of an IPv4 group parses as a non-multicast IPv6 address")
R.seed("C10.i", "aiocoap/transports/udp6.py", "        if mapped is not None:\n            return str(mapped)\n        return str(address)", "        if mapped is None:\n            return str(mapped)\n        return str(address)", "inverted test in _strip_v4mapped: mapped addresses stay mapped (and plain ones become 'None')")

# message ID 0 is a message ID (scenarios with concrete boundary message IDs in C10.b / C10.c / C10.d)
R.seed("C10.b", F_MM, "        ack.mid = mid\n", "        ack.mid = mid or self._next_message_id()\n", "empty ACK for message ID 0 goes out under a fresh message ID")
R.seed("C10.b", F_MM, "rst = Message(_mtype=RST, _mid=message.mid, code=EMPTY, payload=b\"\")", "rst = Message(_mtype=RST, _mid=message.mid or None, code=EMPTY, payload=b\"\")", "Reset for message ID 0 carries no message ID")
R.seed("C10.c", F_MM, "            self._piggyback_opportunities[key] = (request.mid, handle)", "            self._piggyback_opportunities[key] = (request.mid or None, handle)", "message ID 0 is not remembered for the acknowledgement")
R.seed("C10.d", F_MM, "                    message.mtype = ACK\n                    message.mid = mid\n", "                    message.mtype = ACK\n                    if mid:\n                        message.mid = mid\n", "response piggy-backed on message ID 0 gets a fresh message ID")

F_MSG = "aiocoap/message.py"
R.seed("C10.j", F_MSG, "        if mid is not None:\n", "        if mid:\n", "deprecated mid= keyword tested by truthiness: message ID 0 is dropped")
R.seed("C10.j", F_MSG, "        if _mtype is None:\n", "        if not _mtype:\n", "type tested by truthiness: CON (= 0) is dropped")
R.seed("C10.j", F_MSG, "        if code is None:\n            # as above with mtype", "        if not code:\n            # as above with mtype", "code tested by truthiness: EMPTY (0.00) is dropped")
R.seed("C10.j", F_MSG, "        self.mid = _mid\n", "        self.mid = _mid or None\n", "message ID 0 filed as 'none yet'")
R.seed("C10.j", F_MSG, "        if mtype is not None:\n", "        if mtype:\n", "deprecated mtype= keyword tested by truthiness: CON is dropped")

F_PROXY = "aiocoap/proxy/server.py"
R.seed("C10.k", F_PROXY, "        response.mtype = None\n        response.mid = None\n", "        response.mid = None\n", "forwarded response keeps the message type of the upstream hop")
R.seed("C10.k", F_PROXY, "            cached_response.remote = None\n            cached_response.mtype = None\n", "            cached_response.remote = None\n", "response served from a pooled observation keeps the type the notification had upstream")
R.seed("C10.k", F_PROXY, "        response.mtype = None\n        response.mid = None\n        response.remote = None\n", "        response = response.copy(mid=None, remote=None)\n", "copy() keeps the message type")
R.seed("C10.d", F_MM, "        if message.mid is not None:\n            # if you can give any reason", "        if message.mid:\n            # if you can give any reason", "a message ID of 0 set by the application survives and is used instead of a fresh one")
# ninth group: the same request received more than once
R.seed("C10.l", F_MM, "                    self.log.info(\"Duplicate CON received, no response to send yet\")", "                    self._send_empty_ack(message.remote, message.mid, reason=\"still working on it\")", "a retransmitted CON request is acknowledged on reception while its opportunity stays open: a second ACK (empty or piggy-backed) follows under the same message ID")
R.seed("C10.l", F_MM, "                self.log.info(\"Duplicate NON, ACK or RST received\")", "                self._send_empty_ack(message.remote, message.mid, reason=\"seen it\")", "a repeated NON request is acknowledged")
R.seed("C10.l", F_MM, "            if self._deduplicate_message(message) is True:\n                return\n", "            if self._deduplicate_message(message) is True:\n                if message.mtype is CON:\n                    self._send_empty_ack(message.remote, message.mid, reason=\"duplicate\")\n                return\n", "duplicates acknowledged from dispatch_message itself, opportunity left open")
