"""C18 Shutdown at any moment fails pending work and leaves nothing running."""

import ast

from ..rulekit import *
from ..norm import Normalizer, Poly
from . import _kit_c18 as K

R = Rules(
    "C18",
    explanation=(
        "Clauses of the shutdown sequence decided on protocol.Context.shutdown, TokenManager and "
        "MessageManager: Context.shutdown starts ri.shutdown() for every request interface and waits with the module "
        "constant SHUTDOWN_TIMEOUT (a positive number), returning on both outcomes; TokenManager.shutdown drains both "
        "request tables (every removed incoming request's stopper is called, every removed outgoing request receives "
        "LibraryShutdown, a library Error), retires the tables (None) before awaiting the lower layer; "
        "TokenManager.request fails immediately with LibraryShutdown once the table is retired, before doing anything "
        "else; **timer ownership**: every loop.call_later handle created in messagemanager.py is either stored in a "
        "container that MessageManager.shutdown walks calling cancel() on that element, or its callback is inert (only "
        "removes a key from a dict of the same object); late dispatch_error calls return at once when the tables are "
        "retired; send_message degrades to NON while shutting down; **entries that leave a timer table** (pop, del, "
        "popitem, replacing the value of a key known to be present) have their handle cancelled on every path on which an "
        "entry was in fact taken (abstract runs with the table unknown and the entries modelled from the declared "
        "component types: an int/bytes component may be falsy but is never None, a handle is an object), except in the "
        "fired timer's own callback; only shutdown replaces a timer table, after reading it.  Facts are located by what the code does: element "
        "flow (of which container is the receiver of cancel()/shutdown() an element: for targets, unpacking, subscripts, "
        "snapshots, comprehensions, generators bound to locals, loop+append builders), forward value flow (where a "
        "removed entry / a timer handle ends up: locals, tuples, helpers, return values at every caller), callables "
        "normalised (lambda, nested def, partial, bound method), and the checker's own finite-domain interpreter with "
        "forking on open conditions for 'with the table retired, exactly this happens' (request, dispatch_error, "
        "send_message).  Completion of the transports' own shutdown and garbage collection are not decided."
    ),
    rule_text="drain-loop and pairing rules on CFGs with element/value flow, timer-handle ownership (who stores it, who cancels it), path-sensitive abstract runs with the tables retired",
)

TM = "tokenmanager.TokenManager."
MM = "messagemanager.MessageManager."


def _resolved_name(ctx, fi, call):
    """qualified name of the callee as far as imports tell (asyncio.wait, functools.partial, ...)"""
    c = call_name(call)
    return ctx.prog.resolve_in_module(fi.module, c) if c else None


def _is_awaited(fi, call):
    """The value of `call` is awaited: directly, or through a local it was bound to."""
    cfg = cfg_of(fi)
    if isinstance(cfg.parent.get(id(call)), ast.Await):
        return True
    for n in walk_no_nested(fi.node):
        if isinstance(n, ast.Await) and isinstance(n.value, ast.Name) and resolve_local(fi.node, n.value) is call:
            return True
    return False


def _walk_through_locals(fnode, e, depth=0):
    """sub-expressions of e, looking through single-assignment locals (`x = f(); g(x)` is `g(f())`)"""
    for n in ast.walk(e):
        yield n
        if isinstance(n, ast.Name) and isinstance(n.ctx, ast.Load) and depth < 4:
            v = assigned_value(fnode, n.id)
            if v is not None and len(writes_to_name(fnode, n.id)) == 1:
                yield from _walk_through_locals(fnode, v, depth + 1)


@R.clause("C18.a", "Context.shutdown shuts every request interface down and waits at most SHUTDOWN_TIMEOUT")
def a(ctx):
    fi = ctx.prog.func("protocol.Context.shutdown")
    waits = [c for c in calls_in(fi.node) if _resolved_name(ctx, fi, c) in ("asyncio.wait", "asyncio.wait_for")]
    ctx.floor("asyncio.wait in Context.shutdown", len(waits), 1)
    for w in waits:
        # the bound: keyword `timeout=` or the second positional argument, possibly through a local
        to = next((k.value for k in w.keywords if k.arg == "timeout"), None)
        if to is None and len(w.args) > 1:
            to = w.args[1]
        to = resolve_local(fi.node, to) if to is not None else None
        ok = False
        detail = "timeout=%s" % (ast.unparse(to) if to is not None else None)
        if to is not None and chain(to):
            q = ctx.prog.resolve_in_module(fi.module, chain(to))
            if q == "aiocoap.numbers.constants.SHUTDOWN_TIMEOUT" or q.endswith(".SHUTDOWN_TIMEOUT"):
                try:
                    v = norm.consteval(ctx.prog.module_const("numbers.constants", "SHUTDOWN_TIMEOUT"))
                    ok = isinstance(v, (int, float)) and not isinstance(v, bool) and 0 < v <= 60
                    detail += " = %r" % v
                except norm.NormError:
                    ok = False
        ctx.ob("the wait for the interfaces' shutdown is bounded by the constant SHUTDOWN_TIMEOUT", ok, fi, w, detail=detail)
        # what is waited for: one element per request interface, each starting that interface's shutdown().
        # The collection may be a comprehension, a list()/generator, a local built by a loop with append, or
        # gather(*collection); the element is found by element flow, not by its spelling.
        arg = w.args[0] if w.args else next((k.value for k in w.keywords if k.arg in ("fs", "fut", "aws")), None)
        if isinstance(arg, ast.Call) and _resolved_name(ctx, fi, arg) == "asyncio.gather" and len(arg.args) == 1 and isinstance(arg.args[0], ast.Starred):
            arg = arg.args[0].value
        EF = K.ElemFlow(fi)
        EF.elements(arg)
        ok2 = bool(EF.elt_exprs) and not EF.filters
        for expr, env in EF.elt_exprs:
            started = False
            for c in _walk_through_locals(fi.node, expr):
                if isinstance(c, ast.Call) and isinstance(c.func, ast.Attribute) and c.func.attr == "shutdown" and not c.args:
                    if EF.shape(c.func.value, env) == ("src", "self.request_interfaces", "iter", ()):
                        started = True
            ok2 = ok2 and started
        ctx.ob("shutdown() is started for every element of request_interfaces", ok2, fi, w, detail="; ".join(EF.filters) or None)
        ctx.ob("the wait is awaited", _is_awaited(fi, w), fi, w)
        if _resolved_name(ctx, fi, w) == "asyncio.wait_for":
            # unlike asyncio.wait, wait_for raises on time-out: shutdown returns on both outcomes only if that is caught
            cfg = cfg_of(fi)
            caught = False
            child, p = w, cfg.parent.get(id(w))
            while p is not None and p is not fi.node:
                if isinstance(p, ast.Try) and any(child is x for x in p.body):
                    for h in p.handlers:
                        names = [] if h.type is None else [(chain(x) or "?").split(".")[-1] for x in (h.type.elts if isinstance(h.type, ast.Tuple) else [h.type])]
                        if h.type is None or any(x in ("TimeoutError", "Exception", "BaseException") for x in names):
                            caught = True
                child, p = p, cfg.parent.get(id(p))
            ctx.ob("a time-out of the bounded wait does not make shutdown raise", caught, fi, w)
    raises = [n for n in walk_no_nested(fi.node) if isinstance(n, ast.Raise)]
    ctx.ob("Context.shutdown returns normally whether or not interfaces are still busy (no raise)", not raises, fi, raises[0] if raises else fi.node, construct=stmt_text(raises[0]) if raises else "def shutdown")


def _retire_stores(fi, field):
    """assignments `self.<table> = None` (the value may come through a local)"""
    out = []
    for k, n in stores_to(fi.node, field, nested=False):
        if k == "assign" and isinstance(n, (ast.Assign, ast.AnnAssign)) and n.value is not None:
            v = resolve_local(fi.node, n.value)
            if isinstance(v, ast.Constant) and v.value is None:
                out.append(n)
    return out


def _drain(ctx, fi, table, what, base_event, check_event):
    """Every entry of the table is taken out (or visited on a snapshot) and treated, then the
    table is retired with None.

    Item sources, by what they do:
      * removal: `t.pop(k)`, `t.popitem()`, through a local alias of the table or through a program
        function that pops from its parameter and returns the result -- inside a loop that runs
        while the table is known to be non-empty (any spelling of the emptiness test), or inside a
        `for` over a snapshot of the table's keys;
      * visit: the target of a `for` over a *snapshot* (`list(..)`, `tuple(..)`, comprehension, ...)
        of `t.values()` / `t.items()`; iterating the live dict is not accepted: the treatment
        (stopper / add_exception callbacks) removes entries from the very table;
      * removal through a generator of the program that pops and yields entries of the table it is
        given (or of the same field of self) while the table is non-empty: the target of a `for` over it.
    From every source every normal path that continues the loop or leaves shutdown passes the
    treatment of *that* item (value flow from the removed/visited value to the call)."""
    cfg = cfg_of(fi)
    field = "self." + table
    nones = _retire_stores(fi, field)
    ctx.ob("%s is retired (set to None) by shutdown" % table, bool(nones), fi, nones[0] if nones else fi.node, construct=stmt_text(nones[0]) if nones else "def shutdown: %s" % table)
    EF = K.ElemFlow(fi)
    sources = []  # (cfg start nodes, loop head / own node, ast node, Flow uses, base projection, complete?)
    for call, kind in K.removal_sites(ctx.prog, fi, field):
        pn = cfg.loc1(call)
        uses = K.Flow(ctx.prog).from_expr(fi, call)
        base = () if kind == "pop" else (1,)
        in_loop = pn in cfg.reach({pn}, skip_labels=("exc",))
        complete = in_loop and K.known_nonempty_at(cfg, fi.node, pn, field)
        if not complete:
            # `for k in list(t): v = t.pop(k)`: every key of a snapshot is removed
            for lp in EF.enclosing_loops(call):
                if isinstance(lp, ast.While):
                    continue
                EF.filters, EF.snapshot = [], False
                el = EF.elements(lp.iter)
                key = call.args[0] if (isinstance(call.func, ast.Attribute) and call.args) else None
                if len(el) == 1 and el[0] is not None and el[0][0] == "src" and el[0][1] == field and el[0][2] in ("key", "iter") and not el[0][3] and EF.snapshot and not EF.filters \
                        and key is not None and EF.shape(key) == el[0] and K.runs_every_round(cfg, pn, lp):
                    complete = True
        sources.append(({pn}, pn, call, uses, base, complete, "removal"))
    for lp in [n for n in walk_no_nested(fi.node) if isinstance(n, (ast.For, ast.AsyncFor))]:
        dg = K.draining_iter(ctx.prog, fi, lp.iter, field)
        if dg is not None:
            # removal handed out by a draining generator of the program: `for v in drain(t)` is
            # `while t: v = t.pop(..)` -- the generator takes one entry out per round, looks at the table afresh
            # in between and ends only when it is empty (all of that decided on the generator's own CFG and value
            # flow, K.draining_generator); the consumer must not leave the loop early (the generator would stay
            # suspended with entries in the table).  The value flow continues at the loop target, in the layout
            # the generator yields the removed entry in.
            kind, layouts = dg
            head = cfg.loc1(lp)
            starts = {d for d, lab in cfg.succ[head] if lab == "T"}
            uses = []
            for w, pr in layouts:
                uses = uses + K.Flow(ctx.prog).from_target(fi, lp, lp.target, wrap=w, proj=pr)
            sources.append((starts, head, lp, uses, () if kind == "pop" else (1,), not K.loop_leaves_early(lp), "visit"))
            continue
        EF.filters, EF.snapshot = [], False
        el = EF.elements(lp.iter)
        if len(el) != 1 or el[0] is None:
            continue
        s = el[0]
        base = None
        if s[0] == "src" and s[1] == field and s[2] == "val" and not s[3]:
            base = ()
        elif s[0] == "tup" and len(s[1]) == 2 and s[1][1] == ("src", field, "val", ()):
            base = (1,)
        if base is None:
            continue
        head = cfg.loc1(lp)
        starts = {d for d, lab in cfg.succ[head] if lab == "T"}
        uses = K.Flow(ctx.prog).from_target(fi, lp, lp.target)
        complete = EF.snapshot and not EF.filters and not K.loop_leaves_early(lp)
        sources.append((starts, head, lp, uses, base, complete, "visit"))
    ctx.ob("%s are taken out of the table one by one" % what, bool(sources), fi, sources[0][2] if sources else fi.node, construct=stmt_text(sources[0][2]) if sources else "def shutdown: %s" % table)
    for starts, again, node, uses, base, complete, kind in sources:
        ctx.ob("removal runs in a loop that continues while the table is non-empty", complete, fi, node,
               detail=None if complete else "%s of %s neither in a loop guarded by its non-emptiness nor in a loop over a snapshot of all its entries" % (kind, table))
        treats = check_event(cfg, node, uses, base)
        if kind == "removal":
            # from the removal, neither the removal itself (next round of the loop) nor the end of shutdown is
            # reached without passing the treatment (which may be part of the removing statement itself)
            r = set() if again in treats else cfg.reach({again}, avoid=set(treats), skip_labels=("exc",))
        else:
            # from the start of the loop body, neither the loop head nor the end of shutdown ...
            r = cfg.reach(starts, avoid=set(treats), skip_labels=("exc",), include_src=True)
        ok = bool(treats) and again not in r and cfg.exit not in r
        ctx.ob(base_event, ok, fi, node)
    for n in nones:
        nn = cfg.loc1(n)
        drained = K.known_empty_at(cfg, fi.node, nn, field)
        if not drained:
            # after a complete loop over a snapshot of all entries
            for starts, again, node, uses, base, complete, kind in sources:
                if complete and isinstance(node, (ast.For, ast.AsyncFor)) and any(cfg.nodes[d].kind == "F" and cfg.dominates(d, nn) for d, lab in cfg.succ[again] if lab == "F"):
                    drained = True
                if complete and kind == "removal":
                    for lp in EF.enclosing_loops(node):
                        if isinstance(lp, (ast.For, ast.AsyncFor)) and any(cfg.nodes[d].kind == "F" and cfg.dominates(d, nn) for d, lab in cfg.succ[cfg.loc1(lp)] if lab == "F"):
                            drained = True
        after = all(cfg.exists_path(min(starts), nn) for starts, *_ in sources)
        ctx.ob("the table is retired only after it has been drained", (drained or not sources) and after, fi, n)
    return nones


@R.clause("C18.b", "TokenManager.shutdown stops every incoming request, fails every outgoing request with LibraryShutdown, retires both tables, then shuts the lower layer down")
def b(ctx):
    fi = ctx.prog.func(TM + "shutdown")

    def where(cfg, u):
        """CFG node of shutdown() at which the use happens: the use itself, or the call of the helper the value was
        passed to -- provided every normal path through that helper passes the use"""
        if u.site is None:
            return [cfg.loc1(u.node)] if u.fi is fi else []
        c2 = cfg_of(u.fi)
        return [cfg.loc1(u.site)] if c2.must_pass(c2.entry, [c2.loc1(u.node)]) else []

    def inc_item(cfg, node, uses, base):
        # the second component of the removed (pipe, stopper) pair is called
        return [n for u in uses if u.kind == "called" and u.proj == base + (1,) for n in where(cfg, u)]

    def out_item(cfg, node, uses, base):
        treats = []
        for u in uses:
            if not (u.kind == "method" and u.what == "add_exception" and u.proj == base and u.node.args and where(cfg, u)):
                continue
            e = resolve_local(u.fi.node, u.node.args[0])
            cls = ctx.prog.resolve_in_module(u.fi.module, chain(e.func) or "?") if isinstance(e, ast.Call) else None
            okc = cls is not None and ctx.prog.is_subclass(cls, "aiocoap.error.LibraryShutdown") and ctx.prog.is_subclass(cls, "aiocoap.error.Error")
            ctx.ob("pending requests are failed with LibraryShutdown (a library Error)", okc, u.fi, u.node, detail=str(cls))
            treats.extend(where(cfg, u))
        return treats

    n1 = _drain(ctx, fi, "incoming_requests", "incoming requests", "the stopper of every removed incoming request is called (server handlers are cancelled)", inc_item)
    n2 = _drain(ctx, fi, "outgoing_requests", "outgoing requests", "every removed outgoing request receives the shutdown error", out_item)
    cfg = cfg_of(fi)
    lower = [n for n in walk_no_nested(fi.node) if isinstance(n, ast.Await) and isinstance(resolve_local(fi.node, n.value), ast.Call)
             and K.chain_of(fi.node, resolve_local(fi.node, n.value).func.value if isinstance(resolve_local(fi.node, n.value).func, ast.Attribute) else None) == "self.token_interface"
             and resolve_local(fi.node, n.value).func.attr == "shutdown"]
    ctx.ob("the lower layer's shutdown is awaited", bool(lower) and cfg.must_pass(cfg.entry, [cfg.loc1(l) for l in lower]), fi, lower[0] if lower else fi.node, construct=stmt_text(lower[0]) if lower else "def shutdown")
    for l in lower:
        ln = cfg.loc1(l)
        for n in n1 + n2:
            ctx.ob("both tables are retired before the first suspension point of shutdown", cfg.dominates(cfg.loc1(n), ln), fi, n)
        aw = [cfg.loc1(x) for x in walk_no_nested(fi.node) if isinstance(x, ast.Await)]
        ctx.ob("no earlier suspension point exists", all(a == ln or ln in cfg.dominators(a) for a in aw), fi, l)
    ci = ctx.prog.cls("error.LibraryShutdown")
    ctx.ob("LibraryShutdown derives from the library's error base class", ctx.prog.is_subclass(ci.qn, "aiocoap.error.Error"), None, None, construct="class LibraryShutdown")


def _effects(m):
    """what a run did to the world: calls the interpreter could not look into, stores outside the locals,
    transmissions -- everything but logging and the construction of objects"""
    return [t for t in m.trace if t[0] in ("call", "setattr", "setitem", "delete", "table-store", "table-remove", "queue", "send", "exchange")]


def _show_effect(t):
    return "%s %s" % (t[0], t[1])


def _alive_runs(ctx, fi, table_attr, others=()):
    """All runs with `self.<table_attr>` an (alive) empty table and the other tables unknown."""
    ps = params(fi)

    def make_env():
        me = K.Obj("self", **dict({table_attr: K.DictVal(table_attr, "empty")}, **{o: K.DictVal(o, "unknown") for o in others}))
        env = {"self": me}
        for p in ps:
            env[p] = K.Obj("argument " + p)
        return env

    return K.explore(ctx.prog, fi, make_env, {}, {}, {}, record_all=True, max_runs=4096)


def _retired_runs(ctx, fi, table_attr, extra_self=None):
    """All runs of fi in the checker's own interpreter with `self.<table_attr>` retired (None): one run per way
    of answering the conditions this leaves open.  Path-sensitive by construction: a flag set in one branch and
    tested later, a guard moved into a helper, early return vs. nesting, the spelling of the None test -- none of
    them matters, only what is executed."""
    ps = params(fi)

    def make_env():
        me = K.Obj("self", **dict({table_attr: None}, **(extra_self or {})))
        env = {"self": me}
        for p in ps:
            env[p] = K.Obj("argument " + p)
        return env

    return K.explore(ctx.prog, fi, make_env, {}, {}, {}, record_all=True)


@R.clause("C18.c", "TokenManager.request fails at once with LibraryShutdown after shutdown, before doing anything else")
def c(ctx):
    fi = ctx.prog.func(TM + "request")
    ctx.need(len(params(fi)) >= 1, "request(self, request) expected")
    rq = params(fi)[0]
    runs = _retired_runs(ctx, fi, "outgoing_requests", {"incoming_requests": None})
    ctx.floor("runs of request() on a shut-down token manager", len(runs), 1)
    bad = None
    for m in runs:
        eff = _effects(m)
        fails = [t for t in eff if t[0] == "call" and t[1] == "add_exception" and isinstance(t[2], K.Obj) and t[2].tag == "argument " + rq and len(t[3]) == 1
                 and isinstance(t[3][0], K.Obj) and ctx.prog.is_subclass(t[3][0].attrs.get("__class__", "?"), "aiocoap.error.LibraryShutdown")]
        if not (m.outcome == "return" and len(fails) == 1 and len(eff) == 1):
            bad = (m, eff, fails)
            break
    if bad is None:
        ctx.ob("after shutdown request() fails the request with LibraryShutdown and does nothing else (every path)", True, fi, fi.node, construct="request() after shutdown")
    else:
        m, eff, fails = bad
        others = [t for t in eff if t not in fails]
        if m.outcome != "return":
            what, msg = "request() after shutdown: %s" % m.outcome, "after shutdown request() returns normally"
        elif not fails:
            what, msg = "request() after shutdown: %s" % ([_show_effect(t) for t in eff] or "nothing happens"), "after shutdown the request is failed with LibraryShutdown on every path"
        else:
            what, msg = "request() after shutdown also does: %s" % [_show_effect(t) for t in others][:4], "after shutdown nothing is registered or sent, the shutdown test precedes every other effect of request()"
        ctx.ob(msg, False, fi, fi.node, construct=what, detail="open conditions: %s" % (", ".join("%s=%s" % d for d in m.decisions) or "none"))
    ctx.extra["request_after_shutdown_runs"] = len(runs)
    # ... and only then: a token manager that is alive (its table merely empty) does not refuse requests.  (Without
    # this, "fails after shutdown" would also be met by a guard on the table's emptiness.)
    alive = _alive_runs(ctx, fi, "outgoing_requests", ("incoming_requests",))

    def refuses(m):
        return any(t[0] == "call" and t[1] == "add_exception" and len(t[3]) == 1 and isinstance(t[3][0], K.Obj)
                   and ctx.prog.is_subclass(t[3][0].attrs.get("__class__", "?"), "aiocoap.error.LibraryShutdown") for t in m.trace)
    wrong = [m for m in alive if refuses(m)]
    ctx.ob("request() refuses with LibraryShutdown only when the table is retired (not when it is merely empty)", not wrong, fi, fi.node, construct="request() on an idle, alive token manager",
           detail=None if not wrong else "open conditions: %s" % (", ".join("%s=%s" % d for d in wrong[0].decisions) or "none"))


def _owner_key(chain_text, path):
    return (chain_text, None if not path else (path[0] if len(path) == 1 else tuple(path)))


def _cancel_walks(ctx, sh):
    """{(field, tuple position or None)}: MessageManager.shutdown calls .cancel() on that component
    of *every* element of the container.

    Decided by element flow from the receiver of each `.cancel()` call back to the container it is
    an element of: through for targets, tuple unpacking, constant subscripts, `.values()` /
    `.items()`, `list()/tuple()/sorted()` snapshots, comprehensions and generator expressions bound
    to locals, loop + append builders, concatenations.  A walk only counts if nothing filters the
    elements (no `if` in a comprehension, no condition around the append or the cancel, no
    break/return out of the loop) -- or if the loop drains the container until it is empty."""
    out = set()
    EF = K.ElemFlow(sh)
    cfg = cfg_of(sh)
    for c in calls_in(sh.node):
        if not (isinstance(c.func, ast.Attribute) and c.func.attr == "cancel" and not c.args):
            continue
        EF.filters = []
        alts = K.flatten(EF.shape(c.func.value))
        if EF.filters or not alts or any(s is None or s[0] != "src" or s[2] != "val" for s in alts):
            continue
        nid = cfg.loc1(c)
        loops = EF.enclosing_loops(c)
        if not loops or not K.runs_every_round(cfg, nid, loops[0]) or any(not K.runs_every_round(cfg, cfg.loc1(i), o) for i, o in zip(loops, loops[1:])):
            continue
        if not K.always_runs(cfg, loops[-1]):
            continue
        conds = K.inner_conditions(cfg, nid, loops)
        if conds:
            # only the condition of a draining `while <container is non-empty>` loop is acceptable
            if len(alts) != 1 or not all((K.nonempty_test(sh.node, e) or (None, None))[0] == alts[0][1] for e, pol in conds):
                continue
            if not (K.known_nonempty_at(cfg, sh.node, nid, alts[0][1]) and any(isinstance(lp, ast.While) for lp in loops)):
                continue
        for s in alts:
            out.add(_owner_key(s[1], s[3]))
    return out


@R.clause("C18.d", "timer ownership: every call_later handle of the message layer is cancelled by shutdown or its callback is inert")
def d(ctx):
    sh = ctx.prog.func(MM + "shutdown")
    walks = _cancel_walks(ctx, sh)
    ctx.extra["shutdown_cancel_walks"] = sorted(map(str, walks))
    sites = []
    for fi in ctx.prog.funcs.values():
        if fi.module.name != "aiocoap.messagemanager":
            continue
        for c in calls_in(fi.node):
            if isinstance(c.func, ast.Attribute) and c.func.attr in ("call_later", "call_at") :
                sites.append((fi, c))
    ctx.floor("call_later sites in messagemanager.py", len(sites), 3)
    # callbacks that only forget a key of a dict of the same object -- lambda, nested def, functools.partial,
    # bound method, with or without default-argument binding are the same thing
    inert = {}
    own_nodes = set()
    for fi, c in sites:
        cb = c.args[1] if len(c.args) > 1 else None
        rem = K.callback_removals(ctx.prog, fi, cb, nextra=len(c.args) - 2) if cb is not None and not any(isinstance(x, ast.Starred) for x in c.args) else None
        if rem:
            inert[id(c)] = rem
            for fld, may_raise, node in rem:
                own_nodes.add(id(node))
                own_nodes.add(id(getattr(node, "func", None)))
    for fi, c in sites:
        if id(c) in inert:
            ctx.ob("timer callback is inert (only forgets a key of the same object)", True, fi, c)
            # ... and cannot raise after shutdown: a removal that raises KeyError on a missing key (`pop(key)`
            # without default, `del d[key]`) is safe only while nothing else ever removes entries from that dict
            for fld in sorted({f for f, may_raise, _ in inert[id(c)] if may_raise}):
                removers = []
                for fn, hits in field_writers(ctx.prog, fld).items():
                    for kind, node in hits:
                        if id(node) in own_nodes:
                            continue
                        if kind in ("pop", "popitem", "clear", "delitem", "del", "remove", "discard") or (kind == "assign" and not fn.endswith(".__init__")):
                            removers.append((fn, kind, node))
                if removers:
                    f2 = ctx.prog.funcs["aiocoap." + removers[0][0]]
                    ctx.ob("a pending inert timer cannot raise: no other code removes entries of %s (its callback pops without a default)" % fld, False, f2, removers[0][2],
                           detail="%s in %s while %s.pop(key) timers without default may still be pending" % (removers[0][1], removers[0][0], fld))
                else:
                    ctx.ob("a pending inert timer cannot raise: no other code removes entries of %s" % fld, True, fi, c)
            continue
        owners = set()
        ok = _handle_owned(ctx, fi, c, walks, owners)
        ctx.ob("the timer handle is kept where MessageManager.shutdown cancels it", ok, fi, c,
               detail="handle stored in %s; shutdown cancels %s" % (sorted(map(str, owners)) or "nothing", sorted(map(str, walks)) or "nothing"))
    # shutdown retires _active_exchanges
    nones = _retire_stores(sh, "self._active_exchanges")
    ctx.ob("MessageManager.shutdown retires _active_exchanges (None marks 'shutting down')", bool(nones), sh, nones[0] if nones else sh.node, construct=stmt_text(nones[0]) if nones else "def shutdown")
    cfg = cfg_of(sh)
    lower = [n for n in walk_no_nested(sh.node) if isinstance(n, ast.Await)]
    for n in nones:
        for l in lower:
            ctx.ob("timers are cancelled and the table retired before the first suspension point", cfg.dominates(cfg.loc1(n), cfg.loc1(l)), sh, n)

    def is_mi_shutdown(l):
        v = resolve_local(sh.node, l.value)
        return isinstance(v, ast.Call) and isinstance(v.func, ast.Attribute) and v.func.attr == "shutdown" and K.chain_of(sh.node, v.func.value) == "self.message_interface"
    ctx.ob("the message interface's shutdown is awaited", any(is_mi_shutdown(l) for l in lower), sh, sh.node, construct="def shutdown")


def _handle_owned(ctx, fi, call, walks, owners, depth=0, wrap=()):
    """Does the value of `call` end up where shutdown cancels it?  Forward value flow through locals (reaching
    definitions), tuple packing, conditional expressions, helper parameters, into the container element it is stored
    in (`d[k] = ...`, `d.setdefault(k, ...)`, `l.append(...)`).  A value that is returned must be owned at *every*
    call of the returning function (a caller that drops it leaves a timer nobody can cancel).  `owners` collects
    {(field, position)} for the report."""
    uses = K.Flow(ctx.prog, follow_returns=False).from_expr(fi, call, wrap=wrap)
    mine = {_owner_key(u.what, u.wrap) for u in uses if u.kind == "stored" and u.what and not u.proj}
    owners |= mine
    if mine & walks:
        return True
    returned = {u.wrap for u in uses if u.kind == "returned" and not u.proj}
    if returned and depth < 3:
        callers = K.callers_of(ctx.prog, fi)
        # (returned bare or inside a tuple: the position inside the returned value travels along)
        return bool(callers) and all(any(_handle_owned(ctx, f2, c2, walks, owners, depth + 1, w) for w in returned) for f2, c2 in callers)
    return False


def _timer_callback_only(ctx, fi, tkey, depth=0):
    """Is fi run *only* as the callback of timers whose handle is kept in the table `tkey` (table chain, position)?
    Then the entry it finds there is the one of the timer that has just fired: there is nothing left to cancel.
    Every reference to the function must be: the callback argument of a call_later/call_at whose handle is owned by
    that table (directly, as the function of a functools.partial, or called from a lambda that is that argument), or
    a call from a function that itself is nothing but such a callback."""
    if depth > 3:
        return False
    name = fi.name
    refs = []
    for g in ctx.prog.funcs.values():
        if g.module is not fi.module:
            continue
        for n in walk_with_lambdas(g.node):
            if fi.parent is not None:
                if isinstance(n, ast.Name) and n.id == name and isinstance(n.ctx, ast.Load) and (g is fi.parent or g.parent is fi.parent or g is fi):
                    refs.append((g, n))
            elif isinstance(n, ast.Attribute) and n.attr == name and isinstance(n.ctx, ast.Load):
                refs.append((g, n))
            elif isinstance(n, ast.Name) and n.id == name and isinstance(n.ctx, ast.Load) and fi.cls is None:
                refs.append((g, n))
    if not refs:
        return False
    for g, r in refs:
        cfg = cfg_of(g)
        node, p = r, cfg.parent.get(id(r))
        via_call = False
        if isinstance(p, ast.Call) and p.func is node:
            via_call = True
            # the call may sit in a lambda that is handed to call_later
            q = p
            while q is not None and not isinstance(q, ast.Lambda):
                q = cfg.parent.get(id(q))
                if q is g.node:
                    q = None
            if q is None:
                # a plain call from g: g itself must be nothing but such a callback
                if g is fi or not _timer_callback_only(ctx, g, tkey, depth + 1):
                    return False
                continue
            node, p = q, cfg.parent.get(id(q))
        if isinstance(p, ast.Call) and K._is_partial(ctx.prog, g, p) and p.args and p.args[0] is node:
            node, p = p, cfg.parent.get(id(p))
        # through a local the callable was bound to
        if isinstance(p, ast.Assign) and len(p.targets) == 1 and isinstance(p.targets[0], ast.Name) and len(writes_to_name(g.node, p.targets[0].id)) == 1:
            loads = [x for x in walk_with_lambdas(g.node) if isinstance(x, ast.Name) and x.id == p.targets[0].id and isinstance(x.ctx, ast.Load)]
            if len(loads) != 1:
                return False
            node, p = loads[0], cfg.parent.get(id(loads[0]))
        if not (isinstance(p, ast.Call) and isinstance(p.func, ast.Attribute) and p.func.attr in ("call_later", "call_at") and len(p.args) > 1 and p.args[1] is node):
            return False
        if not _handle_owned(ctx, g, p, {tkey}, set()):
            return False
    return True


_REMOVING = ("pop", "popitem", "delitem", "setitem", "setdefault", "__setitem__", "__delitem__", "update")
_DROPPING = ("assign", "clear", "del")


@R.clause("C18.i", "an entry that leaves a timer table takes its timer along: whatever removes or replaces an entry of a table whose handles shutdown cancels, cancels that entry's handle on every path on which an entry was in fact taken (unless it is the fired timer's own callback)")
def i_taken_entries(ctx):
    """C18.d shows that every timer handle is *put* where shutdown will find it; this clause shows that it is still
    there -- or dead -- when shutdown comes.  An independently written breaking change turned `if key in table: (mid,
    handle) = table.pop(key); handle.cancel()` into `mid, handle = table.pop(key, (None, None)); if mid: handle.cancel()`:
    for the legal message ID 0 the superseded empty-ACK timer left the table armed, and fired after shutdown.

    Every function of the message layer that takes entries out of such a table is run in the checker's own interpreter
    with the table unknown (each key present or absent) and entries modelled from what the table is declared to hold
    (the handle: an object; an int / bytes component: never None, possibly falsy).  On no run may an entry be removed
    (pop, del, popitem) or knowingly replaced (store to a key the run has seen present) without cancel() on its
    handle.  Replacing the whole table is left to shutdown, after its cancel walk has read it."""
    sh = ctx.prog.func(MM + "shutdown")
    ci = ctx.prog.cls("messagemanager.MessageManager")
    walks = _cancel_walks(ctx, sh)
    ctx.floor("timer tables whose handles MessageManager.shutdown cancels", len(walks), 1)
    import functools
    nsites = 0
    nruns = 0
    for tkey in sorted(walks, key=str):
        chain_text, pos = tkey
        ctx.need(chain_text.startswith("self.") and chain_text.count(".") == 1, "timer table %s is a field of the message manager" % chain_text)
        field = chain_text.split(".", 1)[1]
        models = K.table_models(ctx.prog, ci, field, pos)
        ctx.need(models is not False, "shape of the entries of %s (annotation, or tuples of one arity stored into it)" % chain_text)
        info = K.TimerInfo(ctx.prog, ci, field, pos, models)
        todo = []
        for fi in info.funcs:
            if fi.name == "__init__":
                continue
            hits = stores_to(fi.node, chain_text, nested=False)
            if any(k in _REMOVING for k, n in hits):
                todo.append((fi, 0))
            for k, n in hits:
                if k in _DROPPING:
                    _whole_table_drop(ctx, fi, sh, chain_text, k, n)
        done = set()
        while todo:
            fi, lvl = todo.pop(0)
            if fi.qn in done:
                continue
            done.add(fi.qn)
            own = _timer_callback_only(ctx, fi, tkey)
            a = fi.node.args
            names = [x.arg for x in a.posonlyargs + a.args + a.kwonlyargs] + [x.arg for x in (a.vararg, a.kwarg) if x is not None]

            def make_env(names=names):
                env = {"self": K.Obj("self", **{field: K.TimerTable(field, pos, models)})}
                for p in names:
                    if p not in ("self", "cls"):
                        env[p] = K.Unk(p)
                return env

            runs = K.explore(ctx.prog, fi, make_env, {}, {}, {}, skip_methods=info.skip_methods, max_runs=6000, record_all=True,
                             machine=functools.partial(K.TimerMachine, info=info))
            nruns += len(runs)
            # every removal the function spells out was executed on some run (else it is not decided, and saying
            # nothing would be a verdict): lambdas are callables of their own (timer callbacks), not part of the run
            seen = set()
            for m in runs:
                seen |= m.visited_calls
            in_lambda = {id(x) for l in walk_no_nested(fi.node) if isinstance(l, ast.Lambda) for x in ast.walk(l)}
            for k, n in stores_to(fi.node, chain_text, nested=False):
                if k not in ("pop", "popitem", "delitem", "__delitem__") or id(n) in in_lambda:
                    continue
                parts = [n] + ([t for t in n.targets] if isinstance(n, ast.Delete) else [])
                ctx.need(any(id(x) in seen for x in parts), "the removal `%s` in %s is reached by a run of the checker's interpreter" % (stmt_text(n, 60), fi.short))
            sites = {}
            for m in runs:
                loose = m.loose()
                if own and len(loose) <= 1:
                    loose = []  # the fired timer's own entry
                for n, how, site, node in m.taken:
                    sites.setdefault(id(site), [site, how, None])
                for n, how, site, node, fate in loose:
                    if fate == "returned":
                        if lvl < 2:
                            todo.extend((f2, lvl + 1) for f2, c2 in K.callers_of(ctx.prog, fi))
                        continue
                    if fate == "escaped":
                        ctx.note("%s: an entry taken out of %s is handed to code the checker cannot follow (not decided)" % (fi.short, chain_text))
                        continue
                    if sites[id(site)][2] is None:
                        sites[id(site)][2] = (how, ", ".join("%s=%s" % d for d in m.decisions) or "none")
            for site, how, bad in sites.values():
                nsites += 1
                node = site if site is not None else fi.node
                if bad is None:
                    ctx.ob("an entry taken out of %s has its timer cancelled on every path" % chain_text, True, fi, node)
                else:
                    ctx.ob("an entry taken out of %s has its timer cancelled on every path" % chain_text, False, fi, node,
                           detail="entry %s, its handle never cancelled (a pending timer shutdown no longer finds); open conditions: %s" % bad)
    ctx.extra["timer_table_runs"] = nruns
    ctx.floor("sites that take entries out of timer tables", nsites, 3)


def _whole_table_drop(ctx, fi, sh, chain_text, kind, node):
    """`self.table = ...` / `self.table.clear()`: every entry leaves at once.  Only shutdown may do that (its cancel
    walk over the table is C18.d), and only once the walk has *read* the table: no read of the field after the drop."""
    if fi is not sh:
        ctx.ob("only shutdown (which cancels every handle) replaces or clears the timer table %s" % chain_text, False, fi, node,
               detail="%s outside MessageManager.shutdown drops entries whose timers stay armed" % kind)
        return
    cfg = cfg_of(fi)
    after = cfg.reach(set(cfg.locate(node)), skip_labels=("exc",))
    late = [n for n in walk_with_lambdas(fi.node) if isinstance(n, ast.Attribute) and isinstance(n.ctx, ast.Load) and chain(n) == chain_text
            and any(x in after for x in cfg.locate(n))]
    ctx.ob("shutdown reads the timer table %s (to cancel its handles) before it drops it, not after" % chain_text, not late, fi, node,
           detail=None if not late else "read after the drop: %s" % stmt_text(late[0], 60))


@R.clause("C18.g", "every running server handler is in the table shutdown drains: a request overriding the same (token, remote) stops and removes the old entry before the new one is stored (shared with C08.e)")
def g_shared(ctx):
    """TokenManager.shutdown can only cancel the handlers it finds in incoming_requests.  An independently written
    breaking change stored the new (pipe, stopper) before stopping the overridden one, whose end-of-interest hook then
    deleted the *new* entry by key: the replacement handler ran on through shutdown.  The obligations are the
    process_request part of C08.e."""
    from . import c08
    c08._e_process_request(ctx)


def _cancel_callback_of(ctx, fi, cb, is_task, depth=0):
    """Does the callable expression `cb` (in fi), called without arguments, do nothing but cancel the task?
    Callables are normalised: bound method `t.cancel`, `functools.partial(t.cancel)`, `lambda: t.cancel()` (also with
    the task bound as a default argument), a nested def whose body is that call, through single-assignment locals."""
    if depth > 3 or cb is None:
        return False
    cb = resolve_local(fi.node, cb)
    if isinstance(cb, ast.Attribute):
        return cb.attr == "cancel" and is_task(cb.value, {})
    if isinstance(cb, ast.Call) and K._is_partial(ctx.prog, fi, cb) and len(cb.args) == 1 and not cb.keywords:
        return _cancel_callback_of(ctx, fi, cb.args[0], is_task, depth + 1)

    def body_cancels(args, body_call, extra_ok=True):
        a = args
        if a.vararg or a.kwarg or a.kwonlyargs and len(a.kw_defaults) != len(a.kwonlyargs):
            return False
        pos = a.posonlyargs + a.args
        if len(a.defaults) != len(pos) or any(d is None for d in a.kw_defaults):
            return False  # a required parameter: not callable the way on_interest_end calls it
        binds = {x.arg: d for x, d in zip(pos, a.defaults)}
        binds.update({x.arg: d for x, d in zip(a.kwonlyargs, a.kw_defaults)})
        c = body_call
        return isinstance(c, ast.Call) and isinstance(c.func, ast.Attribute) and c.func.attr == "cancel" and not c.keywords \
            and all(isinstance(x, ast.Constant) for x in c.args) and is_task(c.func.value, binds)

    if isinstance(cb, ast.Lambda):
        return body_cancels(cb.args, cb.body)
    if isinstance(cb, ast.Name):
        g = ctx.prog.funcs.get(fi.qn + ".<locals>." + cb.id)
        if g is not None and not g.is_async and len(writes_to_name(fi.node, cb.id)) <= 1:
            body = [st for st in g.node.body if not _only_logs(st)]
            if len(body) == 1 and isinstance(body[0], (ast.Expr, ast.Return)) and body[0].value is not None:
                return body_cancels(g.node.args, body[0].value)
    return False


@R.clause("C18.j", "a running server handler can be cancelled: every task run_driving_pipe starts has its cancel() registered for the end of interest in its pipe, on every path")
def j_render_task_cancellable(ctx):
    """TokenManager.shutdown cancels the running handlers by calling the stoppers of the incoming requests (C18.b): the
    stopper ends the interest in the request's pipe, error_to_message forwards that to the pipe the handler renders
    into (C08.e), and the only thing that stops the rendering task is the callback run_driving_pipe registered there.
    Necessary condition, decided on run_driving_pipe's CFG: from the creation of a task, the function cannot return
    normally without having passed `<the pipe parameter>.on_interest_end(<something that cancels that very task>)` --
    whatever flags, parameters or registries the function has: a task started on a path that skips the registration
    is a handler that runs on through shutdown."""
    fi = ctx.prog.func("pipe.run_driving_pipe")
    ps = params(fi)
    ctx.need(len(ps) >= 2 and not writes_to_name(fi.node, ps[0]), "run_driving_pipe(pipe, coroutine, ...) expected, the pipe parameter never rebound")
    ctx.need(not fi.is_async and not any(isinstance(n, (ast.Await, ast.Yield, ast.YieldFrom)) for n in walk_no_nested(fi.node)), "run_driving_pipe is a plain synchronous function")
    cfg = cfg_of(fi)
    creations = []
    for c in calls_in(fi.node):
        q = _resolved_name(ctx, fi, c) or ""
        last = (call_name(c) or "").split(".")[-1]
        if q in ("asyncio.create_task", "asyncio.ensure_future") or last in ("create_task", "ensure_future"):
            creations.append(c)
    ctx.floor("tasks started by run_driving_pipe", len(creations), 1)
    regs = [c for c in calls_in(fi.node) if isinstance(c.func, ast.Attribute) and c.func.attr == "on_interest_end" and K.chain_of(fi.node, c.func.value) == ps[0]]
    for t in creations:
        def is_task(e, binds, t=t):
            if isinstance(e, ast.Name) and e.id in binds:
                e = binds[e.id]
            return resolve_local(fi.node, e) is t
        mine = []
        for r in regs:
            cb = r.args[0] if len(r.args) == 1 and not r.keywords else (r.keywords[0].value if len(r.keywords) == 1 and not r.args else None)
            if _cancel_callback_of(ctx, fi, cb, is_task):
                mine.append(cfg.loc1(r))
        tn = cfg.loc1(t)
        ok = bool(mine) and (tn in mine or cfg.must_pass(tn, mine))
        ctx.ob("every task run_driving_pipe starts is cancelled when interest in its pipe ends (the way shutdown cancels running handlers), on every path", ok, fi, t,
               detail=None if ok else ("no on_interest_end callback of the pipe cancels this task" if not mine else "a normal path from the task's creation to the return avoids the registration of its cancel()"))


@R.clause("C18.e", "late errors after shutdown are tolerated: dispatch_error returns at once when the tables are retired")
def e(ctx):
    for short, table in ((MM + "dispatch_error", "_active_exchanges"), (TM + "dispatch_error", "outgoing_requests")):
        fi = ctx.prog.func(short)
        runs = _retired_runs(ctx, fi, table, {"incoming_requests": None} if table == "outgoing_requests" else None)
        ctx.floor("runs of %s with retired tables" % fi.short, len(runs), 1)
        bad = next(((m, _effects(m)) for m in runs if m.outcome != "return" or _effects(m)), None)
        if bad is None:
            ctx.ob("with retired tables %s does nothing but return (no raise in the event loop)" % fi.short, True, fi, fi.node, construct="%s after shutdown" % fi.short)
        else:
            m, eff = bad
            ctx.ob("with retired tables dispatch_error does nothing but return (no raise in the event loop)", False, fi, fi.node,
                   construct="%s after shutdown: %s" % (fi.short, m.outcome if m.outcome != "return" else [_show_effect(t) for t in eff][:4]),
                   detail="open conditions: %s" % (", ".join("%s=%s" % d for d in m.decisions) or "none"))
        # the tolerance is specific to retired tables: an alive layer whose table is merely empty still passes the error on
        alive = _alive_runs(ctx, fi, table, ("incoming_requests", "_backlogs") if table == "outgoing_requests" else ("_backlogs",))
        ctx.ob("%s ignores errors only when the table is retired (not when it is merely empty)" % fi.short, any(_effects(m) for m in alive), fi, fi.node,
               construct="%s on an idle, alive layer" % fi.short)


def _only_logs(st):
    if st is None or isinstance(st, ast.Pass):
        return True
    if isinstance(st, ast.Expr) and isinstance(st.value, ast.Call) and is_log_call(st.value):
        return True
    if isinstance(st, ast.Expr) and isinstance(st.value, ast.Constant):
        return True
    return False


F_CONSTS = {t: K.Sym(t) for t in ("CON", "NON", "ACK", "RST")}
F_CONSTS["EMPTY"] = 0


@R.clause("C18.f", "while shutting down send_message degrades every outgoing message to NON (no new exchange)")
def f(ctx):
    """Decided by running send_message (and the helpers it calls, down to the transmission / exchange-creation
    primitives) in the checker's own finite-domain interpreter for every valuation of (code class) x (preset type) x
    (multicast) x (reliability) x (type of the request answered) with `self._active_exchanges is None`, no pending
    piggy-back opportunity and an *unknown* backlog table: conditions the valuation leaves open fork the run, so the
    verdict holds for every path, whatever the nesting, guard order, helper structure or spelling of the lookups
    (`in`, `.get()`, `.pop(k, None)`, `[...]` + KeyError).  On every run exactly one message goes to the wire, its
    type at that moment is NON, nothing is queued in a backlog and no exchange is created."""
    import itertools
    fi = ctx.prog.func(MM + "send_message")
    ps = params(fi)
    ctx.need(len(ps) >= 1, "send_message(message, ...) expected")
    # the primitives: putting a message on the wire, creating an exchange (retransmission timer + table entry)
    sinks = {("self", "_send_via_transport"): "send", ("self", "_add_exchange"): "exchange", ("message_interface", "send"): "send"}
    for s in ("_send_via_transport", "_add_exchange"):
        ctx.need(ctx.prog.has_func(MM + s), "transmission primitive MessageManager.%s missing" % s)
    rows = 0
    nruns = 0
    for code, preset, mcast, rel, reqt in itertools.product((1, 69), (None, "CON", "NON"), (False, True), (True, False, None), (None, "CON")):
        if code == 1 and reqt:
            continue

        def make_env():
            # the code is an object whose class predicates the valuation fixes (what they mean is C10's business)
            cobj = K.Obj("code %d" % code, class_=code >> 5, __methods__={"is_request": 1 <= code < 32, "is_response": 64 <= code < 192,
                                                                        "is_successful": 64 <= code < 96, "is_signalling": code >= 224})
            msg = K.Obj("message", mid=None, code=cobj, mtype=K.Sym(preset) if preset else None,
                        opt=K.Obj("opt", no_response=None), remote=K.Obj("remote", is_multicast=mcast), token=K.Obj("token"),
                        transport_tuning=K.Obj("tuning", reliability=rel),
                        request=K.Obj("request", mtype=K.Sym(reqt)) if reqt else None)
            me = K.Obj("self", _active_exchanges=None, _piggyback_opportunities=K.DictVal("_piggyback_opportunities", "empty"),
                       _backlogs=K.DictVal("_backlogs", "unknown"), message_interface=K.Obj("message_interface"))
            env = {"self": me, ps[0]: msg}
            for p in ps[1:]:
                env[p] = K.Obj("monitor")
            return env

        runs = K.explore(ctx.prog, fi, make_env, F_CONSTS, {}, sinks)
        rows += 1
        nruns += len(runs)
        for m in runs:
            sent = [t for t in m.trace if t[0] in ("send", "queue", "exchange") or (t[0] == "table-store" and t[1] in ("_backlogs", "_active_exchanges"))]
            ok = m.outcome == "return" and len(sent) == 1 and sent[0][0] == "send" and isinstance(sent[0][3], K.Sym) and str(sent[0][3]) == "NON"
            if not ok:
                shown = [(t[0], str(t[3])) for t in sent]
                ctx.ob("during shutdown a message without pending acknowledgement is sent NON", False, fi, fi.node,
                       construct="send_message during shutdown: %s%s" % (shown, "" if m.outcome == "return" else " then " + str(m.outcome)),
                       detail="code=%s preset=%s multicast=%s reliability=%s request=%s; open conditions: %s" % (code, preset, mcast, rel, reqt, ", ".join("%s=%s" % d for d in m.decisions) or "none"))
                break
    ctx.extra["shutdown_send_runs"] = nruns
    ctx.floor("shutdown rows", rows, 30)
    ctx.ob("all %d shutdown cells of send_message choose NON" % rows, True, fi, fi.node, construct="send_message during shutdown")


FRESH_CONTAINERS = ("dict", "list", "set", "OrderedDict", "defaultdict", "deque", "WeakValueDictionary", "WeakKeyDictionary", "WeakSet")


def _fresh_container(v):
    """an expression that creates a new, empty-or-literal container each time it is evaluated"""
    if isinstance(v, (ast.Dict, ast.List, ast.Set, ast.ListComp, ast.DictComp, ast.SetComp)):
        return True
    if isinstance(v, ast.Call) and (chain(v.func) or "").split(".")[-1] in FRESH_CONTAINERS:
        # arguments may only be literals / type names (defaultdict(list)): nothing that could be shared
        return all(isinstance(a, ast.Constant) or (isinstance(a, ast.Name) and a.id in FRESH_CONTAINERS) or _fresh_container(a) for a in v.args) and not v.keywords
    return False


def _used_once(fnode, v):
    """a container that reaches the field through a local is still private if the local is read only there"""
    if not isinstance(v, ast.Name):
        return True
    return sum(1 for n in ast.walk(fnode) if isinstance(n, ast.Name) and n.id == v.id and isinstance(n.ctx, ast.Load)) == 1


@R.clause("C18.h", "other contexts are unaffected: the tables that shutdown drains and retires belong to the instance (created in __init__, no class-level container shared between contexts)")
def h_instance_state(ctx):
    """Added after an independently written breaking change moved outgoing_requests / incoming_requests into
    class-level `{}` defaults: every TokenManager of the process shared them, and shutting one (idle) context down
    failed the requests and cancelled the handlers of all others."""
    for clsname, fields in (("tokenmanager.TokenManager", ("outgoing_requests", "incoming_requests")),
                            ("messagemanager.MessageManager", ("_active_exchanges", "_backlogs", "_recent_messages", "_piggyback_opportunities"))):
        ci = ctx.prog.cls(clsname)
        init = ci.methods.get("__init__")
        ctx.need(init is not None, "%s.__init__ missing" % clsname)
        for f in fields:
            st = [n for k, n in stores_to(init.node, "self." + f, nested=False) if k == "assign" and isinstance(n, (ast.Assign, ast.AnnAssign)) and n.value is not None]
            # one fresh container per store, not shared with another target of the same statement
            fresh = len(st) >= 1 and all(_fresh_container(resolve_local(init.node, n.value)) and (not isinstance(n, ast.Assign) or len(n.targets) == 1) and _used_once(init.node, n.value) for n in st)
            ctx.ob("%s.%s is created afresh for every instance" % (clsname.split(".")[-1], f), fresh, init, st[0] if st else init.node,
                   construct="%s.__init__: self.%s" % (clsname.split(".")[-1], f))
            shared = ci.attrs.get(f)
            ctx.ob("%s.%s has no class-level container shared between instances" % (clsname.split(".")[-1], f), shared is None or isinstance(shared, ast.Constant), None, None,
                   construct="class %s: %s = %s" % (clsname.split(".")[-1], f, stmt_text(shared) if shared is not None else "<no class attribute>"))



@R.clause("C18.k", "an observation that is being iterated over terminates with the library error shutdown sends it: the single-slot mailbox of ClientObservation's async iterator never discards a queued error (shared with C07.g)")
def k_shared(ctx):
    """Shutdown fails every observation through its errbacks; for a consumer in `async for` that is
    _Iterator.push_err, which may have to put the error into a *replacement* future when the previous one already
    holds a notification the consumer has not fetched yet.  An independently written breaking change let __anext__
    re-arm unconditionally after its await: the replacement future -- and LibraryShutdown in it -- was thrown
    away, and the `async for` hung for ever.  The obligations are exactly the mailbox discipline of C07.g."""
    from . import c07
    c07.g_lossy_iterator(ctx)


# --- C18.l: the keys of the timer tables stay findable ---------------------------------------------------------------
# Modules whose functions read the clock, the allocator, the collector or the outside world: a value obtained from
# them differs from call to call.
_VOLATILE_MODULES = ("time", "random", "os", "uuid", "secrets", "datetime", "asyncio", "weakref", "gc", "sys", "socket", "threading", "itertools")
_IMPURE_BUILTINS = {"input", "open", "eval", "exec", "globals", "locals", "vars", "breakpoint", "__import__", "compile", "next", "iter", "setattr", "delattr", "dir"}
_PROPERTY_DECOS = {"property", "functools.cached_property", "cached_property", "abc.abstractproperty"}


class _KeyState:
    """Which state of an instance does a method's result depend on?  Walks the method, every method / property /
    class-level `property(...)` getter of the class it uses on the instance (MRO of the analysed package), every
    package function the instance is handed to, and collects
      fields   {name: [(host description, node)]}  instance fields read (after property / helper expansion)
      volatile [(why, node)]                        calls whose value changes between two calls on the same state
    Anything it cannot follow is refused (AnalysisError), never guessed."""

    def __init__(self, ctx, clsqn):
        self.ctx = ctx
        self.prog = ctx.prog
        self.clsqn = clsqn
        self.fields = {}
        self.volatile = []
        self.seen = set()

    def method(self, fi, bind=None):
        """scan function fi; `bind` = names of parameters that hold the instance (default: the first one)"""
        ps = [a.arg for a in fi.node.args.posonlyargs + fi.node.args.args]
        if bind is None:
            bind = set(ps[:1])
        key = (fi.qn, tuple(sorted(bind)))
        if key in self.seen:
            return
        self.seen.add(key)
        for nm in bind:
            self.ctx.need(not writes_to_name(fi.node, nm), "%s rebinds the instance parameter %s" % (fi.short, nm))
        self.scan(fi.module, fi.node.body, bind, fi.short)

    def scan(self, module, roots, selfnames, where):
        import builtins
        prog = self.prog
        todo = list(roots)
        parent = {}
        nodes = []
        while todo:
            n = todo.pop()
            nodes.append(n)
            if isinstance(n, (ast.FunctionDef, ast.AsyncFunctionDef, ast.ClassDef)) and n not in roots:
                # a nested def is followed only if it is called; refuse rather than guess
                raise AnalysisError("%s defines a nested function/class; the key-state walk does not follow it" % where)
            for c in ast.iter_child_nodes(n):
                parent[id(c)] = n
                todo.append(c)
        for n in nodes:
            if isinstance(n, ast.Attribute) and isinstance(n.value, ast.Name) and n.value.id in selfnames:
                self.ctx.need(isinstance(n.ctx, ast.Load), "%s writes instance state while computing the key" % where)
                par = parent.get(id(n))
                called = isinstance(par, ast.Call) and par.func is n
                self.attribute(module, n, called, where)
            elif isinstance(n, ast.Name) and n.id in selfnames and isinstance(n.ctx, ast.Load):
                par = parent.get(id(n))
                if isinstance(par, ast.Attribute) and par.value is n:
                    continue
                # the bare instance: harmless in identity/type tests, followed into package functions, else refused
                if isinstance(par, ast.Compare):
                    continue
                if isinstance(par, ast.Call) and n in par.args:
                    cn = chain(par.func)
                    q = prog.resolve_in_module(module, cn) if cn else None
                    if q in ("isinstance", "type", "id", "issubclass"):
                        continue
                    if q == "getattr" and par.args[0] is n and len(par.args) >= 2 and isinstance(par.args[1], ast.Constant) and isinstance(par.args[1].value, str):
                        fake = ast.Attribute(value=n, attr=par.args[1].value, ctx=ast.Load())
                        ast.copy_location(fake, par)
                        self.attribute(module, fake, False, where)
                        continue
                    if q in prog.funcs and not any(isinstance(a, ast.Starred) for a in par.args) and not par.keywords:
                        g = prog.funcs[q]
                        gps = [a.arg for a in g.node.args.posonlyargs + g.node.args.args]
                        off = 1 if g.cls is not None and gps[:1] == ["self"] else 0
                        bind = {gps[i + off] for i, a in enumerate(par.args) if isinstance(a, ast.Name) and a.id in selfnames and i + off < len(gps)}
                        self.method(g, bind)
                        continue
                raise AnalysisError("%s hands the instance to something the key-state walk cannot follow: %s" % (where, stmt_text(par if par is not None else n, 60)))
            elif isinstance(n, ast.Call):
                cn = chain(n.func)
                if cn is None:
                    continue
                head = cn.split(".")[0]
                if head in selfnames:
                    continue  # decided by attribute()
                q = prog.resolve_in_module(module, cn)
                if "." not in cn:
                    if q == cn and hasattr(builtins, cn):
                        if cn in _IMPURE_BUILTINS:
                            raise AnalysisError("%s uses %s(); the key-state walk cannot tell what the key depends on" % (where, cn))
                        continue
                    if q in prog.funcs:
                        self.method(prog.funcs[q], set())
                        continue
                    if q in prog.classes:
                        continue
                    # a local callable (parameter, local name): refuse unless it is a plain local value's method
                    if q.split(".")[0] in _VOLATILE_MODULES:
                        self.volatile.append(("%s() in %s" % (q, where), n))
                        continue
                    raise AnalysisError("%s calls %s, which the key-state walk cannot resolve" % (where, cn))
                if q.split(".")[0] in _VOLATILE_MODULES:
                    self.volatile.append(("%s() in %s" % (q, where), n))
                elif q in prog.funcs:
                    self.method(prog.funcs[q], set())
                # otherwise: a method of a value (`s.lower()`, `t.__getitem__(..)`) -- values of key fields are
                # immutable builtins as far as this clause's writer obligation goes (assigned once, by the constructor)
            elif isinstance(n, (ast.Await, ast.Yield, ast.YieldFrom)):
                raise AnalysisError("%s suspends while computing a key" % where)

    def attribute(self, module, n, called, where):
        prog = self.prog
        x = n.attr
        m = prog.lookup_method(self.clsqn, x)
        if m is not None:
            decos = {prog.resolve_in_module(m.module, chain(d) or "") for d in m.node.decorator_list if chain(d)}
            if called or decos & _PROPERTY_DECOS or any(d.endswith(".getter") for d in decos):
                if "staticmethod" in decos:
                    self.method(m, set())
                else:
                    self.method(m)
            return  # a bound method that is not called is a constant of the instance
        expr, owner = prog.class_attr(self.clsqn, x)
        if expr is not None:
            if isinstance(expr, ast.Call) and chain(expr.func) and prog.resolve_in_module(owner.module, chain(expr.func)) == "property":
                getter = expr.args[0] if expr.args else next((k.value for k in expr.keywords if k.arg == "fget"), None)
                self.ctx.need(getter is not None, "property %s without a getter" % x)
                if isinstance(getter, ast.Lambda):
                    ps = [a.arg for a in getter.args.posonlyargs + getter.args.args]
                    self.ctx.need(len(ps) == 1, "property %s: getter signature" % x)
                    key = (owner.qn, x)
                    if key not in self.seen:
                        self.seen.add(key)
                        self.scan(owner.module, [getter.body], {ps[0]}, "%s.%s" % (owner.qn.split(".")[-1], x))
                    return
                if isinstance(getter, ast.Name):
                    g = owner.methods.get(getter.id) or prog.funcs.get(prog.resolve_in_module(owner.module, getter.id))
                    self.ctx.need(g is not None, "property %s: getter %s not found" % (x, getter.id))
                    self.method(g)
                    return
                raise AnalysisError("property %s: getter is neither a lambda nor a named function" % x)
            if isinstance(expr, ast.Lambda) and called:
                ps = [a.arg for a in expr.args.posonlyargs + expr.args.args]
                self.scan(owner.module, [expr.body], set(ps[:1]), "%s.%s" % (owner.qn.split(".")[-1], x))
                return
            if isinstance(expr, ast.Constant) or not called:
                # a class-level constant -- unless instances shadow it, which the field bookkeeping below decides
                pass
            else:
                raise AnalysisError("class attribute %s is called while computing a key; the walk cannot follow it" % x)
        self.fields.setdefault(x, []).append((where, n))


def _field_history(ctx, clsqn, field):
    """Every store to <instance>.<field> of the class family (the class, its bases and its subclasses):
    -> ([(fi, stmt, value or None, in_constructor)], foreign) where `foreign` lists stores to an attribute of that
    name through a receiver that is not `self` of a related method (whose object that is cannot be told)."""
    prog = ctx.prog
    family = set(prog.mro(clsqn)) | set(prog.subclasses(clsqn))
    mine, foreign = [], []
    for fi in prog.funcs.values():
        for n in walk_with_lambdas(fi.node):
            if not (isinstance(n, ast.Attribute) and n.attr == field and isinstance(n.ctx, (ast.Store, ast.Del))):
                continue
            owner = fi
            while owner.cls is None and owner.parent is not None:
                owner = owner.parent
            ps = [a.arg for a in owner.node.args.posonlyargs + owner.node.args.args]
            is_self = isinstance(n.value, ast.Name) and owner.cls is not None and ps[:1] == [n.value.id] and not (owner is not fi and n.value.id in [a.arg for a in fi.node.args.posonlyargs + fi.node.args.args])
            if is_self:
                if owner.cls.qn not in family:
                    continue  # another class's field of the same name
                st = cfg_of(fi).parent.get(id(n))
                val = st.value if isinstance(st, (ast.Assign, ast.AnnAssign)) and (isinstance(st, ast.AnnAssign) or (len(st.targets) == 1 and st.targets[0] is n)) else None
                mine.append((fi, n, val, fi is owner and fi.name in ("__init__", "__new__")))
            else:
                foreign.append((fi, n))
    return mine, foreign


def _is_weak_value(prog, fi, v, depth=0):
    """the stored value is (or contains) a weak reference: weakref.ref / proxy / WeakMethod / Weak*Dictionary / WeakSet"""
    if v is None:
        return False
    for n in _walk_through_locals(fi.node, v):
        if isinstance(n, ast.Call) and chain(n.func):
            q = prog.resolve_in_module(fi.module, chain(n.func))
            if q.split(".")[0] == "weakref" or q.split(".")[-1] in ("WeakMethod", "WeakSet", "WeakValueDictionary", "WeakKeyDictionary"):
                return True
    return False


@R.clause("C18.l", "no timer raises after shutdown because its key went astray: the hash of every remote-address class (a component of the keys of the message layer's timer tables, whose expiry callbacks remove their own key) is a function of state that only the constructor writes, reads no weak reference and nothing that changes between two calls")
def l_stable_keys(ctx):
    """C18.d accepts `loop.call_later(EXCHANGE_LIFETIME, <remove own key>)` timers that stay armed through shutdown
    because nothing else removes the entry: the callback finds its key.  That argument silently relies on the key
    hashing *the same* when the timer fires -- minutes after shutdown, when the context and its transports may have been
    garbage collected -- as when the entry was stored.  The keys are tuples of the remote, the message ID / token; ints
    and bytes hash by value, a remote that defines no __hash__ hashes by identity, so the obligation falls on the
    remote-address classes that define their own __hash__: evaluated over the class (properties, helper methods and
    package functions expanded) it must depend only on instance fields that are assigned by the constructor alone,
    none of which holds a weak reference (its referent -- the interface, the context -- dies with the shut-down
    context and the dereference turns None), and on no clock / random / allocator call.  An independently written
    breaking change mixed id(self.interface) -- a dereferenced weak reference -- into UDP6EndpointAddress.__hash__:
    every de-duplication timer that fired after the context was dropped raised KeyError in the event loop."""
    prog = ctx.prog
    BASE = "aiocoap.interfaces.EndpointAddress"
    ctx.need(BASE in prog.classes, "interfaces.EndpointAddress not found")
    hashes = {}
    for q in prog.subclasses(BASE):
        hf = prog.lookup_method(q, "__hash__")
        if hf is None:
            expr, owner = prog.class_attr(q, "__hash__")
            ctx.need(expr is None or (isinstance(expr, ast.Constant) and expr.value is None), "%s.__hash__ is assigned at class level; the rule cannot evaluate it" % q)
            continue
        hashes.setdefault(hf.qn, (hf, []))[1].append(q)
    ctx.floor("remote-address classes with a value-based __hash__", len(hashes), 1)
    for _qn, (hf, classes) in sorted(hashes.items()):
        for q in sorted(classes):
            cname = q.split(".")[-1]
            ks = _KeyState(ctx, q)
            ks.method(hf)
            ctx.ob("%s.__hash__ calls nothing whose value changes between two calls" % cname, not ks.volatile, hf, ks.volatile[0][1] if ks.volatile else hf.node,
                   construct=None if ks.volatile else "%s.__hash__" % cname, detail=ks.volatile[0][0] if ks.volatile else None)
            ctx.need(bool(ks.fields) or bool(ks.volatile), "%s.__hash__ depends on no instance state the rule can see" % cname)
            for f in sorted(ks.fields):
                where, node = ks.fields[f][0]
                mine, foreign = _field_history(ctx, q, f)
                ctx.need(not foreign, "a field named %s is stored through a receiver the rule cannot identify (%s)" % (f, ", ".join(sorted({fi.short for fi, _n in foreign}))))
                ctx.need(bool(mine), "%s.__hash__ reads self.%s, which nothing assigns" % (cname, f))
                weak = [(fi, n) for fi, n, v, _c in mine if _is_weak_value(prog, fi, v)]
                ctx.ob("the hash of a %s does not depend on a weak reference (the referent is gone once the shut-down context is dropped)" % cname, not weak, hf, hf.node,
                       construct="%s.__hash__ reads self.%s" % (cname, f),
                       detail=None if not weak else "read in %s; assigned in %s: %s" % (where, weak[0][0].short, stmt_text(cfg_of(weak[0][0]).parent.get(id(weak[0][1])) or weak[0][1], 60)))
                late = [(fi, n) for fi, n, _v, c in mine if not c]
                ctx.ob("the state a %s hashes by is written by the constructor only (a key that is in a table never changes its hash)" % cname, not late, hf, hf.node,
                       construct="%s.__hash__: writers of self.%s" % (cname, f),
                       detail=None if not late else "read in %s; also written in %s" % (where, late[0][0].short))


F_MM = "aiocoap/messagemanager.py"
R.seed("C18.d", F_MM, "        self._active_exchanges = None\n", "        self._active_exchanges = None\n        self._recent_messages.clear()\n", "de-duplication entries cleared while their pop-without-default expiry timers stay armed: KeyError in the loop after shutdown")
F_TM = "aiocoap/tokenmanager.py"
F_P = "aiocoap/protocol.py"
R.seed("C18.a", F_P, "            timeout=SHUTDOWN_TIMEOUT,\n        )\n        for item in done:", "            timeout=None,\n        )\n        for item in done:", "unbounded wait")
R.seed("C18.a", F_P, "                for ri in self.request_interfaces\n            ],\n            timeout=SHUTDOWN_TIMEOUT,", "                for ri in self.request_interfaces[:1]\n            ],\n            timeout=SHUTDOWN_TIMEOUT,", "only the first interface")
R.seed("C18.b", F_TM, "            (_, stop) = self.incoming_requests.pop(key)\n            # This cancels them", "            (_, stop) = self.incoming_requests.pop(key)\n            continue\n            # This cancels them", "handlers not cancelled")
R.seed("C18.b", F_TM, "            stop()\n        self.incoming_requests = None\n", "            stop()\n", "incoming table not retired")
R.seed("C18.b", F_TM, "            request.add_exception(error.LibraryShutdown())\n        self.outgoing_requests = None", "            pass\n        self.outgoing_requests = None", "pending requests hang")
R.seed("C18.b", F_TM, "        self.outgoing_requests = None\n\n        await self.token_interface.shutdown()", "        await self.token_interface.shutdown()\n        self.outgoing_requests = None", "table retired after the await")
R.seed("C18.b", F_TM, "        while self.outgoing_requests:\n            key = next(iter(self.outgoing_requests.keys()))\n            request = self.outgoing_requests.pop(key)", "        if self.outgoing_requests:\n            key = next(iter(self.outgoing_requests.keys()))\n            request = self.outgoing_requests.pop(key)", "only one request failed")
R.seed("C18.c", F_TM, "        if self.outgoing_requests is None:\n            request.add_exception(error.LibraryShutdown())\n            return\n\n        msg = request.request", "        msg = request.request", "request after shutdown hangs/raises")
R.seed("C18.c", F_TM, "        if self.outgoing_requests is None:\n            request.add_exception(error.LibraryShutdown())\n            return\n\n        msg = request.request\n", "        msg = request.request\n        msg.token = self.next_token()\n        if self.outgoing_requests is None:\n            request.add_exception(error.LibraryShutdown())\n            return\n", "guard below the token assignment")
R.seed("C18.d", F_MM, "        for messageerror_monitor, cancellable in self._active_exchanges.values():\n            # Not calling messageerror_monitor: This is not message specific,\n            # and its shutdown will take care of these things\n            cancellable.cancel()\n", "", "retransmission timers left armed")
R.seed("C18.d", F_MM, "        self._active_exchanges = None\n", "        pass\n", "table not retired")
R.seed("C18.d", F_MM, "        for _mid, empty_ack_timeout in self._piggyback_opportunities.values():\n", "        for _mid, empty_ack_timeout in ():\n", "empty-ACK timers left armed (applies to the repaired tree)")
R.seed("C18.e", F_MM, "                \"Internal shutdown sequence mismatch: error dispatched through messagemanager after shutown\"\n            )\n            return\n", "                \"Internal shutdown sequence mismatch: error dispatched through messagemanager after shutown\"\n            )\n", "late error crashes on None table")
R.seed("C18.e", F_TM, "                \"Internal shutdown sequence msismatch: error dispatched through tokenmanager after shutdown\"\n            )\n            return\n", "                \"Internal shutdown sequence msismatch: error dispatched through tokenmanager after shutdown\"\n            )\n            raise RuntimeError(\"late\")\n", "late error raises in the loop")
R.seed("C18.f", F_MM, "            if self._active_exchanges is None:\n                # during shutdown, this is all we can do\n                message.mtype = NON", "            if self._active_exchanges is None:\n                # during shutdown, this is all we can do\n                message.mtype = CON", "CON during shutdown")

# seeds of the generalised clauses (each generalisation still bites)
R.seed("C18.a", F_P, "                for ri in self.request_interfaces\n            ],\n            timeout=SHUTDOWN_TIMEOUT,", "                for ri in self.request_interfaces\n                if ri is not self.request_interfaces[-1]\n            ],\n            timeout=SHUTDOWN_TIMEOUT,", "one interface is left out by a comprehension filter")
R.seed("C18.b", F_TM, "        while self.incoming_requests:\n            key = next(iter(self.incoming_requests.keys()))\n            (_, stop) = self.incoming_requests.pop(key)\n", "        for (_, stop) in self.incoming_requests.values():\n", "stoppers called while iterating the live table they remove entries from (RuntimeError after the first handler)")
R.seed("C18.b", F_TM, "            (_, stop) = self.incoming_requests.pop(key)\n            # This cancels them", "            (stop, _) = self.incoming_requests.pop(key)\n            # This cancels them", "the pipe is called instead of the stopper")
R.seed("C18.c", F_TM, "        if self.outgoing_requests is None:\n            request.add_exception(error.LibraryShutdown())\n            return\n\n        msg = request.request\n", "        if not self.outgoing_requests:\n            request.add_exception(error.LibraryShutdown())\n            return\n\n        msg = request.request\n", "guard on emptiness instead of retirement: an idle context refuses every request")
R.seed("C18.d", F_MM, "            next_retransmission = self._schedule_retransmit(\n                message, timeout, retransmission_counter\n            )\n", "            self._schedule_retransmit(message, timeout, retransmission_counter)\n", "one caller drops the returned timer handle (the stale one is stored)")
R.seed("C18.d", F_MM, "            cancellable.cancel()\n        self._active_exchanges = None\n", "            if messageerror_monitor is not None:\n                cancellable.cancel()\n        self._active_exchanges = None\n", "only monitored exchanges have their timer cancelled")
R.seed("C18.e", F_TM, "    def dispatch_error(self, exception, remote):\n        if self.outgoing_requests is None:\n", "    def dispatch_error(self, exception, remote):\n        if not self.outgoing_requests:\n", "errors are swallowed whenever no client request is pending (server handlers never learn)")
R.seed("C18.f", F_MM, "        if message.mtype == CON and message.remote in self._backlogs:\n", "        if message.remote in self._backlogs:\n", "NON messages queued behind a backlog that will never drain during shutdown")

R.seed("C18.g", F_TM, "            (pipe, stop) = self.incoming_requests.pop(key)\n            stop()\n", "            (pipe, stop) = self.incoming_requests[key]\n", "overridden request neither removed nor stopped before the new entry is stored")

R.seed("C18.h", F_TM, "class TokenManager(interfaces.RequestInterface, interfaces.TokenManager):\n", "class TokenManager(interfaces.RequestInterface, interfaces.TokenManager):\n    outgoing_requests = {}\n    incoming_requests = {}\n", "class-level tables (shared by every context as soon as __init__ stops shadowing them)")
R.seed("C18.h", F_TM, "        self.outgoing_requests = {}\n", "        self.outgoing_requests = type(self)._shared_outgoing\n", "table shared between all token managers")

# C18.j: the rendering task is reachable by the loss-of-interest path shutdown uses
F_PIPE = "aiocoap/pipe.py"
R.seed("C18.j", F_PIPE, "    pipe.on_interest_end(task.cancel)\n", "    if name is not None:\n        pipe.on_interest_end(task.cancel)\n", "only named rendering tasks are cancelled by shutdown")
R.seed("C18.j", F_PIPE, "    pipe.on_interest_end(task.cancel)\n", "    pipe.on_interest_end(lambda: None)\n", "the interest-end callback no longer cancels the handler")

# C18.b: removal through a draining generator is the same loop
R.seed("C18.b", F_TM, "        while self.outgoing_requests:\n            key = next(iter(self.outgoing_requests.keys()))\n            request = self.outgoing_requests.pop(key)\n            request.add_exception(error.LibraryShutdown())\n",
       "        def taken(table):\n            if table:\n                yield table.pop(next(iter(table)))\n\n        for request in taken(self.outgoing_requests):\n            request.add_exception(error.LibraryShutdown())\n",
       "a generator that hands out one entry only: the other pending requests hang")

# C18.i: an entry that leaves a timer table takes its timer along
R.seed("C18.i", F_MM, "                mid, old_handle = self._piggyback_opportunities.pop(key)\n                old_handle.cancel()\n", "                mid, old_handle = self._piggyback_opportunities.pop(key)\n                if mid:\n                    old_handle.cancel()\n", "truthiness of the legal message ID 0 decides whether the superseded empty-ACK timer is cancelled")
R.seed("C18.i", F_MM, "            if key in self._piggyback_opportunities:\n", "            if self._piggyback_opportunities.get(key, (None, None))[0]:\n", "presence of the superseded entry tested by the truthiness of its message ID: for MID 0 the live entry is overwritten, its timer stays armed")
R.seed("C18.i", F_MM, "                mid, old_handle = self._piggyback_opportunities.pop(key)\n                old_handle.cancel()\n", "                pass\n", "a live piggy-back entry is knowingly overwritten without cancelling its timer")
R.seed("C18.i", F_MM, "                mid, handle = self._piggyback_opportunities.pop(piggyback_key)\n                handle.cancel()\n", "                mid, handle = self._piggyback_opportunities.pop(piggyback_key)\n", "piggy-backed response leaves the empty-ACK timer armed outside the table")
R.seed("C18.i", F_MM, "        next_retransmission.cancel()\n        if message.mtype is RST:\n", "        if message.mtype is RST:\n            next_retransmission.cancel()\n", "retransmission timer of an ACKed exchange cancelled on the RST path only")
R.seed("C18.i", F_MM, "            (messageerror_monitor, cancellable_timeout) = self._active_exchanges.pop(k)\n            cancellable_timeout.cancel()\n", "            del self._active_exchanges[k]\n", "exchanges of a failed remote dropped with del, timers left running")
R.seed("C18.i", F_MM, "        for _mid, empty_ack_timeout in self._piggyback_opportunities.values():\n            # The requests these would acknowledge have been stopped already;\n            # sending after the transport is gone would only raise.\n            empty_ack_timeout.cancel()\n        self._piggyback_opportunities = {}\n", "        self._piggyback_opportunities = {}\n        for _mid, empty_ack_timeout in self._piggyback_opportunities.values():\n            empty_ack_timeout.cancel()\n", "table replaced before the cancel walk reads it: the walk sees the new, empty dict")
R.seed("C18.i", F_MM, "        self._backlogs.pop(remote, ())\n        # while that's an iterable", "        self._backlogs.pop(remote, ())\n        self._piggyback_opportunities.clear()\n        # while that's an iterable", "a network error forgets every pending empty-ACK timer without cancelling it")

# C18.k: shutdown reaches a consumer that iterates over an observation
R.seed("C18.k", F_P, "                if f is self._future:\n                    self._future = asyncio.get_running_loop().create_future()", "                self._future = asyncio.get_running_loop().create_future()", "the consumer discards the replacement future that holds LibraryShutdown: the async for hangs")
R.seed("C18.k", F_P, "        self.register_errback(it.push_err, _suppress_deprecation=True)\n        return it", "        return it", "the shutdown error never reaches the iterator")

# C18.l: keys of the timer tables keep their hash
F_UDP6 = "aiocoap/transports/udp6.py"
F_SLIP = "aiocoap/transports/slipmux.py"
R.seed("C18.l", F_SLIP, "        return hash(self._host)\n", "        return hash((self._host, self._interface()))\n", "hash over a dereferenced weak reference")
R.seed("C18.l", F_UDP6, "        return hash(self.sockaddr[:-1])\n", "        return hash((self.sockaddr[:-1], self.interface is None))\n", "hash depends, through a property, on whether the interface is still alive")
R.seed("C18.l", F_UDP6, "    def __hash__(self):\n        return hash(self.sockaddr[:-1])\n", "    def _rebind(self, sockaddr):\n        self.sockaddr = sockaddr\n\n    def __hash__(self):\n        return hash(self.sockaddr[:-1])\n", "the hashed address can be replaced while the remote is a key")
R.seed("C18.l", F_SLIP, "        return hash(self._host)\n", "        return hash((self._host, time.monotonic() // 3600))\n", "hash changes with the clock")
R.seed("C18.l", F_UDP6, "        return hash(self.sockaddr[:-1])\n", "        return self._stamp()\n\n    def _stamp(self):\n        return hash((self.sockaddr[:-1], id(self._interface())))\n", "the weak dereference sits in a helper method")
