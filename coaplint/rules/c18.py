"""C18 Shutdown at any moment fails pending work and leaves nothing running."""

import ast

from ..rulekit import *
from ..norm import Normalizer, Poly

R = Rules(
    "C18",
    explanation=(
        "Structural clauses of the shutdown sequence decided on protocol.Context.shutdown, TokenManager and "
        "MessageManager: Context.shutdown starts ri.shutdown() for every request interface and waits with the module "
        "constant SHUTDOWN_TIMEOUT (a positive number), returning on both outcomes; TokenManager.shutdown drains both "
        "request tables (every removed incoming request's stopper is called, every removed outgoing request receives "
        "LibraryShutdown, a library Error), retires the tables (None) before awaiting the lower layer; "
        "TokenManager.request fails immediately with LibraryShutdown once the table is retired, before doing anything "
        "else; **timer ownership**: every loop.call_later handle created in messagemanager.py is either stored in a "
        "container that MessageManager.shutdown walks calling cancel() on that element, or its callback is inert (only "
        "removes a key from a dict of the same object); late dispatch_error calls return at once when the tables are "
        "retired; send_message degrades to NON while shutting down.  Completion of the transports' own shutdown and "
        "garbage collection are not decided."
    ),
    rule_text="drain-loop and pairing rules on CFGs, timer-handle ownership (who stores it, who cancels it), dominance of the retired-table guards",
)

TM = "tokenmanager.TokenManager."
MM = "messagemanager.MessageManager."


@R.clause("C18.a", "Context.shutdown shuts every request interface down and waits at most SHUTDOWN_TIMEOUT")
def a(ctx):
    fi = ctx.prog.func("protocol.Context.shutdown")
    waits = [c for c in calls_in(fi.node) if call_name(c) in ("asyncio.wait", "asyncio.wait_for")]
    ctx.floor("asyncio.wait in Context.shutdown", len(waits), 1)
    for w in waits:
        to = next((k.value for k in w.keywords if k.arg == "timeout"), None)
        ok = False
        detail = "timeout=%s" % (ast.unparse(to) if to is not None else None)
        if to is not None and chain(to):
            q = ctx.prog.resolve_in_module(fi.module, chain(to))
            if q == "aiocoap.numbers.constants.SHUTDOWN_TIMEOUT" or q.endswith(".SHUTDOWN_TIMEOUT"):
                try:
                    v = norm.consteval(ctx.prog.module_const("numbers.constants", "SHUTDOWN_TIMEOUT"))
                    ok = isinstance(v, (int, float)) and not isinstance(v, bool) and 0 < v <= 60
                    detail += " = %r" % v
                except norm.NormError:
                    ok = False
        ctx.ob("the wait for the interfaces' shutdown is bounded by the constant SHUTDOWN_TIMEOUT", ok, fi, w, detail=detail)
        arg = w.args[0] if w.args else None
        comp = arg if isinstance(arg, (ast.ListComp, ast.GeneratorExp, ast.SetComp)) else None
        ok2 = False
        if comp is not None and len(comp.generators) == 1 and not comp.generators[0].ifs and chain(comp.generators[0].iter) == "self.request_interfaces":
            tv = comp.generators[0].target
            inner = [c for c in ast.walk(comp.elt) if isinstance(c, ast.Call) and isinstance(c.func, ast.Attribute) and c.func.attr == "shutdown" and same(c.func.value, tv)]
            ok2 = bool(inner)
        ctx.ob("shutdown() is started for every element of request_interfaces", ok2, fi, w)
        ctx.ob("the wait is awaited", isinstance(ctx_parent(fi, w), ast.Await), fi, w)
    cfg = cfg_of(fi)
    raises = [n for n in walk_no_nested(fi.node) if isinstance(n, ast.Raise)]
    ctx.ob("Context.shutdown returns normally whether or not interfaces are still busy (no raise)", not raises, fi, raises[0] if raises else fi.node, construct=stmt_text(raises[0]) if raises else "def shutdown")


def ctx_parent(fi, node):
    cfg = cfg_of(fi)
    return cfg.parent.get(id(node))


def _drain(ctx, fi, table, what, check_item):
    """The table is emptied by a loop that removes entries until none is left
    (or a for loop over a snapshot) and then retired with None."""
    cfg = cfg_of(fi)
    field = "self." + table
    nones = [n for k, n in stores_to(fi.node, field, nested=False) if k == "assign" and isinstance(n, ast.Assign) and isinstance(n.value, ast.Constant) and n.value.value is None]
    ctx.ob("%s is retired (set to None) by shutdown" % table, bool(nones), fi, nones[0] if nones else fi.node, construct=stmt_text(nones[0]) if nones else "def shutdown: %s" % table)
    pops = [(k, n) for k, n in stores_to(fi.node, field, nested=False) if k in ("pop", "popitem")]
    ctx.ob("%s are taken out of the table one by one" % what, bool(pops), fi, pops[0][1] if pops else fi.node, construct=stmt_text(pops[0][1]) if pops else "def shutdown: %s" % table)
    for k, p in pops:
        pn = cfg.loc1(p)
        in_loop = pn in cfg.reach({pn})
        emptied = guarded_by(cfg, pn, field, True) and in_loop
        ctx.ob("removal runs in a loop that continues while the table is non-empty", emptied, fi, p)
        check_item(cfg, p, pn)
    for n in nones:
        nn = cfg.loc1(n)
        ok = guarded_by(cfg, nn, field, False) or not pops
        ctx.ob("the table is retired only after it has been drained", ok and all(cfg.exists_path(cfg.loc1(p), nn) for _, p in pops), fi, n)
    return nones


@R.clause("C18.b", "TokenManager.shutdown stops every incoming request, fails every outgoing request with LibraryShutdown, retires both tables, then shuts the lower layer down")
def b(ctx):
    fi = ctx.prog.func(TM + "shutdown")

    def inc_item(cfg, p, pn):
        st = cfg.nodes[pn].ast
        stop = None
        if isinstance(st, ast.Assign) and isinstance(st.targets[0], (ast.Tuple, ast.List)) and len(st.targets[0].elts) == 2 and isinstance(st.targets[0].elts[1], ast.Name):
            stop = st.targets[0].elts[1].id
        calls = [cfg.loc1(c) for c, _ in find("%s()" % stop, fi.node)] if stop else []
        # from the pop, the next loop test or exit cannot be reached without calling the stopper
        tests = [n.id for n in cfg.nodes if n.kind == "test" and chain(n.ast) == "self.incoming_requests"]
        r = cfg.reach({pn}, avoid=set(calls), skip_labels=("exc",))
        ctx.ob("the stopper of every removed incoming request is called (server handlers are cancelled)", bool(calls) and not (set(tests) & r) and cfg.exit not in r, fi, p)

    def out_item(cfg, p, pn):
        st = cfg.nodes[pn].ast
        req = st.targets[0].id if isinstance(st, ast.Assign) and isinstance(st.targets[0], ast.Name) else None
        calls = []
        for c, bnd in (find("%s.add_exception($e)" % req, fi.node) if req else []):
            e = bnd["e"]
            cls = ctx.prog.resolve_in_module(fi.module, chain(e.func) or "?") if isinstance(e, ast.Call) else None
            okc = cls is not None and ctx.prog.is_subclass(cls, "aiocoap.error.LibraryShutdown") and ctx.prog.is_subclass(cls, "aiocoap.error.Error")
            ctx.ob("pending requests are failed with LibraryShutdown (a library Error)", okc, fi, c, detail=str(cls))
            calls.append(cfg.loc1(c))
        tests = [n.id for n in cfg.nodes if n.kind == "test" and chain(n.ast) == "self.outgoing_requests"]
        r = cfg.reach({pn}, avoid=set(calls), skip_labels=("exc",))
        ctx.ob("every removed outgoing request receives the shutdown error", bool(calls) and not (set(tests) & r) and cfg.exit not in r, fi, p)

    n1 = _drain(ctx, fi, "incoming_requests", "incoming requests", inc_item)
    n2 = _drain(ctx, fi, "outgoing_requests", "outgoing requests", out_item)
    cfg = cfg_of(fi)
    lower = [n for n in walk_no_nested(fi.node) if isinstance(n, ast.Await) and isinstance(n.value, ast.Call) and call_name(n.value) == "self.token_interface.shutdown"]
    ctx.ob("the lower layer's shutdown is awaited", bool(lower) and cfg.must_pass(cfg.entry, [cfg.loc1(l) for l in lower]), fi, lower[0] if lower else fi.node, construct=stmt_text(lower[0]) if lower else "def shutdown")
    for l in lower:
        ln = cfg.loc1(l)
        for n in n1 + n2:
            ctx.ob("both tables are retired before the first suspension point of shutdown", cfg.dominates(cfg.loc1(n), ln), fi, n)
        aw = [cfg.loc1(x) for x in walk_no_nested(fi.node) if isinstance(x, ast.Await)]
        ctx.ob("no earlier suspension point exists", all(a == ln or ln in cfg.dominators(a) for a in aw), fi, l)
    ci = ctx.prog.cls("error.LibraryShutdown")
    ctx.ob("LibraryShutdown derives from the library's error base class", ctx.prog.is_subclass(ci.qn, "aiocoap.error.Error"), None, None, construct="class LibraryShutdown")


@R.clause("C18.c", "TokenManager.request fails at once with LibraryShutdown after shutdown, before doing anything else")
def c(ctx):
    fi = ctx.prog.func(TM + "request")
    rq = params(fi)[0]
    cfg = cfg_of(fi)
    ts = [n.id for n in cfg.nodes if n.kind == "T" and match("self.outgoing_requests is None", n.ast) is not None] + \
         [n.id for n in cfg.nodes if n.kind == "F" and match("self.outgoing_requests is not None", n.ast) is not None]
    ctx.ob("request() tests whether the context has been shut down", bool(ts), fi, fi.node, construct="def request")
    for t in ts:
        test = [p for p, _ in cfg.pred[t]][0]
        effects_before = [n for n in cfg.stmt_nodes() if n.id != test and cfg.dominates(n.id, test) and n.kind != "test" and not (isinstance(n.ast, ast.Expr) and isinstance(n.ast.value, ast.Constant)) and not _only_logs(n.ast)]
        ctx.ob("the shutdown test precedes every other statement of request()", not effects_before, fi, effects_before[0].ast if effects_before else cfg.nodes[test].ast)
        for n in cfg.stmt_nodes():
            if n.id != test and n.kind != "test" and not cfg.dominates(test, n.id) and cfg.is_reachable(n.id) and not (isinstance(n.ast, ast.Expr) and isinstance(n.ast.value, ast.Constant)) and not _only_logs(n.ast):
                ctx.ob("no statement of request() bypasses the shutdown test", False, fi, n.ast)
        r = cfg.reach({t})
        adds = []
        for cnode, bnd in find("%s.add_exception($e)" % rq, fi.node):
            if cfg.loc1(cnode) in r and cfg.dominates(t, cfg.loc1(cnode)):
                e = bnd["e"]
                cls = ctx.prog.resolve_in_module(fi.module, chain(e.func) or "?") if isinstance(e, ast.Call) else None
                if cls and ctx.prog.is_subclass(cls, "aiocoap.error.LibraryShutdown"):
                    adds.append(cfg.loc1(cnode))
        ctx.ob("after shutdown the request is failed with LibraryShutdown on every path", bool(adds) and cfg.must_pass(t, adds), fi, cfg.nodes[t].ast)
        sends = [cfg.loc1(c_) for c_ in calls_in(fi.node) if (call_name(c_) or "").endswith("send_message")] + [cfg.loc1(n) for k, n in stores_to(fi.node, "self.outgoing_requests", nested=False)]
        ctx.ob("after shutdown nothing is registered or sent", not (set(sends) & r), fi, cfg.nodes[t].ast)


def _cancel_walks(ctx, sh):
    """{(field, tuple position or None)} for which MessageManager.shutdown
    iterates the container and calls .cancel() on that element."""
    out = set()
    for loop in [n for n in walk_no_nested(sh.node) if isinstance(n, ast.For)]:
        it = loop.iter
        base = it
        mode = "keys"
        if isinstance(it, ast.Call) and isinstance(it.func, ast.Attribute) and it.func.attr in ("values", "items"):
            base = it.func.value
            mode = it.func.attr
        if isinstance(base, ast.Call) and chain(base.func) in ("list", "tuple") and base.args:
            inner = base.args[0]
            if isinstance(inner, ast.Call) and isinstance(inner.func, ast.Attribute) and inner.func.attr in ("values", "items"):
                mode = inner.func.attr
                base = inner.func.value
        field = chain(base)
        if not field or not field.startswith("self."):
            continue
        tgt = loop.target
        val_t = tgt
        if mode == "items":
            if isinstance(tgt, ast.Tuple) and len(tgt.elts) == 2:
                val_t = tgt.elts[1]
            else:
                continue
        elif mode == "keys":
            continue
        for c in calls_in(loop):
            if isinstance(c.func, ast.Attribute) and c.func.attr == "cancel":
                recv = c.func.value
                if isinstance(val_t, (ast.Tuple, ast.List)):
                    for i, e in enumerate(val_t.elts):
                        if same(e, recv):
                            out.add((field, i))
                elif same(val_t, recv):
                    out.add((field, None))
                elif isinstance(recv, ast.Subscript) and same(recv.value, val_t) and isinstance(recv.slice, ast.Constant):
                    out.add((field, recv.slice.value))
    return out


def _inert_callback(fi, cb, rest):
    """Callbacks that only remove a key from a dict of the same object."""
    if match("functools.partial(self.$f.pop, $*a)", cb) is not None:
        return True
    if match("self.$f.pop", cb) is not None:
        return True
    if isinstance(cb, ast.Lambda) and match("self.$f.pop($*a)", cb.body) is not None:
        return True
    return False


def _inert_target(cb, rest):
    """(field name, pop has a default) of an inert callback."""
    m = match("functools.partial(self.$f.pop, $*a)", cb)
    if m is not None:
        return m["f"], len(m["a"]) + len(rest) >= 2
    m = match("self.$f.pop", cb)
    if m is not None:
        return m["f"], len(rest) >= 2
    if isinstance(cb, ast.Lambda):
        m = match("self.$f.pop($*a)", cb.body)
        if m is not None:
            return m["f"], len(m["a"]) >= 2
    return None, True


@R.clause("C18.d", "timer ownership: every call_later handle of the message layer is cancelled by shutdown or its callback is inert")
def d(ctx):
    sh = ctx.prog.func(MM + "shutdown")
    walks = _cancel_walks(ctx, sh)
    ctx.extra["shutdown_cancel_walks"] = sorted(map(str, walks))
    sites = []
    for fi in ctx.prog.funcs.values():
        if fi.module.name != "aiocoap.messagemanager":
            continue
        for c in calls_in(fi.node):
            if isinstance(c.func, ast.Attribute) and c.func.attr in ("call_later", "call_at") :
                sites.append((fi, c))
    ctx.floor("call_later sites in messagemanager.py", len(sites), 3)
    for fi, c in sites:
        cb = c.args[1] if len(c.args) > 1 else None
        rest = c.args[2:]
        if cb is not None and _inert_callback(fi, cb, rest):
            ctx.ob("timer callback is inert (only forgets a key of the same object)", True, fi, c)
            # ... and cannot raise after shutdown: `pop(key)` without a default is safe only while nothing
            # else ever removes entries from that dict
            fld, has_default = _inert_target(cb, rest)
            if fld is not None and not has_default:
                removers = []
                for fn, hits in field_writers(ctx.prog, fld).items():
                    for kind, node in hits:
                        if kind in ("pop", "popitem", "clear", "delitem", "del", "remove", "discard") or (kind == "assign" and not fn.endswith(".__init__")):
                            removers.append((fn, kind, node))
                if removers:
                    f2 = ctx.prog.funcs["aiocoap." + removers[0][0]]
                    ctx.ob("a pending inert timer cannot raise: no other code removes entries of %s (its callback pops without a default)" % fld, False, f2, removers[0][2],
                           detail="%s in %s while %s.pop(key) timers without default may still be pending" % (removers[0][1], removers[0][0], fld))
                else:
                    ctx.ob("a pending inert timer cannot raise: no other code removes entries of %s" % fld, True, fi, c)
            continue
        owners = _handle_owners(ctx, fi, c, depth=0)
        ok = any(o in walks for o in owners)
        ctx.ob("the timer handle is kept where MessageManager.shutdown cancels it", ok, fi, c,
               detail="handle stored in %s; shutdown cancels %s" % (sorted(map(str, owners)) or "nothing", sorted(map(str, walks)) or "nothing"))
    # shutdown retires _active_exchanges
    nones = [n for k, n in stores_to(sh.node, "self._active_exchanges", nested=False) if k == "assign" and isinstance(n.value, ast.Constant) and n.value.value is None]
    ctx.ob("MessageManager.shutdown retires _active_exchanges (None marks 'shutting down')", bool(nones), sh, nones[0] if nones else sh.node, construct=stmt_text(nones[0]) if nones else "def shutdown")
    cfg = cfg_of(sh)
    lower = [n for n in walk_no_nested(sh.node) if isinstance(n, ast.Await)]
    for n in nones:
        for l in lower:
            ctx.ob("timers are cancelled and the table retired before the first suspension point", cfg.dominates(cfg.loc1(n), cfg.loc1(l)), sh, n)
    ctx.ob("the message interface's shutdown is awaited", any(isinstance(l.value, ast.Call) and call_name(l.value) == "self.message_interface.shutdown" for l in lower), sh, sh.node, construct="def shutdown")


def _handle_owners(ctx, fi, call, depth):
    """Where does the value of `call` end up?  Returns {(field, position)}."""
    owners = set()
    cfg = cfg_of(fi)
    p = cfg.parent.get(id(call))
    names = []
    if isinstance(p, ast.Assign) and len(p.targets) == 1 and isinstance(p.targets[0], ast.Name):
        names.append(p.targets[0].id)
    elif isinstance(p, ast.Return):
        # returned: follow callers one level
        if depth < 2:
            for f2 in ctx.prog.funcs.values():
                if f2.module is not fi.module:
                    continue
                for c2 in calls_in(f2.node):
                    if isinstance(c2.func, ast.Attribute) and c2.func.attr == fi.name and chain(c2.func.value) == "self":
                        owners |= _handle_owners(ctx, f2, c2, depth + 1)
        return owners
    elif isinstance(p, ast.Tuple):
        pp = cfg.parent.get(id(p))
        if isinstance(pp, ast.Assign) and isinstance(pp.targets[0], ast.Subscript):
            f = chain(pp.targets[0].value)
            if f:
                owners.add((f, p.elts.index(call)))
        return owners
    for nm in names:
        for n in walk_no_nested(fi.node):
            if isinstance(n, ast.Assign) and isinstance(n.targets[0], ast.Subscript):
                f = chain(n.targets[0].value)
                v = n.value
                if f and isinstance(v, ast.Tuple):
                    for i, e in enumerate(v.elts):
                        if isinstance(e, ast.Name) and e.id == nm:
                            owners.add((f, i))
                elif f and isinstance(v, ast.Name) and v.id == nm:
                    owners.add((f, None))
            if isinstance(n, ast.Return) and isinstance(n.value, ast.Name) and n.value.id == nm and depth < 2:
                for f2 in ctx.prog.funcs.values():
                    if f2.module is not fi.module:
                        continue
                    for c2 in calls_in(f2.node):
                        if isinstance(c2.func, ast.Attribute) and c2.func.attr == fi.name and chain(c2.func.value) == "self":
                            owners |= _handle_owners(ctx, f2, c2, depth + 1)
    return owners


@R.clause("C18.g", "every running server handler is in the table shutdown drains: a request overriding the same (token, remote) stops and removes the old entry before the new one is stored (shared with C08.e)")
def g_shared(ctx):
    """TokenManager.shutdown can only cancel the handlers it finds in incoming_requests.  An independently written
    breaking change stored the new (pipe, stopper) before stopping the overridden one, whose end-of-interest hook then
    deleted the *new* entry by key: the replacement handler ran on through shutdown.  The obligations are the
    process_request part of C08.e."""
    from . import c08
    c08._e_process_request(ctx)


@R.clause("C18.e", "late errors after shutdown are tolerated: dispatch_error returns at once when the tables are retired")
def e(ctx):
    for short, table in ((MM + "dispatch_error", "self._active_exchanges"), (TM + "dispatch_error", "self.outgoing_requests")):
        fi = ctx.prog.func(short)
        cfg = cfg_of(fi)
        ts = [n.id for n in cfg.nodes if n.kind == "T" and match("%s is None" % table, n.ast) is not None] + \
             [n.id for n in cfg.nodes if n.kind == "F" and match("%s is not None" % table, n.ast) is not None]
        ctx.ob("%s tests for the retired table" % fi.short, bool(ts), fi, fi.node, construct="def dispatch_error")
        for t in ts:
            test = [p for p, _ in cfg.pred[t]][0]
            before = [n for n in cfg.stmt_nodes() if n.id != test and cfg.dominates(n.id, test) and n.kind != "test" and not (isinstance(n.ast, ast.Expr) and isinstance(n.ast.value, ast.Constant)) and not _only_logs(n.ast)]
            ctx.ob("the retired-table test is the first thing dispatch_error does", not before, fi, before[0].ast if before else cfg.nodes[test].ast)
            r = cfg.reach({t})
            bad = [n for n in r if cfg.nodes[n].kind in ("stmt", "raise", "for", "with", "test") and not _only_logs(cfg.nodes[n].ast)]
            ctx.ob("with retired tables dispatch_error does nothing but return (no raise in the event loop)", not bad and cfg.rexit not in cfg.reach({t}, skip_labels=("exc",)), fi, cfg.nodes[bad[0]].ast if bad else cfg.nodes[t].ast)


def _only_logs(st):
    if st is None or isinstance(st, ast.Pass):
        return True
    if isinstance(st, ast.Expr) and isinstance(st.value, ast.Call) and is_log_call(st.value):
        return True
    return False


@R.clause("C18.f", "while shutting down send_message degrades every outgoing message to NON (no new exchange)")
def f(ctx):
    from . import c10
    from ..absdom import Interp, Sym, code_predicates
    import itertools
    preds = code_predicates(ctx.prog)
    fi = ctx.prog.func(MM + "send_message")
    m = params(fi)[0]
    rows = 0
    for code, preset, mcast, rel, reqt in itertools.product((1, 69), (None, "CON", "NON"), (False, True), (True, False, None), (None, "CON")):
        if code == 1 and reqt:
            continue
        env = {
            m + ".mid": None, m + ".code": code, m + ".mtype": Sym(preset) if preset else None,
            m + ".opt.no_response": None, m + ".remote": ("object", "remote"), m + ".token": ("object", "token"),
            m + ".remote.is_multicast": mcast, m + ".transport_tuning.reliability": rel,
            m + ".request": ("object", "request") if reqt else None, m + ".request.mtype": Sym(reqt) if reqt else None,
            "self._active_exchanges": None,
        }
        calls = [("$k in self._piggyback_opportunities", False), ("$k not in self._piggyback_opportunities", True),
                 ("$r in self._backlogs", False), ("$r not in self._backlogs", True), ("$x.as_response_address()", ("object", "response-address"))]
        it = Interp(fi, env, calls, preds, c10.CONSTS, c10.send_effect(fi, m))
        it.run()
        rows += 1
        sent = [t for t in it.trace if t[0] in ("send", "queue")]
        ok = len(sent) == 1 and sent[0][0] == "send" and str(sent[0][1]) == "NON"
        if not ok:
            ctx.ob("during shutdown a message without pending acknowledgement is sent NON", False, fi, fi.node,
                   construct="send_message during shutdown: %s" % (sent,), detail="code=%s preset=%s multicast=%s reliability=%s request=%s" % (code, preset, mcast, rel, reqt))
    ctx.floor("shutdown rows", rows, 30)
    ctx.ob("all %d shutdown cells of send_message choose NON" % rows, True, fi, fi.node, construct="send_message during shutdown")


@R.clause("C18.h", "other contexts are unaffected: the tables that shutdown drains and retires belong to the instance (created in __init__, no class-level container shared between contexts)")
def h_instance_state(ctx):
    """Added after an independently written breaking change moved outgoing_requests / incoming_requests into
    class-level `{}` defaults: every TokenManager of the process shared them, and shutting one (idle) context down
    failed the requests and cancelled the handlers of all others."""
    for clsname, fields in (("tokenmanager.TokenManager", ("outgoing_requests", "incoming_requests")),
                            ("messagemanager.MessageManager", ("_active_exchanges", "_backlogs", "_recent_messages", "_piggyback_opportunities"))):
        ci = ctx.prog.cls(clsname)
        init = ci.methods.get("__init__")
        ctx.need(init is not None, "%s.__init__ missing" % clsname)
        for f in fields:
            st = [n for n in walk_no_nested(init.node) if isinstance(n, (ast.Assign, ast.AnnAssign)) and any(chain(t) == "self." + f for t in (n.targets if isinstance(n, ast.Assign) else [n.target])) and n.value is not None]
            fresh = len(st) >= 1 and all(isinstance(n.value, (ast.Dict, ast.List, ast.Set)) or (isinstance(n.value, ast.Call) and chain(n.value.func) in ("dict", "list", "set", "collections.OrderedDict")) for n in st)
            ctx.ob("%s.%s is created afresh for every instance" % (clsname.split(".")[-1], f), fresh, init, st[0] if st else init.node,
                   construct="%s.__init__: self.%s" % (clsname.split(".")[-1], f))
            shared = ci.attrs.get(f)
            ctx.ob("%s.%s has no class-level container shared between instances" % (clsname.split(".")[-1], f), shared is None or isinstance(shared, ast.Constant), None, None,
                   construct="class %s: %s = %s" % (clsname.split(".")[-1], f, stmt_text(shared) if shared is not None else "<no class attribute>"))


F_MM = "aiocoap/messagemanager.py"
R.seed("C18.d", F_MM, "        self._active_exchanges = None\n", "        self._active_exchanges = None\n        self._recent_messages.clear()\n", "de-duplication entries cleared while their pop-without-default expiry timers stay armed: KeyError in the loop after shutdown")
F_TM = "aiocoap/tokenmanager.py"
F_P = "aiocoap/protocol.py"
R.seed("C18.a", F_P, "            timeout=SHUTDOWN_TIMEOUT,\n        )\n        for item in done:", "            timeout=None,\n        )\n        for item in done:", "unbounded wait")
R.seed("C18.a", F_P, "                for ri in self.request_interfaces\n            ],\n            timeout=SHUTDOWN_TIMEOUT,", "                for ri in self.request_interfaces[:1]\n            ],\n            timeout=SHUTDOWN_TIMEOUT,", "only the first interface")
R.seed("C18.b", F_TM, "            (_, stop) = self.incoming_requests.pop(key)\n            # This cancels them", "            (_, stop) = self.incoming_requests.pop(key)\n            continue\n            # This cancels them", "handlers not cancelled")
R.seed("C18.b", F_TM, "            stop()\n        self.incoming_requests = None\n", "            stop()\n", "incoming table not retired")
R.seed("C18.b", F_TM, "            request.add_exception(error.LibraryShutdown())\n        self.outgoing_requests = None", "            pass\n        self.outgoing_requests = None", "pending requests hang")
R.seed("C18.b", F_TM, "        self.outgoing_requests = None\n\n        await self.token_interface.shutdown()", "        await self.token_interface.shutdown()\n        self.outgoing_requests = None", "table retired after the await")
R.seed("C18.b", F_TM, "        while self.outgoing_requests:\n            key = next(iter(self.outgoing_requests.keys()))\n            request = self.outgoing_requests.pop(key)", "        if self.outgoing_requests:\n            key = next(iter(self.outgoing_requests.keys()))\n            request = self.outgoing_requests.pop(key)", "only one request failed")
R.seed("C18.c", F_TM, "        if self.outgoing_requests is None:\n            request.add_exception(error.LibraryShutdown())\n            return\n\n        msg = request.request", "        msg = request.request", "request after shutdown hangs/raises")
R.seed("C18.c", F_TM, "        if self.outgoing_requests is None:\n            request.add_exception(error.LibraryShutdown())\n            return\n\n        msg = request.request\n", "        msg = request.request\n        msg.token = self.next_token()\n        if self.outgoing_requests is None:\n            request.add_exception(error.LibraryShutdown())\n            return\n", "guard below the token assignment")
R.seed("C18.d", F_MM, "        for messageerror_monitor, cancellable in self._active_exchanges.values():\n            # Not calling messageerror_monitor: This is not message specific,\n            # and its shutdown will take care of these things\n            cancellable.cancel()\n", "", "retransmission timers left armed")
R.seed("C18.d", F_MM, "        self._active_exchanges = None\n", "        pass\n", "table not retired")
R.seed("C18.d", F_MM, "        for _mid, empty_ack_timeout in self._piggyback_opportunities.values():\n", "        for _mid, empty_ack_timeout in ():\n", "empty-ACK timers left armed (applies to the repaired tree)")
R.seed("C18.e", F_MM, "                \"Internal shutdown sequence mismatch: error dispatched through messagemanager after shutown\"\n            )\n            return\n", "                \"Internal shutdown sequence mismatch: error dispatched through messagemanager after shutown\"\n            )\n", "late error crashes on None table")
R.seed("C18.e", F_TM, "                \"Internal shutdown sequence msismatch: error dispatched through tokenmanager after shutdown\"\n            )\n            return\n", "                \"Internal shutdown sequence msismatch: error dispatched through tokenmanager after shutdown\"\n            )\n            raise RuntimeError(\"late\")\n", "late error raises in the loop")
R.seed("C18.f", F_MM, "            if self._active_exchanges is None:\n                # during shutdown, this is all we can do\n                message.mtype = NON", "            if self._active_exchanges is None:\n                # during shutdown, this is all we can do\n                message.mtype = CON", "CON during shutdown")

R.seed("C18.g", F_TM, "            (pipe, stop) = self.incoming_requests.pop(key)\n            stop()\n", "            (pipe, stop) = self.incoming_requests[key]\n", "overridden request neither removed nor stopped before the new entry is stored")

R.seed("C18.h", F_TM, "class TokenManager(interfaces.RequestInterface, interfaces.TokenManager):\n", "class TokenManager(interfaces.RequestInterface, interfaces.TokenManager):\n    outgoing_requests = {}\n    incoming_requests = {}\n", "class-level tables (shared by every context as soon as __init__ stops shadowing them)")
R.seed("C18.h", F_TM, "        self.outgoing_requests = {}\n", "        self.outgoing_requests = type(self)._shared_outgoing\n", "table shared between all token managers")
