"""Symbolic executor used by the C19 rules (part 1: values, the checker's own
concrete evaluator, linear forms, symbolic sequences).

Nothing of the analysed repository is imported or executed: the executor walks
the statement-level CFG (coaplint.cfg) of functions of ONE class, keeps one
*state* per distinct valuation (values of locals as syntax trees over root
symbols, decisions taken on atomic conditions, loop cursors), steps into
helper methods of the same class / functions of the same module, and evaluates
expressions over constants with its own small evaluator (`ceval`).

A *scenario* fixes some roots (``self.write`` is False, the request's Uri-Path
is ``()``, the Uri-Path is a sequence containing one distinguished bad
component ...); the rules then ask which CFG nodes are reachable under the
scenario.  That question is indifferent to guard order, early return vs nested
if, De Morgan, named booleans, helper extraction, result-returning helpers
(`refusal = self._h(request); if refusal is not None: return refusal`), loops
vs any()/all() vs membership tests.
"""

import ast

from ..model import AnalysisError
from ..pat import chain
from .. import norm
from ..paths import atom_key


# ---------------------------------------------------------------------------
# syntax helpers


def T(e):
    """normalised text of a value (cached on the node)"""
    t = getattr(e, "_c19txt", None)
    if t is None:
        t = " ".join(ast.unparse(e).split())
        try:
            e._c19txt = t
        except Exception:
            pass
    return t


def K(v, taint=False):
    n = ast.Constant(value=v)
    if taint:
        n._taint = True
    return n


def N(name, taint=False):
    n = ast.Name(id=name, ctx=ast.Load())
    if taint:
        n._taint = True
    return n


def is_sym(e, prefix=None):
    return isinstance(e, ast.Name) and e.id.startswith("$") and (prefix is None or e.id.startswith(prefix))


def marker_of(e):
    """marker name of an opaque-call value `$call@...(func, args...)`"""
    if isinstance(e, ast.Call) and isinstance(e.func, ast.Name) and e.func.id.startswith("$"):
        return e.func.id
    return None


def opaque_parts(e):
    """(function expression, args, keywords) of an opaque-call value, else None"""
    if marker_of(e) is None or not e.args:
        return None
    return e.args[0], list(e.args[1:]), list(e.keywords)


def size_of(e):
    return sum(1 for _ in ast.walk(e))


def value_to_ast(v, taint=False):
    if isinstance(v, (str, bytes, int, bool, float)) or v is None:
        return K(v, taint)
    if isinstance(v, tuple):
        n = ast.Tuple(elts=[value_to_ast(x, taint) for x in v], ctx=ast.Load())
    elif isinstance(v, list):
        n = ast.List(elts=[value_to_ast(x, taint) for x in v], ctx=ast.Load())
    elif isinstance(v, (set, frozenset)):
        if not v:
            n = ast.Call(func=N("frozenset"), args=[], keywords=[])
        else:
            n = ast.Set(elts=[value_to_ast(x, taint) for x in sorted(v, key=repr)])
    else:
        raise Unk("value %r" % (v,))
    if taint:
        n._taint = True
    return n


# ---------------------------------------------------------------------------
# the checker's own concrete evaluator


class Unk(Exception):
    """outside the evaluator's vocabulary / not constant"""


class CRaise(Exception):
    """the expression raises (class name in args[0])"""


_STR_METHODS = {"startswith", "endswith", "count", "find", "rfind", "split", "rsplit", "strip", "lstrip", "rstrip", "lower", "upper",
                "casefold", "isalnum", "isalpha", "isdigit", "isidentifier", "isprintable", "isspace", "partition", "rpartition", "replace",
                "removeprefix", "removesuffix", "title", "index", "rindex"}
_MAX_ITEMS = 4096


def _m_normalize(*a):
    """unicodedata.normalize(form, s): the checker's interpreter carries the same tables as the one running the server"""
    import unicodedata
    if len(a) != 2 or not all(isinstance(x, str) for x in a):
        raise Unk("normalize arguments")
    if a[0] not in ("NFC", "NFD", "NFKC", "NFKD"):
        raise CRaise("ValueError")
    return unicodedata.normalize(a[0], a[1])


def _m_unquote(plus):
    def model(*a):
        import urllib.parse
        if not 1 <= len(a) <= 3 or not all(isinstance(x, str) for x in a):
            raise Unk("unquote arguments")
        try:
            return (urllib.parse.unquote_plus if plus else urllib.parse.unquote)(*a)
        except (LookupError, UnicodeError):
            raise Unk("unquote codec")
    return model


# Library functions str -> str whose result is a function of the arguments alone and which the checker evaluates itself
# on constant arguments (qualified names; import aliases are resolved by SX.apply before the lookup).
STR_MODELS = {"unicodedata.normalize": _m_normalize, "urllib.parse.unquote": _m_unquote(False), "urllib.parse.unquote_plus": _m_unquote(True)}


def _is_plain(v):
    return v is None or isinstance(v, (str, bytes, int, float, bool, tuple, list, set, frozenset))


def ceval(e, cenv=None, depth=0):
    """Evaluate a constant expression in the checker's own evaluator."""
    cenv = cenv or {}
    if depth > 40:
        raise Unk("depth")
    ev = lambda x: ceval(x, cenv, depth + 1)
    if isinstance(e, ast.Constant):
        if e.value is Ellipsis:
            raise Unk("ellipsis")
        return e.value
    if isinstance(e, ast.Name):
        if e.id in cenv:
            return cenv[e.id]
        raise Unk(e.id)
    if isinstance(e, ast.Attribute):
        if chain(e) in ("os.sep", "os.path.sep", "posixpath.sep"):
            return "/"  # the file server joins with "/": POSIX path semantics throughout
        raise Unk("attribute")
    if isinstance(e, (ast.Tuple, ast.List, ast.Set)):
        out = []
        for x in e.elts:
            if isinstance(x, ast.Starred):
                out.extend(_iter(ev(x.value)))
            else:
                out.append(ev(x))
        if isinstance(e, ast.Tuple):
            return tuple(out)
        if isinstance(e, ast.List):
            return list(out)
        try:
            return frozenset(out)
        except TypeError:
            raise Unk("unhashable")
    if isinstance(e, ast.UnaryOp):
        v = ev(e.operand)
        if isinstance(e.op, ast.Not):
            return not v
        if isinstance(e.op, ast.USub) and isinstance(v, (int, float)):
            return -v
        if isinstance(e.op, ast.UAdd) and isinstance(v, (int, float)):
            return v
        raise Unk("unary")
    if isinstance(e, ast.BoolOp):
        r = None
        for x in e.values:
            r = ev(x)
            if isinstance(e.op, ast.And) and not r:
                return r
            if isinstance(e.op, ast.Or) and r:
                return r
        return r
    if isinstance(e, ast.IfExp):
        return ev(e.body) if ev(e.test) else ev(e.orelse)
    if isinstance(e, ast.Compare):
        left = ev(e.left)
        for op, c in zip(e.ops, e.comparators):
            right = ev(c)
            if not _cmp(op, left, right):
                return False
            left = right
        return True
    if isinstance(e, ast.BinOp):
        l, r = ev(e.left), ev(e.right)
        try:
            if isinstance(e.op, ast.Add) and type(l) is type(r) and isinstance(l, (str, bytes, tuple, list)):
                return l + r
            if isinstance(e.op, ast.BitAnd) and isinstance(l, (set, frozenset)) and isinstance(r, (set, frozenset)):
                return frozenset(l & r)
            if isinstance(e.op, ast.BitOr) and isinstance(l, (set, frozenset)) and isinstance(r, (set, frozenset)):
                return frozenset(l | r)
            if isinstance(e.op, ast.Sub) and isinstance(l, (set, frozenset)) and isinstance(r, (set, frozenset)):
                return frozenset(l - r)
            if isinstance(l, bool) or isinstance(r, bool) or not isinstance(l, int) or not isinstance(r, int):
                raise Unk("binop operands")
            if isinstance(e.op, ast.Add):
                return l + r
            if isinstance(e.op, ast.Sub):
                return l - r
            if isinstance(e.op, ast.Mult):
                return l * r
            if isinstance(e.op, ast.FloorDiv):
                if r == 0:
                    raise CRaise("ZeroDivisionError")
                return l // r
            if isinstance(e.op, ast.Mod):
                if r == 0:
                    raise CRaise("ZeroDivisionError")
                return l % r
            if isinstance(e.op, ast.Pow) and 0 <= r <= 64:
                return l ** r
            if isinstance(e.op, ast.LShift) and 0 <= r <= 64:
                return l << r
            if isinstance(e.op, ast.RShift) and 0 <= r <= 64:
                return l >> r
            if isinstance(e.op, ast.BitAnd):
                return l & r
            if isinstance(e.op, ast.BitOr):
                return l | r
        except TypeError:
            raise Unk("binop")
        raise Unk("binop")
    if isinstance(e, ast.Subscript):
        v = ev(e.value)
        if not isinstance(v, (str, bytes, tuple, list)):
            raise Unk("subscript base")
        if isinstance(e.slice, ast.Slice):
            lo = None if e.slice.lower is None else ev(e.slice.lower)
            hi = None if e.slice.upper is None else ev(e.slice.upper)
            stp = None if e.slice.step is None else ev(e.slice.step)
            for x in (lo, hi, stp):
                if x is not None and (isinstance(x, bool) or not isinstance(x, int)):
                    raise Unk("slice bound")
            if stp == 0:
                raise CRaise("ValueError")
            return v[lo:hi:stp]
        i = ev(e.slice)
        if isinstance(i, bool) or not isinstance(i, int):
            raise Unk("index")
        try:
            return v[i]
        except IndexError:
            raise CRaise("IndexError")
    if isinstance(e, (ast.GeneratorExp, ast.ListComp, ast.SetComp)):
        out = []
        _comp(e, 0, cenv, out, depth)
        if isinstance(e, ast.SetComp):
            return frozenset(out)
        return list(out)
    if isinstance(e, ast.Call):
        return _ccall(e, cenv, depth)
    raise Unk(type(e).__name__)


def _iter(v):
    if isinstance(v, (str, tuple, list)):
        return list(v)
    if isinstance(v, (set, frozenset)):
        return sorted(v, key=repr)
    raise Unk("not iterable")


def _cmp(op, l, r):
    try:
        if isinstance(op, ast.Eq):
            return l == r
        if isinstance(op, ast.NotEq):
            return l != r
        if isinstance(op, (ast.Is, ast.IsNot)):
            # identity is only meaningful for the singletons
            if any(x is None or isinstance(x, bool) for x in (l, r)):
                same = (l is r) or (isinstance(l, bool) and isinstance(r, bool) and l == r)
                return same if isinstance(op, ast.Is) else not same
            raise Unk("identity of non-singletons")
        if isinstance(op, ast.In):
            return l in r
        if isinstance(op, ast.NotIn):
            return l not in r
        if isinstance(op, ast.Lt):
            return l < r
        if isinstance(op, ast.LtE):
            return l <= r
        if isinstance(op, ast.Gt):
            return l > r
        if isinstance(op, ast.GtE):
            return l >= r
    except TypeError:
        raise Unk("ill-typed comparison")
    raise Unk("operator")


def _bind_target(t, v, env):
    if isinstance(t, ast.Name):
        env[t.id] = v
        return
    if isinstance(t, (ast.Tuple, ast.List)) and not any(isinstance(x, ast.Starred) for x in t.elts):
        vs = _iter(v)
        if len(vs) != len(t.elts):
            raise CRaise("ValueError")
        for tt, vv in zip(t.elts, vs):
            _bind_target(tt, vv, env)
        return
    raise Unk("target")


def _comp(e, gi, cenv, out, depth):
    if gi == len(e.generators):
        out.append(ceval(e.elt, cenv, depth + 1))
        if len(out) > _MAX_ITEMS:
            raise Unk("too many items")
        return
    g = e.generators[gi]
    if g.is_async:
        raise Unk("async comprehension")
    for v in _iter(ceval(g.iter, cenv, depth + 1)):
        env2 = dict(cenv)
        _bind_target(g.target, v, env2)
        if all(ceval(c, env2, depth + 1) for c in g.ifs):
            _comp(e, gi + 1, env2, out, depth)


def _ccall(e, cenv, depth):
    ev = lambda x: ceval(x, cenv, depth + 1)
    if e.keywords or any(isinstance(a, ast.Starred) for a in e.args):
        raise Unk("call form")
    fn = chain(e.func)
    args = e.args
    if fn in ("len", "bool", "any", "all", "tuple", "list", "set", "frozenset", "sorted", "reversed", "min", "max", "sum", "str",
              "enumerate", "zip", "range", "iter", "int", "repr", "abs") and not (isinstance(e.func, ast.Attribute)):
        vals = [ev(a) for a in args]
        try:
            if fn == "len" and len(vals) == 1 and isinstance(vals[0], (str, bytes, tuple, list, set, frozenset)):
                return len(vals[0])
            if fn == "bool" and len(vals) == 1:
                return bool(vals[0])
            if fn == "any" and len(vals) == 1:
                return any(_iter(vals[0]))
            if fn == "all" and len(vals) == 1:
                return all(_iter(vals[0]))
            if fn in ("tuple", "iter") and len(vals) <= 1:
                return tuple(_iter(vals[0])) if vals else ()
            if fn == "list" and len(vals) <= 1:
                return list(_iter(vals[0])) if vals else []
            if fn in ("set", "frozenset") and len(vals) <= 1:
                return frozenset(_iter(vals[0])) if vals else frozenset()
            if fn == "sorted" and len(vals) == 1:
                return sorted(_iter(vals[0]))
            if fn == "reversed" and len(vals) == 1:
                return list(reversed(_iter(vals[0])))
            if fn in ("min", "max") and vals:
                seq = _iter(vals[0]) if len(vals) == 1 else vals
                if not seq:
                    raise CRaise("ValueError")
                return min(seq) if fn == "min" else max(seq)
            if fn == "sum" and len(vals) == 1:
                seq = _iter(vals[0])
                if all(isinstance(x, int) for x in seq):
                    return sum(seq)
            if fn == "str" and len(vals) == 1 and isinstance(vals[0], str):
                return vals[0]
            if fn == "int" and len(vals) == 1 and isinstance(vals[0], int):
                return int(vals[0])
            if fn == "abs" and len(vals) == 1 and isinstance(vals[0], int):
                return abs(vals[0])
            if fn == "repr" and len(vals) == 1 and isinstance(vals[0], (str, int)):
                return repr(vals[0])
            if fn == "enumerate" and len(vals) in (1, 2):
                start = vals[1] if len(vals) == 2 else 0
                if isinstance(start, int):
                    return [(start + i, x) for i, x in enumerate(_iter(vals[0]))]
            if fn == "zip":
                return [tuple(t) for t in zip(*[_iter(v) for v in vals])]
            if fn == "range" and 1 <= len(vals) <= 3 and all(isinstance(v, int) and not isinstance(v, bool) for v in vals):
                r = range(*vals)
                if len(r) <= _MAX_ITEMS:
                    return list(r)
        except TypeError:
            raise Unk("ill-typed call")
        raise Unk("call " + fn)
    if fn in ("os.path.isabs", "posixpath.isabs") and len(args) == 1:
        v = ev(args[0])
        if isinstance(v, str):
            return v.startswith("/")
        raise Unk("isabs")
    if fn in STR_MODELS:
        return STR_MODELS[fn](*[ev(a) for a in args])
    if isinstance(e.func, ast.Attribute):
        recv = ev(e.func.value)
        name = e.func.attr
        vals = [ev(a) for a in args]
        if isinstance(recv, (str, bytes)) and name == ("encode" if isinstance(recv, str) else "decode") and all(isinstance(v, str) for v in vals):
            # exact model (the checker's own interpreter implements the codecs): "..\u00e9".encode("ascii", "ignore") == b".."
            try:
                return getattr(recv, name)(*vals)
            except UnicodeError as x:
                raise CRaise(type(x).__name__)
            except (LookupError, TypeError):
                raise Unk("codec")
        if isinstance(recv, str):
            if name == "join" and len(vals) == 1:
                items = _iter(vals[0])
                if all(isinstance(x, str) for x in items):
                    return recv.join(items)
                raise CRaise("TypeError")
            if name in _STR_METHODS and all(isinstance(v, (str, int, tuple)) or v is None for v in vals):
                try:
                    r = getattr(recv, name)(*vals)
                except (TypeError,):
                    raise Unk("str method arguments")
                except ValueError:
                    raise CRaise("ValueError")
                if _is_plain(r):
                    return r
            raise Unk("str method " + name)
        if isinstance(recv, (set, frozenset)) and len(vals) == 1:
            other = frozenset(_iter(vals[0]))
            if name == "isdisjoint":
                return recv.isdisjoint(other)
            if name == "intersection":
                return frozenset(recv & other)
            if name == "issubset":
                return recv <= other
            if name == "issuperset":
                return recv >= other
            if name == "union":
                return frozenset(recv | other)
            if name == "difference":
                return frozenset(recv - other)
        if isinstance(recv, (tuple, list)) and name == "count" and len(vals) == 1:
            return list(recv).count(vals[0])
        if isinstance(recv, (tuple, list)) and name == "index" and len(vals) == 1:
            try:
                return list(recv).index(vals[0])
            except ValueError:
                raise CRaise("ValueError")
    raise Unk("call")


# ---------------------------------------------------------------------------
# linear forms over non-negative symbols


def lin_add(a, b, k=1):
    r = dict(a)
    for s, c in b.items():
        r[s] = r.get(s, 0) + k * c
    return {s: c for s, c in r.items() if c != 0 or s == 1}


def lin_const(c):
    return {1: c}


def lin_decide(op, l, r):
    """truth of `l op r` for linear forms whose symbols range over the non-negative integers, with
    `$t<k> < $n<k>` for an iteration counter and its segment length; None when undetermined."""
    p = lin_add(l, r, -1)
    # $n<k> = $t<k> + 1 + $s<k> whenever the counter occurs
    for s in list(p):
        if isinstance(s, str) and s.startswith("$t"):
            k = s[2:]
            n = "$n" + k
            if n in p:
                c = p.pop(n)
                p = lin_add(p, {s: c, 1: c, "$s" + k: c})
    c0 = p.get(1, 0)
    coefs = [c for s, c in p.items() if s != 1 and c != 0]
    nonneg = all(c >= 0 for c in coefs)
    nonpos = all(c <= 0 for c in coefs)

    def sign_lt0():  # p < 0 ?
        if nonpos and c0 < 0:
            return True
        if nonneg and c0 >= 0:
            return False
        return None

    def sign_eq0():
        if not coefs:
            return c0 == 0
        if (nonneg and c0 > 0) or (nonpos and c0 < 0):
            return False
        return None

    if isinstance(op, ast.Eq):
        return sign_eq0()
    if isinstance(op, ast.NotEq):
        v = sign_eq0()
        return None if v is None else not v
    if isinstance(op, ast.Lt):
        return sign_lt0()
    if isinstance(op, ast.GtE):
        v = sign_lt0()
        return None if v is None else not v
    # l <= r  <=>  l - r - 1 < 0 ;  l > r  <=> not (l <= r)
    q = dict(p)
    q[1] = c0 - 1
    c0 = q[1]
    if isinstance(op, ast.LtE):
        return True if (nonpos and c0 < 0) else (False if (nonneg and c0 >= 0) else None)
    if isinstance(op, ast.Gt):
        v = True if (nonpos and c0 < 0) else (False if (nonneg and c0 >= 0) else None)
        return None if v is None else not v
    return None


def lin_to_ast(l):
    """syntax tree of a linear form (constant first)"""
    e = None
    c0 = l.get(1, 0)
    if c0 != 0 or len(l) <= 1:
        e = K(c0)
    for s in sorted(x for x in l if x != 1):
        c = l[s]
        term = N(s) if c == 1 else ast.BinOp(left=K(c), op=ast.Mult(), right=N(s))
        e = term if e is None else ast.BinOp(left=e, op=ast.Add(), right=term)
    return e


# ---------------------------------------------------------------------------
# symbolic sequences: list of segments ('one', element) | ('many', k)
# a 'many' segment stands for $n<k> >= 0 further elements, each an unconstrained value $g<k>


def segs_len(segs):
    l = {1: 0}
    for kind, x in segs:
        if kind == "one":
            l[1] += 1
        else:
            l["$n%s" % x] = l.get("$n%s" % x, 0) + 1
    return l


def segs_index(segs, p, start=0):
    """linear form of the index of the element delivered from segment p"""
    l = segs_len(segs[:p])
    l[1] = l.get(1, 0) + start
    if segs[p][0] == "many":
        l["$t%s" % segs[p][1]] = 1
    return l


def segs_slice(segs, lo, hi):
    """slice with constant bounds, when the ends are definite elements; else None"""
    segs = list(segs)
    lo = 0 if lo is None else lo
    if lo < 0:
        # s[-k:] : the last k elements
        k = -lo
        if hi is not None:
            return None
        if len(segs) >= k and all(s[0] == "one" for s in segs[-k:]):
            return segs[-k:]
        return None
    if lo > 0:
        if len(segs) >= lo and all(s[0] == "one" for s in segs[:lo]):
            segs = segs[lo:]
        elif all(s[0] == "one" for s in segs) and len(segs) < lo:
            return []
        else:
            return None
    if hi is None:
        return segs
    if hi < 0:
        k = -hi
        if len(segs) >= k and all(s[0] == "one" for s in segs[-k:]):
            return segs[:-k]
        if all(s[0] == "one" for s in segs) and len(segs) < k:
            return []
        return None
    k = hi - lo
    if k <= 0:
        return []
    if len(segs) >= k and all(s[0] == "one" for s in segs[:k]):
        return segs[:k]
    if all(s[0] == "one" for s in segs):
        return segs[:k]
    return None


def known_prefix(segs, cval=None):
    """longest prefix of "/".join(seq) that is known for certain; cval(element) -> str or None"""
    if cval is None:
        cval = lambda x: x.value if isinstance(x, ast.Constant) and isinstance(x.value, str) else None
    out = ""
    for i, (kind, x) in enumerate(segs):
        v = cval(x) if kind == "one" else None
        if v is None:
            break
        out += v
        if any(k == "one" for k, _ in segs[i + 1:]):
            out += "/"
            if segs[i + 1][0] != "one":
                break
        else:
            break
    return out


# ---------------------------------------------------------------------------
# scenario, state


class Scenario:
    """Assumptions under which the executor runs.

    bind(text) -> value or None : replaces a root attribute chain (by its normalised text)
    seqs   {symbol: segments}   : symbolic sequences
    cenv   {symbol: value}      : concrete values of symbols, used for constant folding only
    slash  {symbol}             : symbols standing for an arbitrary string containing "/"
    tainted {symbol}            : symbols whose *uninterpreted* use makes a state uncertain
    contain {'lex': v, 'res': v}: truth of "result lies inside the root" (lexically / after resolve()) under the scenario
    """

    def __init__(self, name, bind=None, seqs=None, cenv=None, slash=(), tainted=(), contain=None, taint_mutated=False, taint_through_calls=False, describe=None,
                 effects=None, fail=None):
        self.name = name
        # effects {(function qn, CFG node id)}: statements that touch the outside world; a state that has completed one
        # carries the flag "touched".  fail {(function qn, CFG node id): exception class name}: such a statement fails
        # with that exception -- instead of having its effect -- when it is the first effect on the path (the state is
        # not "touched" and not already on an exceptional path); the state is then flagged "failed:<qn>:<node id>".
        self.effects = effects
        self.fail = fail or {}
        self.bind = bind or (lambda text: None)
        self.seqs = dict(seqs or {})
        self.cenv = dict(cenv or {})
        self.slash = set(slash)
        self.tainted = set(tainted)
        self.contain = contain
        self.taint_mutated = taint_mutated
        self.taint_through_calls = taint_through_calls
        self.describe = describe or name


class St:
    __slots__ = ("env", "dec", "flags", "iters", "_key")

    def __init__(self, env=None, dec=None, flags=frozenset(), iters=None):
        self.env = env if env is not None else {}
        self.dec = dec if dec is not None else {}
        self.flags = flags
        self.iters = iters if iters is not None else {}
        self._key = None

    def key(self):
        if self._key is None:
            self._key = (tuple(sorted((k, T(v)) for k, v in self.env.items())), tuple(sorted(self.dec.items())), self.flags,
                         tuple(sorted(self.iters.items())))
        return self._key

    def bind(self, name, val):
        env = dict(self.env)
        env[name] = val
        return St(env, self.dec, self.flags, self.iters)

    def unbind(self, name):
        if name not in self.env:
            return self
        env = dict(self.env)
        del env[name]
        return St(env, self.dec, self.flags, self.iters)

    def decide(self, key, val):
        dec = dict(self.dec)
        dec[key] = val
        return St(self.env, dec, self.flags, self.iters)

    def flag(self, *fs):
        return St(self.env, self.dec, self.flags | frozenset(fs), self.iters)

    def with_iters(self, iters):
        return St(self.env, self.dec, self.flags, iters)

    def with_env(self, env):
        return St(env, self.dec, self.flags, self.iters)

    def uncertain(self):
        return [f[10:] for f in self.flags if f.startswith("uncertain:")]

    def describe(self, limit=6):
        ds = ["%s%s" % ("" if v else "not ", k) for k, v in sorted(self.dec.items())]
        return ", ".join(ds[:limit]) + (" ..." if len(ds) > limit else "") if ds else "<no decision>"


RAISE = N("$raise")

PURE_FUNCS = {"len", "bool", "str", "int", "tuple", "list", "set", "frozenset", "sorted", "reversed", "any", "all", "enumerate", "zip", "range",
              "min", "max", "sum", "isinstance", "repr", "iter", "map", "filter", "abs", "bytes", "type", "callable", "hasattr", "getattr"}
PURE_METHODS = _STR_METHODS | {"join", "is_absolute", "is_relative_to", "relative_to", "resolve", "absolute", "expanduser", "joinpath",
                               "with_name", "with_suffix", "with_stem", "encode", "decode", "isdisjoint", "intersection", "issubset",
                               "issuperset", "union", "difference", "as_posix", "format", "hex", "bit_length", "is_request",
                               "is_response", "is_successful", "is_signalling"}
PURE_CHAINS = {"os.path.isabs", "posixpath.isabs", "os.path.join", "posixpath.join", "os.path.commonpath", "posixpath.commonpath",
               "os.path.normpath", "posixpath.normpath", "os.path.abspath", "os.path.realpath", "os.fspath", "os.path.commonprefix",
               "Path", "pathlib.Path", "PurePath", "pathlib.PurePath", "PurePosixPath", "pathlib.PurePosixPath", "os.path.basename",
               "os.path.dirname", "posixpath.basename", "posixpath.dirname"}
PATH_WRAPPERS = {"Path", "pathlib.Path", "PurePath", "pathlib.PurePath", "PurePosixPath", "pathlib.PurePosixPath", "str", "os.fspath",
                 "os.path.abspath", "os.path.realpath", "os.path.normpath"}
MUTATORS = {"append", "extend", "add", "update", "insert", "remove", "pop", "clear", "setdefault", "discard", "sort", "reverse", "popitem",
            "appendleft", "popleft", "__setitem__", "__delitem__"}
BOOL_CALLS = {"bool", "isinstance", "any", "all", "callable", "hasattr"}
BOOL_METHODS = {"startswith", "endswith", "isalnum", "isalpha", "isdigit", "isidentifier", "isprintable", "isspace", "is_absolute",
                "is_relative_to", "isdisjoint", "issubset", "issuperset", "exists", "is_dir", "is_file"}


def is_boolean_typed(e):
    if isinstance(e, ast.Constant):
        return isinstance(e.value, bool)
    if isinstance(e, ast.Compare):
        return True
    if isinstance(e, ast.UnaryOp) and isinstance(e.op, ast.Not):
        return True
    if isinstance(e, ast.BoolOp):
        return all(is_boolean_typed(v) for v in e.values)
    if isinstance(e, ast.IfExp):
        return is_boolean_typed(e.body) and is_boolean_typed(e.orelse)
    if isinstance(e, ast.Call):
        if isinstance(e.func, ast.Name) and e.func.id in BOOL_CALLS:
            return True
        if isinstance(e.func, ast.Attribute) and e.func.attr in BOOL_METHODS:
            return True
    return False


def distribute(e):
    """A comparison one of whose operands is a choice between values, rewritten as the choice between the
    comparisons: `(a if t else b) OP c` is `(a OP c) if t else (b OP c)`; `(a or b) OP c` is `(a OP c) if a else
    (b OP c)`; `(a and b) OP c` is `(b OP c) if a else (a OP c)`.  (Values are side-effect free syntax trees, so
    mentioning `a` twice is harmless.)  None when there is nothing to distribute."""
    if not (isinstance(e, ast.Compare) and len(e.ops) == 1):
        return None
    l, r = e.left, e.comparators[0]
    for left_side, x in ((True, l), (False, r)):
        mk = (lambda v: ast.Compare(left=v, ops=list(e.ops), comparators=[r])) if left_side else \
             (lambda v: ast.Compare(left=l, ops=list(e.ops), comparators=[v]))
        if isinstance(x, ast.IfExp):
            return ast.IfExp(test=x.test, body=mk(x.body), orelse=mk(x.orelse))
        if isinstance(x, ast.BoolOp) and len(x.values) >= 2 and not is_boolean_typed(x):
            first = x.values[0]
            rest = x.values[1] if len(x.values) == 2 else ast.BoolOp(op=x.op, values=list(x.values[1:]))
            if isinstance(x.op, ast.Or):
                return ast.IfExp(test=first, body=mk(first), orelse=mk(rest))
            return ast.IfExp(test=first, body=mk(rest), orelse=mk(first))
    return None


_NORMALIZER = norm.Normalizer()


def akey(e):
    """(decision key, polarity) of an atomic condition; orderings and equalities are keyed by their polynomial
    normal form so that `a > b`, `b < a`, `not a <= b`, `a >= b + 1` are one atom."""
    pol = True
    while isinstance(e, ast.UnaryOp) and isinstance(e.op, ast.Not):
        e = e.operand
        pol = not pol
    if isinstance(e, ast.Compare) and len(e.ops) == 1:
        op = e.ops[0]
        if isinstance(op, (ast.Is, ast.IsNot)):
            e = ast.Compare(left=e.left, ops=[ast.Eq() if isinstance(op, ast.Is) else ast.NotEq()], comparators=e.comparators)
            op = e.ops[0]
        if isinstance(op, (ast.Lt, ast.LtE, ast.Gt, ast.GtE, ast.Eq, ast.NotEq)):
            try:
                c = _NORMALIZER.cmp(e)
                if c[0] == "lt":
                    alt = _NORMALIZER.negate(c)
                    a, b = repr(c[1]), repr(alt[1])
                    if a <= b:
                        return "lt0:" + a, pol
                    return "lt0:" + b, not pol
                if c[0] in ("eq", "ne") and len(c) == 2:
                    return "eq0:" + repr(c[1]), pol == (c[0] == "eq")
            except (norm.NormError, AnalysisError, KeyError, TypeError):
                pass
    k, p = atom_key(e)
    return k, pol == p


# ---------------------------------------------------------------------------
# the executor


class Frame:
    def __init__(self, fi, depth, stack, cfg):
        self.fi = fi
        self.depth = depth
        self.stack = stack  # tuple of (caller qn, id(call ast)) pairs
        self.cfg = cfg
        self.nid = 0
        self.k = 0
        self.volatile = _volatile_chains(fi.node)
        self.locals = _local_names(fi.node)

    def marker(self, kind):
        self.k += 1
        return "$%s@%s:%d:%d" % (kind, self.fi.short, self.nid, self.k)


def _base_chain(t):
    while isinstance(t, ast.Subscript):
        t = t.value
    return chain(t)


def _volatile_chains(fnode):
    """attribute chains (and subscripted chains) written or mutated in the function: re-reading them gives a new value"""
    out = set()
    for n in ast.walk(fnode):
        if isinstance(n, (ast.Attribute, ast.Subscript)) and isinstance(getattr(n, "ctx", None), (ast.Store, ast.Del)):
            c = _base_chain(n)
            if c and "." in c:
                out.add(c)
        elif isinstance(n, ast.Call) and isinstance(n.func, ast.Attribute) and n.func.attr in MUTATORS:
            c = _base_chain(n.func.value)
            if c and "." in c:
                out.add(c)
    return out


def _local_names(fnode):
    out = set()
    if not isinstance(fnode, ast.Lambda):
        pass
    a = fnode.args
    for p in a.posonlyargs + a.args + a.kwonlyargs:
        out.add(p.arg)
    if a.vararg:
        out.add(a.vararg.arg)
    if a.kwarg:
        out.add(a.kwarg.arg)
    for n in ast.walk(fnode):
        if isinstance(n, ast.Name) and isinstance(n.ctx, (ast.Store, ast.Del)):
            out.add(n.id)
        elif isinstance(n, (ast.FunctionDef, ast.AsyncFunctionDef, ast.ClassDef)) and n is not fnode:
            out.add(n.name)
        elif isinstance(n, ast.ExceptHandler) and n.name:
            out.add(n.name)
    return out


def _module_bindings(m, name):
    """value expressions of every binding of `name` at the top level of module m (inside if/try/for/with/while
    blocks too, not inside functions or classes); None stands for a binding that is not a plain `name = value`"""
    cached = getattr(m, "_c19_bindings", None)
    if cached is None:
        cached = {}

        def add(n, v):
            cached.setdefault(n, []).append(v)

        def targets(t, v):
            if isinstance(t, ast.Name):
                add(t.id, v)
            elif isinstance(t, (ast.Tuple, ast.List)):
                for x in t.elts:
                    targets(x.value if isinstance(x, ast.Starred) else x, None)

        def scan(body):
            for stn in body:
                if isinstance(stn, ast.Assign):
                    for t in stn.targets:
                        targets(t, stn.value)
                elif isinstance(stn, ast.AnnAssign):
                    if stn.value is not None:
                        targets(stn.target, stn.value)
                elif isinstance(stn, ast.AugAssign):
                    targets(stn.target, None)
                elif isinstance(stn, (ast.FunctionDef, ast.AsyncFunctionDef, ast.ClassDef)):
                    add(stn.name, None)
                elif isinstance(stn, (ast.Import, ast.ImportFrom)):
                    for a in stn.names:
                        add((a.asname or a.name).split(".")[0], None)
                elif isinstance(stn, ast.Delete):
                    for t in stn.targets:
                        targets(t, None)
                else:
                    if isinstance(stn, (ast.For, ast.AsyncFor)):
                        targets(stn.target, None)
                    if isinstance(stn, (ast.With, ast.AsyncWith)):
                        for it in stn.items:
                            if it.optional_vars is not None:
                                targets(it.optional_vars, None)
                    for n in ast.walk(stn) if isinstance(stn, ast.Expr) else ():
                        if isinstance(n, ast.NamedExpr):
                            targets(n.target, None)
                    for sub in ("body", "orelse", "finalbody"):
                        scan(getattr(stn, sub, None) or [])
                    for h in getattr(stn, "handlers", None) or []:
                        if h.name:
                            add(h.name, None)
                        scan(h.body)
                    for c in getattr(stn, "cases", None) or []:
                        scan(c.body)

        scan(m.tree.body)
        try:
            m._c19_bindings = cached
        except Exception:
            pass
    return cached.get(name, [])


def _literal(v):
    """value of a literal expression (numbers, strings, bytes, None, booleans, tuples of these); ValueError otherwise"""
    if isinstance(v, ast.Constant) and v.value is not Ellipsis:
        return v.value
    if isinstance(v, ast.UnaryOp) and isinstance(v.op, (ast.USub, ast.UAdd)) and isinstance(v.operand, ast.Constant) \
            and isinstance(v.operand.value, (int, float)) and not isinstance(v.operand.value, bool):
        return -v.operand.value if isinstance(v.op, ast.USub) else v.operand.value
    if isinstance(v, ast.Tuple):
        return tuple(_literal(x) for x in v.elts)
    raise ValueError("not a literal")


class SX:
    MAX_STATES = 60000
    MAX_VALUE_SIZE = 160

    def __init__(self, prog, owner, scenario=None, max_depth=4):
        self.prog = prog
        self.owner = owner  # ClassInfo whose methods may be stepped into
        self.sc = scenario or Scenario("unconstrained")
        self.max_depth = max_depth
        self.visits = {}  # (func qn, node id) -> [(state, depth, stack)]
        self.inlined_sites = set()  # id(call ast) of call sites stepped into
        self.refused_sites = set()  # id(call ast) of call sites the executor could not step into (at least once)
        self.class_volatile = self._class_volatile()
        self.nstates = 0
        self._nt = {}
        self._named = {}
        self._shadow = None
        self.refused_funcs = set()  # qualified names of functions a call to which could not be stepped into
        self.wrapped = {}  # entry function qn -> qn of the wrapper its decorators put in its place

    # -- class facts -------------------------------------------------------
    def _class_volatile(self):
        out = set()
        for name, m in self.owner.methods.items():
            if name == "__init__":
                continue
            for c in _volatile_chains(m.node):
                out.add(c)
        return out

    def class_of(self, fexpr, module):
        """qualified name of the class a (symbolic) function expression denotes, else None"""
        c = chain(fexpr)
        if not c:
            return None
        try:
            q = self.prog.resolve_in_module(module, c)
        except Exception:
            return None
        return q if q in self.prog.classes else None

    def nt_fields(self, qn):
        """field names of a namedtuple class defined in the package, else None"""
        if qn not in self._nt:
            res = None
            ci = self.prog.classes.get(qn)
            if ci is not None:
                for b in ci.node.bases:
                    if isinstance(b, ast.Call) and (chain(b.func) or "").split(".")[-1] == "namedtuple" and len(b.args) >= 2:
                        f = b.args[1]
                        if isinstance(f, (ast.List, ast.Tuple)) and all(isinstance(x, ast.Constant) and isinstance(x.value, str) for x in f.elts):
                            res = [x.value for x in f.elts]
                        elif isinstance(f, ast.Constant) and isinstance(f.value, str):
                            res = f.value.replace(",", " ").split()
                if res is None and any((chain(b) or "").split(".")[-1] == "NamedTuple" for b in ci.node.bases):
                    res = [st.target.id for st in ci.node.body if isinstance(st, ast.AnnAssign) and isinstance(st.target, ast.Name)]
            self._nt[qn] = res
        return self._nt[qn]

    def isinstance_tv(self, v, cexpr):
        """isinstance(v, cexpr) for an instance whose class the executor knows (constructed in the code under
        analysis, or the exception a failing effect raises): True / False / None"""
        from ..model import BUILTIN_EXC
        p = opaque_parts(v)
        if p is None:
            return None
        if getattr(v, "_ctor", False) and getattr(v, "_cls", None):
            start = v._cls
        elif v.func.id == "$exc@fail" and chain(p[0]) in BUILTIN_EXC:
            start = chain(p[0])
        else:
            return None
        mro = self.prog.mro(start)
        complete = all(q in self.prog.classes or q in BUILTIN_EXC or q == "object" for q in mro)
        names = {q.split(".")[-1] for q in mro} | {"object"}
        res = []
        for c in (cexpr.elts if isinstance(cexpr, ast.Tuple) else [cexpr]):
            ch = chain(c)
            if not ch or ch.split(".")[0] in self._shadowable():
                return None
            last = _EXC_ALIASES.get(ch.split(".")[-1], ch.split(".")[-1])
            res.append(True if last in names else (False if complete else None))
        if any(r is True for r in res):
            return True
        return False if all(r is False for r in res) else None

    def nt_candidates(self, names):
        """namedtuple classes of the package that have all the given field names"""
        out = []
        for qn in self.prog.classes:
            f = self.nt_fields(qn)
            if f and set(names) <= set(f):
                out.append(qn)
        return out

    def replace_parts(self, v):
        """(base value, {field: new value}) when v is `base._replace(field=value, ...)` on a value of unknown class"""
        p = opaque_parts(v)
        if p is None or p[1] or not p[2] or not isinstance(p[0], ast.Attribute) or p[0].attr != "_replace" or any(k.arg is None for k in p[2]):
            return None
        return p[0].value, {k.arg: k.value for k in p[2]}

    def instance_truthy(self, qn):
        """instances of the class are always truthy: no __bool__/__len__ anywhere in a fully known ancestry"""
        from ..model import BUILTIN_EXC
        for q in self.prog.mro(qn):
            ci = self.prog.classes.get(q)
            if ci is None:
                if q in ("object",) or q in BUILTIN_EXC:
                    # the builtin exception classes define neither __bool__ nor __len__
                    continue
                return False
            if "__bool__" in ci.methods or "__len__" in ci.methods:
                return False
            if self.nt_fields(q) is not None:
                return False
        return True

    # -- named constants -------------------------------------------------------
    # A helper may hand its verdict back as a *value* the caller then dispatches on -- `return codes.FORBIDDEN` /
    # `return None`, an exception class, a module-level sentinel -- and the caller tests it by identity, equality,
    # membership or truth (`if refusal is not None`, `if code in (FORBIDDEN, BAD_REQUEST)`, `if verdict is _PROCEED`).
    # The executor keeps one state per path, so the value a local holds on the path on which the scenario root was
    # tested is known; what is needed on top is the *relation between two program-level constants*.  It is derived
    # from their definitions only (never from their names):
    #   ('class', qn) / ('func', qn)      a class / function object of the package
    #   ('sentinel', qn)                  a module-level name bound once to `object()`
    #   ('lit', v)                        a module-level name bound once to a literal
    #   ('attr', class qn, name, v)       a class-level attribute bound to the literal v: the literal itself in a plain
    #                                     class, the member wrapping it in an enumeration -- the facts used below hold
    #                                     for both readings
    def _shadowable(self):
        """names that are local to some function of the owner's module: a chain starting with one of them is not
        (certainly) a reference to a module-level binding"""
        if self._shadow is None:
            out = set()
            for f in self.prog.funcs.values():
                if f.module is self.owner.module:
                    out |= _local_names(f.node)
            self._shadow = out
        return self._shadow

    def named(self, e):
        """identity of the program-level constant the value `e` refers to, else None"""
        if not isinstance(e, (ast.Name, ast.Attribute)):
            return None
        c = chain(e)
        if not c or c.startswith("$"):
            return None
        if c not in self._named:
            self._named[c] = None
            if c.split(".")[0] not in self._shadowable():
                try:
                    self._named[c] = self._resolve_const(self.owner.module, c, 0)
                except (AnalysisError, KeyError, ValueError, RecursionError):
                    self._named[c] = None
        return self._named[c]

    def _resolve_const(self, m, dotted, depth):
        prog = self.prog
        if depth > 6:
            return None
        parts = dotted.split(".")
        head = parts[0]
        if head in m.imports:
            q = ".".join([m.imports[head]] + parts[1:])
        elif (m.name + "." + head) in prog.classes or (m.name + "." + head) in prog.funcs or _module_bindings(m, head):
            q = m.name + "." + dotted
        else:
            return None  # a builtin or a name the checker cannot see
        q = prog.canonical(q)
        if q in prog.classes:
            return ("class", q)
        if q in prog.funcs:
            return ("func", q)
        parts = q.split(".")
        for i in range(len(parts) - 1, 0, -1):
            pre, rest = ".".join(parts[:i]), parts[i:]
            if pre in prog.classes:
                if len(rest) != 1:
                    return None
                v, ci = prog.class_attr(pre, rest[0])
                if v is None or any(rest[0] in prog.classes[k].methods for k in prog.mro(pre) if k in prog.classes):
                    return None
                try:
                    return ("attr", ci.qn, rest[0], _literal(v))
                except ValueError:
                    return None
            if pre in prog.modules:
                m2 = prog.modules[pre]
                binds = _module_bindings(m2, rest[0])
                if len(binds) != 1 or binds[0] is None:
                    return None
                v = binds[0]
                if isinstance(v, (ast.Name, ast.Attribute)) and chain(v):
                    return self._resolve_const(m2, ".".join([chain(v)] + rest[1:]), depth + 1)
                if len(rest) != 1:
                    return None
                if isinstance(v, ast.Call) and chain(v.func) == "object" and not v.args and not v.keywords and "object" not in m2.imports \
                        and not _module_bindings(m2, "object"):
                    return ("sentinel", q)
                try:
                    return ("lit", _literal(v))
                except ValueError:
                    return None
        return None

    def const_of(self, e):
        """classification of a value for const_relation: a named constant, a literal, or None"""
        if isinstance(e, ast.Constant):
            return None if e.value is Ellipsis else ("lit", e.value)
        return self.named(e)

    def const_relation(self, a, b):
        """(equal, identical): each True / False / None (not determined) for two values.

        Sound for both readings of a class-level literal attribute (plain attribute: the literal; enumeration
        member: an object wrapping it, equal to another member of the same enumeration iff their values are equal,
        aliases being the same member): different literals -> neither equal nor identical; the same attribute ->
        identical; equal literals under different names -> equal in both readings, identity left open.  Classes,
        functions and `object()` sentinels are equal only to themselves."""
        ca, cb = self.const_of(a), self.const_of(b)
        if ca is None or cb is None:
            return None, None
        if ca[0] == "lit" and cb[0] == "lit":
            try:
                eq = bool(ca[1] == cb[1])
            except Exception:
                return None, None
            single = lambda v: v is None or isinstance(v, bool)
            if single(ca[1]) or single(cb[1]):
                return eq, (ca[1] is cb[1])
            return eq, (False if not eq else None)
        objs = ("class", "func", "sentinel")
        if ca[0] in objs or cb[0] in objs:
            same = ca == cb
            return same, same
        # at least one class-level attribute, the other one an attribute or a literal
        va, vb = ca[-1], cb[-1]
        if ca[0] == "attr" and cb[0] == "attr" and ca[1:3] == cb[1:3]:
            return True, True
        try:
            differ = type(va) is not type(vb) and not (isinstance(va, (int, float)) and isinstance(vb, (int, float))) or bool(va != vb)
        except Exception:
            return None, None
        if differ:
            return False, False
        if ca[0] == "attr" and cb[0] == "attr" and ca[1] == cb[1]:
            return True, None  # two names for one value in one class
        return None, None

    def const_truth(self, e):
        """truth of a named constant, or None"""
        nm = self.named(e)
        if nm is None:
            return None
        if nm[0] in ("class", "func", "sentinel"):
            return True
        if nm[0] == "lit":
            return bool(nm[1])
        # a class-level literal: truthy as a plain value; as an enumeration member it is truthy by default and by its
        # value when the enumeration derives from int/str -- unless the class says otherwise
        known = True
        for q in self.prog.mro(nm[1]):
            ci = self.prog.classes.get(q)
            if ci is None:
                continue
            if "__bool__" in ci.methods or "__len__" in ci.methods:
                known = False
        return True if (known and nm[3]) else None

    # -- taint ---------------------------------------------------------------
    def tainted(self, e):
        """does the value depend on a scenario root in a way the executor did not interpret?  Results of opaque
        calls are new values obtained from the environment; they carry the taint of their arguments only when the
        scenario says so (C19.b: an unknown function applied to the path may be its validator)."""
        todo = [e]
        while todo:
            n = todo.pop()
            if getattr(n, "_taint", False):
                return True
            if isinstance(n, ast.Name) and n.id in self.sc.tainted:
                return True
            if not self.sc.taint_through_calls and marker_of(n) is not None:
                continue
            todo.extend(ast.iter_child_nodes(n))
        return False

    # -- symbolic sequences ----------------------------------------------
    def seq_of(self, e, ordered=True):
        if isinstance(e, ast.Name) and e.id in self.sc.seqs:
            return list(self.sc.seqs[e.id])
        if isinstance(e, ast.Constant) and isinstance(e.value, tuple):
            return [("one", value_to_ast(x, getattr(e, "_taint", False))) for x in e.value]
        if isinstance(e, (ast.Tuple, ast.List)) and not any(isinstance(x, ast.Starred) for x in e.elts):
            return [("one", x) for x in e.elts]
        if isinstance(e, ast.Subscript) and isinstance(e.slice, ast.Slice) and e.slice.step is None:
            base = self.seq_of(e.value, ordered)
            if base is None:
                return None
            try:
                lo = None if e.slice.lower is None else ceval(e.slice.lower)
                hi = None if e.slice.upper is None else ceval(e.slice.upper)
            except (Unk, CRaise):
                return None
            if any(x is not None and (isinstance(x, bool) or not isinstance(x, int)) for x in (lo, hi)):
                return None
            return segs_slice(base, lo, hi)
        if isinstance(e, ast.Call) and isinstance(e.func, ast.Name) and len(e.args) == 1 and not e.keywords:
            if e.func.id in ("list", "tuple", "iter"):
                return self.seq_of(e.args[0], ordered)
            if not ordered and e.func.id in ("set", "frozenset", "sorted", "reversed"):
                return self.seq_of(e.args[0], ordered)
        return None

    def elem_value(self, x):
        """concrete string value of a sequence element, else None"""
        try:
            v = ceval(x, self.sc.cenv)
        except (Unk, CRaise):
            return None
        return v if isinstance(v, str) else None

    def linform(self, e):
        if isinstance(e, ast.Constant) and isinstance(e.value, int) and not isinstance(e.value, bool):
            return {1: e.value}
        if isinstance(e, ast.Name) and (e.id.startswith("$n") or e.id.startswith("$t") or e.id.startswith("$s")):
            return {1: 0, e.id: 1}
        if isinstance(e, ast.UnaryOp) and isinstance(e.op, ast.USub):
            l = self.linform(e.operand)
            return None if l is None else lin_add({1: 0}, l, -1)
        if isinstance(e, ast.BinOp):
            l, r = self.linform(e.left), self.linform(e.right)
            if l is None or r is None:
                return None
            if isinstance(e.op, ast.Add):
                return lin_add(l, r)
            if isinstance(e.op, ast.Sub):
                return lin_add(l, r, -1)
            if isinstance(e.op, ast.Mult):
                for a, b in ((l, r), (r, l)):
                    if set(a) <= {1}:
                        return {s: c * a.get(1, 0) for s, c in b.items()}
            return None
        if isinstance(e, ast.Call) and isinstance(e.func, ast.Name) and e.func.id == "len" and len(e.args) == 1 and not e.keywords:
            segs = self.seq_of(e.args[0])
            if segs is not None:
                return segs_len(segs)
            a = e.args[0]
            if isinstance(a, ast.Name) and a.id in self.sc.slash:
                return {1: 1, "$slen_" + a.id[1:]: 1}
            return None
        if isinstance(e, ast.Call) and isinstance(e.func, ast.Attribute) and isinstance(e.func.value, ast.Name) and e.func.value.id in self.sc.slash \
                and len(e.args) == 1 and isinstance(e.args[0], ast.Constant) and e.args[0].value == "/" and not e.keywords:
            if e.func.attr == "count":
                return {1: 1, "$scnt_" + e.func.value.id[1:]: 1}
            if e.func.attr in ("find", "index", "rfind", "rindex"):
                return {1: 0, "$sfind_" + e.func.value.id[1:]: 1}
        return None

    # -- path shapes (C19.b vocabulary) -------------------------------------
    def strip_wrappers(self, e):
        """peel str()/Path()/os.fspath()/.resolve()/.absolute(); -> (core, resolved?)"""
        resolved = False
        for _ in range(8):
            if isinstance(e, ast.Call) and chain(e.func) in PATH_WRAPPERS and len(e.args) == 1 and not e.keywords:
                resolved = resolved or chain(e.func) == "os.path.realpath"
                e = e.args[0]
            elif isinstance(e, ast.Call) and isinstance(e.func, ast.Attribute) and e.func.attr in ("resolve", "absolute", "expanduser") and not e.args:
                resolved = resolved or e.func.attr == "resolve"
                e = e.func.value
            else:
                break
        return e, resolved

    def is_root(self, e):
        core, res = self.strip_wrappers(e)
        c = chain(core)
        return (c is not None and c.count(".") == 1 and c.endswith(".root")), res

    def joined_seq(self, e):
        """segments S when e is "/".join(S) (possibly wrapped in str()), else None"""
        core, _ = self.strip_wrappers(e)
        if isinstance(core, ast.Call) and isinstance(core.func, ast.Attribute) and core.func.attr == "join" and len(core.args) == 1 \
                and isinstance(core.func.value, ast.Constant) and core.func.value.value == "/":
            return self.seq_of(core.args[0])
        return None

    def is_result(self, e):
        """(is <root> / "/".join(<the whole scenario sequence>) or <root>.joinpath(*seq), resolved?)"""
        core, res = self.strip_wrappers(e)
        ctors = PATH_WRAPPERS - {"str", "os.fspath", "os.path.abspath", "os.path.realpath", "os.path.normpath"}

        def tail(args):
            """the arguments that follow the root are the whole sequence: `*seq` or "/".join(seq)"""
            if len(args) != 1:
                return False
            if isinstance(args[0], ast.Starred):
                return self._whole(self.seq_of(args[0].value))
            return self._whole(self.joined_seq(args[0]))

        if isinstance(core, ast.BinOp) and isinstance(core.op, ast.Div):
            r, res2 = self.is_root(core.left)
            if r and self._whole(self.joined_seq(core.right)):
                return True, res or False
            if r and isinstance(core.right, ast.Call) and chain(core.right.func) in ctors and not core.right.keywords and tail(core.right.args):
                return True, res or False  # root / Path(*seq)
        if isinstance(core, ast.Call) and isinstance(core.func, ast.Attribute) and core.func.attr == "joinpath" and not core.keywords:
            r, _ = self.is_root(core.func.value)
            if r and tail(core.args):
                return True, res
        if isinstance(core, ast.Call) and chain(core.func) in ctors and not core.keywords and len(core.args) == 2:
            r, _ = self.is_root(core.args[0])
            if r and tail(core.args[1:]):
                return True, res  # Path(root, *seq)
        return False, False

    def _whole(self, segs):
        if segs is None:
            return False
        return any([(k, T(x) if k == "one" else x) for k, x in segs] == [(k, T(x) if k == "one" else x) for k, x in s] for s in self.sc.seqs.values())

    def containment(self, inner, outer):
        """scenario truth of "inner lies inside outer" when inner is the result and outer the root; (known?, value, legit)"""
        if self.sc.contain is None:
            return False, None
        isr, r1 = self.is_result(inner)
        isroot, r2 = self.is_root(outer)
        if not (isr and isroot):
            return False, None
        return True, self.sc.contain["res" if (r1 and r2) else "lex"]

    # -- three-valued truth ----------------------------------------------------
    def tv3(self, e, st):
        """(True/False/None, legit): truth of a symbolic value in a state.  legit=True means an undetermined
        value is genuinely free under the scenario (not a gap of the interpretation)."""
        if e is RAISE:
            return None, False
        if isinstance(e, ast.BoolOp):
            vals = [self.tv3(v, st) for v in e.values]
            legit = all(l for v, l in vals if v is None)
            if isinstance(e.op, ast.And):
                # short-circuit: operands after a definitely false one are not evaluated
                for v, l in vals:
                    if v is False:
                        return False, True
                    if v is None:
                        break
                return (True, True) if all(v is True for v, _ in vals) else (None, legit)
            for v, l in vals:
                if v is True:
                    return True, True
                if v is None:
                    break
            return (False, True) if all(v is False for v, _ in vals) else (None, legit)
        if isinstance(e, ast.UnaryOp) and isinstance(e.op, ast.Not):
            v, l = self.tv3(e.operand, st)
            return (None if v is None else not v), l
        if isinstance(e, ast.IfExp):
            t, l = self.tv3(e.test, st)
            if t is None:
                a, la = self.tv3(e.body, st)
                b, lb = self.tv3(e.orelse, st)
                return (a, True) if (a == b and a is not None) else (None, l and la and lb)
            return self.tv3(e.body if t else e.orelse, st)
        if isinstance(e, ast.Compare) and len(e.ops) > 1:
            left = e.left
            res, legit = True, True
            for op, right in zip(e.ops, e.comparators):
                v, l = self.tv3(ast.Compare(left=left, ops=[op], comparators=[right]), st)
                if v is False:
                    return False, True
                if v is None:
                    res, legit = None, legit and l
                left = right
            return res, legit
        d = distribute(e)
        if d is not None:
            return self.tv3(d, st)
        v, legit = self.oracle(e, st)
        if v is not None:
            return v, True
        k, pol = akey(e)
        if k in st.dec:
            return st.dec[k] == pol, True
        return None, legit

    def tv(self, e, st):
        return self.tv3(e, st)[0]

    def non_none(self, e):
        if isinstance(e, ast.Constant):
            return e.value is not None
        if isinstance(e, (ast.Tuple, ast.List, ast.Set, ast.Dict, ast.JoinedStr, ast.Compare, ast.ListComp, ast.SetComp, ast.DictComp, ast.GeneratorExp, ast.Lambda)):
            return True
        if isinstance(e, ast.UnaryOp) and isinstance(e.op, ast.Not):
            return True
        if isinstance(e, ast.Name) and (e.id.startswith("$lambda") or e.id.startswith("$def") or e.id in self.sc.seqs or e.id in self.sc.slash):
            return True
        p = opaque_parts(e)
        if p is not None and e.func.id.startswith("$call") and getattr(e, "_ctor", False):
            return True
        nm = self.named(e)
        if nm is not None and nm[-1] is not None:
            # a class, a function, a sentinel object, a non-None literal, or a class-level attribute bound to a
            # non-None literal (that literal, or the enumeration member made from it)
            return True
        return False

    def oracle(self, e, st):
        una = (None, not self.tainted(e))
        if isinstance(e, ast.Constant):
            return bool(e.value), True
        if self.sc.cenv:
            try:
                return bool(ceval(e, self.sc.cenv)), True
            except (Unk, CRaise):
                pass
        if isinstance(e, (ast.Tuple, ast.List, ast.Set)):
            if any(not isinstance(x, ast.Starred) for x in e.elts):
                return True, True
            return (False, True) if not e.elts else una
        if isinstance(e, ast.Dict):
            return (bool(e.keys), True) if all(k is not None for k in e.keys) else una
        if isinstance(e, ast.Lambda):
            return True, True
        if isinstance(e, ast.Name):
            if e.id in self.sc.slash or e.id.startswith("$lambda") or e.id.startswith("$def"):
                return True, True
            if e.id.startswith("$g"):
                return None, True
        if isinstance(e, (ast.Name, ast.Attribute)):
            t = self.const_truth(e)
            if t is not None:
                return t, True
        segs = self.seq_of(e) if isinstance(e, (ast.Name, ast.Subscript, ast.Call)) else None
        if segs is not None:
            if any(k == "one" for k, _ in segs):
                return True, True
            return (False, True) if not segs else (None, True)
        if marker_of(e) is not None:
            if getattr(e, "_truthy", False):
                return True, True
            return una
        if isinstance(e, (ast.ListComp, ast.SetComp)) and len(e.generators) == 1:
            # a filtered collection is non-empty iff some element passes the filter
            g = e.generators[0]
            pred = ast.GeneratorExp(elt=K(True), generators=[g])
            return self.anyall("any", pred, st)
        if isinstance(e, ast.Compare) and len(e.ops) == 1:
            op, l, r = e.ops[0], e.left, e.comparators[0]
            if isinstance(op, (ast.Is, ast.IsNot, ast.Eq, ast.NotEq)):
                for a, b in ((l, r), (r, l)):
                    if isinstance(a, ast.Constant) and a.value is None and self.non_none(b):
                        return isinstance(op, (ast.IsNot, ast.NotEq)), True
                eq, ident = self.const_relation(l, r)
                rel = ident if isinstance(op, (ast.Is, ast.IsNot)) else eq
                if rel is not None:
                    return rel == isinstance(op, (ast.Is, ast.Eq)), True
            if isinstance(op, (ast.Eq, ast.NotEq, ast.Lt, ast.LtE, ast.Gt, ast.GtE)):
                ll, lr = self.linform(l), self.linform(r)
                if ll is not None and lr is not None:
                    v = lin_decide(op, ll, lr)
                    return v, True
            if isinstance(op, (ast.In, ast.NotIn)):
                v, legit = self.member(l, r)
                if v is not None and isinstance(op, ast.NotIn):
                    v = not v
                return (v, legit) if (v is not None or legit) else una
            if isinstance(op, (ast.Eq, ast.NotEq)):
                v, legit = self.equal(l, r)
                if v is not None and isinstance(op, ast.NotEq):
                    v = not v
                return (v, legit) if (v is not None or legit) else una
            return una
        if isinstance(e, ast.BinOp) and isinstance(e.op, ast.BitAnd):
            # {consts} & set(seq): non-empty iff some constant is a member
            for a, b in ((e.left, e.right), (e.right, e.left)):
                try:
                    cs = ceval(a, self.sc.cenv)
                except (Unk, CRaise):
                    continue
                if isinstance(cs, (set, frozenset)) and self.seq_of(b, ordered=False) is not None:
                    res = [self.member(value_to_ast(c), b) for c in sorted(cs, key=repr)]
                    if any(v is True for v, _ in res):
                        return True, True
                    if all(v is False for v, _ in res):
                        return False, True
                    return None, all(lg for v, lg in res if v is None)
            return una
        if isinstance(e, ast.Call):
            fn = chain(e.func)
            if fn in ("any", "all") and len(e.args) == 1 and not e.keywords:
                return self.anyall(fn, e.args[0], st)
            if fn == "bool" and len(e.args) == 1 and not e.keywords:
                return self.tv3(e.args[0], st)
            if fn == "isinstance" and len(e.args) == 2 and not e.keywords:
                v = self.isinstance_tv(e.args[0], e.args[1])
                return (v, True) if v is not None else una
            if fn == "len" and len(e.args) == 1:
                lf = self.linform(e)
                if lf is not None:
                    return lin_decide(ast.NotEq(), lf, {1: 0}), True
                return self.tv3(e.args[0], st) if isinstance(e.args[0], (ast.ListComp, ast.SetComp)) else una
            if fn in ("os.path.isabs", "posixpath.isabs") and len(e.args) == 1:
                return self.prefix_test(e.args[0], "/")
            if isinstance(e.func, ast.Attribute):
                name, recv = e.func.attr, e.func.value
                if name == "is_absolute" and not e.args:
                    core, _ = self.strip_wrappers(recv)
                    return self.prefix_test(core, "/")
                if name == "startswith" and len(e.args) == 1 and isinstance(e.args[0], ast.Constant) and isinstance(e.args[0].value, str):
                    if isinstance(recv, ast.Name) and recv.id in self.sc.slash:
                        return None, True  # varies over the strings containing "/"
                    if isinstance(recv, ast.Name) and recv.id.startswith("$g"):
                        return None, True
                    return self.prefix_test(recv, e.args[0].value)
                if name == "is_relative_to" and len(e.args) == 1:
                    known, v = self.containment(recv, e.args[0])
                    if known:
                        return v, True
                    return una
                if name == "isdisjoint" and len(e.args) == 1:
                    v, lg = self.oracle(ast.BinOp(left=recv, op=ast.BitAnd(), right=ast.Call(func=N("set"), args=[e.args[0]], keywords=[])), st)
                    return (None if v is None else not v), lg
                if isinstance(recv, ast.Name) and recv.id in self.sc.slash:
                    if name in ("isalnum", "isalpha", "isdigit", "isidentifier", "isspace") and not e.args:
                        return False, True
                    if name in ("endswith",):
                        return None, True
                    if name in ("count", "find", "index"):
                        lf = self.linform(e)
                        if lf is not None and name == "count":
                            return True, True
                if isinstance(recv, ast.Name) and recv.id.startswith("$g"):
                    return None, True
            return una
        if isinstance(e, ast.Subscript):
            # J[0] / J[:1] handled through constant folding only when J is concrete
            return una
        return una

    def prefix_test(self, j, prefix):
        """truth of J.startswith(prefix) for J = "/".join(seq)"""
        segs = self.joined_seq(j)
        if segs is None:
            return None, not self.tainted(j)
        known = known_prefix(segs, self.elem_value)
        if len(known) >= len(prefix):
            return known.startswith(prefix), True
        if not prefix.startswith(known):
            return False, True
        if not segs and prefix:
            return False, True
        return None, True

    def _elem_vs_const(self, x, c):
        """does element x equal the concrete string c: (True/False/None, legit)"""
        v = self.elem_value(x)
        if v is not None:
            return v == c, True
        if isinstance(x, ast.Name) and x.id in self.sc.slash:
            return (False, True) if (not isinstance(c, str) or "/" not in c) else (None, True)
        if isinstance(x, ast.Name) and x.id.startswith("$g"):
            return None, True
        if isinstance(x, ast.Constant):
            return x.value == c, True
        return None, not self.tainted(x)

    def member(self, c, container):
        # a named constant looked up in a display of constants: `code in (FORBIDDEN, BAD_REQUEST)`, `in {A: .., B: ..}`
        elts = None
        if isinstance(container, (ast.Tuple, ast.List, ast.Set)) and not any(isinstance(x, ast.Starred) for x in container.elts):
            elts = container.elts
        elif isinstance(container, ast.Dict) and all(k is not None for k in container.keys):
            elts = container.keys
        elif isinstance(container, ast.Call) and chain(container.func) in ("frozenset", "set", "tuple", "list") and len(container.args) == 1 \
                and not container.keywords and isinstance(container.args[0], (ast.Tuple, ast.List, ast.Set)) \
                and not any(isinstance(x, ast.Starred) for x in container.args[0].elts):
            elts = container.args[0].elts
        if elts is not None and self.const_of(c) is not None:
            res = [self.const_relation(c, x)[0] for x in elts]
            if any(v is True for v in res):
                return True, True
            if all(v is False for v in res):
                return False, True
        # substring tests on a distinguished "contains a slash" string
        if isinstance(container, ast.Name) and container.id in self.sc.slash:
            cv = self.elem_value(c)
            if cv is None:
                return None, False
            if cv in ("/", ""):
                return True, True
            return None, True
        if isinstance(container, ast.Name) and container.id.startswith("$g"):
            return None, True
        segs = self.seq_of(container, ordered=False)
        if segs is None:
            # constant container, symbolic candidate
            try:
                cs = ceval(container, self.sc.cenv)
            except (Unk, CRaise):
                return None, False
            if isinstance(cs, (tuple, list, set, frozenset)):
                res = [self._elem_vs_const(c, x) for x in cs]
                if any(v is True for v, _ in res):
                    return True, True
                if all(v is False for v, _ in res):
                    return False, True
                return None, all(lg for v, lg in res if v is None)
            if isinstance(cs, str):
                cv = self.elem_value(c)
                if cv is not None:
                    return cv in cs, True
            return None, False
        try:
            cv = ceval(c, self.sc.cenv)
        except (Unk, CRaise):
            if isinstance(c, ast.Name) and (c.id in self.sc.slash or c.id.startswith("$g")):
                # symbolic candidate against a sequence: decided only when it is that very element
                if any(k == "one" and T(x) == T(c) for k, x in segs):
                    return True, True
                return None, True
            return None, False
        res = []
        for kind, x in segs:
            if kind == "many":
                res.append((None, True))
            else:
                res.append(self._elem_vs_const(x, cv))
        if any(v is True for v, _ in res):
            return True, True
        if all(v is False for v, _ in res):
            return False, True
        return None, all(lg for v, lg in res if v is None)

    def equal(self, l, r):
        for a, b in ((l, r), (r, l)):
            if isinstance(a, ast.Subscript) and isinstance(b, ast.Constant) and isinstance(b.value, str) and self.joined_seq(a.value) is not None:
                # the first character(s) of the joined string: J[0], J[:k]
                known = known_prefix(self.joined_seq(a.value), self.elem_value)
                sl = a.slice
                try:
                    if isinstance(sl, ast.Slice) and sl.lower is None and sl.step is None and sl.upper is not None:
                        n = ceval(sl.upper)
                        if isinstance(n, int) and 0 < n <= len(known):
                            return known[:n] == b.value, True
                    elif not isinstance(sl, ast.Slice) and ceval(sl) == 0 and known:
                        return known[0] == b.value, True
                except (Unk, CRaise):
                    pass
                return None, True
            if isinstance(a, ast.Name) and (a.id in self.sc.slash or a.id.startswith("$g")):
                try:
                    cv = ceval(b, self.sc.cenv)
                except (Unk, CRaise):
                    return None, a.id.startswith("$g")
                return self._elem_vs_const(a, cv)
            segs = self.seq_of(a) if isinstance(a, (ast.Name, ast.Subscript, ast.Call)) else None
            if segs is not None:
                try:
                    cv = ceval(b, self.sc.cenv)
                except (Unk, CRaise):
                    return None, False
                if not isinstance(cv, (tuple, list)):
                    return None, False
                if isinstance(cv, list) != isinstance(a, ast.List) and not isinstance(a, (ast.Name, ast.Subscript, ast.Call)):
                    return False, True
                ln = lin_decide(ast.Eq(), segs_len(segs), {1: len(cv)})
                if ln is False:
                    return False, True
                if all(k == "one" for k, _ in segs) and len(segs) == len(cv):
                    res = [self._elem_vs_const(x, c) for (_, x), c in zip(segs, cv)]
                    if any(v is False for v, _ in res):
                        return False, True
                    if all(v is True for v, _ in res):
                        return True, True
                    return None, all(lg for v, lg in res if v is None)
                # a definite leading/trailing element that differs decides the comparison
                if segs and segs[0][0] == "one" and cv:
                    v, _ = self._elem_vs_const(segs[0][1], cv[0])
                    if v is False:
                        return False, True
                if segs and segs[-1][0] == "one" and cv:
                    v, _ = self._elem_vs_const(segs[-1][1], cv[-1])
                    if v is False:
                        return False, True
                return None, True
        return None, False

    def anyall(self, fn, gen, st):
        """any(...)/all(...) over a (symbolic) sequence"""
        var = None
        conds = []
        if isinstance(gen, (ast.GeneratorExp, ast.ListComp, ast.SetComp)) and len(gen.generators) == 1 and not gen.generators[0].is_async:
            g = gen.generators[0]
            it, target, elt, conds = g.iter, g.target, gen.elt, list(g.ifs)
        elif isinstance(gen, ast.Call) and chain(gen.func) == "map" and len(gen.args) == 2 and not gen.keywords:
            it = gen.args[1]
            target = N("$mapvar")
            elt = ast.Call(func=gen.args[0], args=[N("$mapvar")], keywords=[])
        else:
            it, target, elt = gen, N("$elt"), N("$elt")
        enum = False
        start = 0
        if isinstance(it, ast.Call) and chain(it.func) == "enumerate" and 1 <= len(it.args) <= 2 and not it.keywords:
            if len(it.args) == 2:
                try:
                    start = ceval(it.args[1])
                except (Unk, CRaise):
                    return None, False
            it = it.args[0]
            enum = True
        segs = self.seq_of(it, ordered=enum)
        if segs is None:
            return None, not self.tainted(gen)
        if conds:
            c = conds[0] if len(conds) == 1 else ast.BoolOp(op=ast.And(), values=conds)
            elt = ast.BoolOp(op=ast.And(), values=[c, elt]) if fn == "any" else ast.BoolOp(op=ast.Or(), values=[ast.UnaryOp(op=ast.Not(), operand=c), elt])
        res = []
        for p, (kind, x) in enumerate(segs):
            el = x if kind == "one" else N("$g%s" % x)
            val = ast.Tuple(elts=[lin_to_ast(segs_index(segs, p, start)), el], ctx=ast.Load()) if enum else el
            mapping = {}
            if not _bind_sym(target, val, mapping):
                return None, False
            v, lg = self.sym_tv(subst(elt, mapping), st)
            res.append((kind, v, lg))
        decisive = True if fn == "any" else False
        if any(v is decisive and kind == "one" for kind, v, _ in res):
            return decisive, True
        if all(v is (not decisive) for _, v, _ in res):
            return (not decisive), True
        legit = all(lg or (v is decisive) for kind, v, lg in res if v is None or (v is decisive and kind == "many"))
        return None, legit

    def sym_tv(self, pred, st):
        fr = self.cur_fr
        vals = []
        saved = (fr.nid, fr.k)
        try:
            for s1, v in self.sym(pred, st, fr):
                vals.append(self.tv3(v, s1))
        finally:
            fr.nid, fr.k = saved
        if not vals:
            return None, False
        if all(v is True for v, _ in vals):
            return True, True
        if all(v is False for v, _ in vals):
            return False, True
        return None, all(lg for v, lg in vals if v is None)

    # -- branching -----------------------------------------------------------------
    def branch(self, e, st):
        """[(state, bool)]: the outcomes of testing the symbolic value e"""
        v, legit = self.tv3(e, st)
        if v is not None:
            return [(st, v)]
        if isinstance(e, ast.BoolOp):
            outs = []
            is_and = isinstance(e.op, ast.And)

            def rec(i, s):
                for s1, b in self.branch(e.values[i], s):
                    if i == len(e.values) - 1 or b != is_and:
                        outs.append((s1, b))
                    else:
                        rec(i + 1, s1)
            rec(0, st)
            return outs
        if isinstance(e, ast.UnaryOp) and isinstance(e.op, ast.Not):
            return [(s, not b) for s, b in self.branch(e.operand, st)]
        if isinstance(e, ast.IfExp):
            outs = []
            for s1, b in self.branch(e.test, st):
                outs.extend(self.branch(e.body if b else e.orelse, s1))
            return outs
        if isinstance(e, ast.Compare) and len(e.ops) > 1:
            parts = []
            left = e.left
            for op, right in zip(e.ops, e.comparators):
                parts.append(ast.Compare(left=left, ops=[op], comparators=[right]))
                left = right
            return self.branch(ast.BoolOp(op=ast.And(), values=parts), st)
        d = distribute(e)
        if d is not None:
            return self.branch(d, st)
        k, pol = akey(e)
        fl = () if legit else ("uncertain:" + T(e)[:90],)
        return [(st.decide(k, pol).flag(*fl), True), (st.decide(k, not pol).flag(*fl), False)]


def _bind_sym(target, val, mapping):
    if isinstance(target, ast.Name):
        mapping[target.id] = val
        return True
    if isinstance(target, (ast.Tuple, ast.List)) and isinstance(val, ast.Tuple) and len(val.elts) == len(target.elts):
        return all(_bind_sym(t, v, mapping) for t, v in zip(target.elts, val.elts))
    return False


class _Subst(ast.NodeTransformer):
    def __init__(self, mapping):
        self.mapping = mapping

    def visit_Name(self, n):
        if isinstance(n.ctx, ast.Load) and n.id in self.mapping:
            return self.mapping[n.id]
        return n

    def _comp(self, n):
        bound = set()
        for g in n.generators:
            for x in ast.walk(g.target):
                if isinstance(x, ast.Name):
                    bound.add(x.id)
        inner = {k: v for k, v in self.mapping.items() if k not in bound}
        if len(inner) == len(self.mapping):
            return self.generic_visit(n)
        # the first iterable is evaluated in the enclosing scope
        n2 = _Subst(inner).generic_visit(n)
        return n2

    visit_GeneratorExp = visit_ListComp = visit_SetComp = visit_DictComp = _comp

    def visit_Lambda(self, n):
        bound = {a.arg for a in n.args.posonlyargs + n.args.args + n.args.kwonlyargs}
        inner = {k: v for k, v in self.mapping.items() if k not in bound}
        return _Subst(inner).generic_visit(n)

    def generic_visit(self, node):
        # copy-on-write: never mutate shared trees
        new = None
        for field, old in ast.iter_fields(node):
            if isinstance(old, list):
                vals = []
                changed = False
                for x in old:
                    if isinstance(x, ast.AST):
                        y = self.visit(x)
                        changed = changed or y is not x
                        vals.append(y)
                    else:
                        vals.append(x)
                if changed:
                    if new is None:
                        new = _shallow(node)
                    setattr(new, field, vals)
            elif isinstance(old, ast.AST):
                y = self.visit(old)
                if y is not old:
                    if new is None:
                        new = _shallow(node)
                    setattr(new, field, y)
        return new if new is not None else node


def _shallow(node):
    new = type(node)()
    for f, v in ast.iter_fields(node):
        setattr(new, f, list(v) if isinstance(v, list) else v)
    for a in ("lineno", "col_offset", "end_lineno", "end_col_offset"):
        if hasattr(node, a):
            setattr(new, a, getattr(node, a))
    return new


def subst(e, mapping):
    if not mapping:
        return e
    return _Subst(mapping).visit(e)


# ---------------------------------------------------------------------------
# symbolic evaluation of expressions (methods of SX, attached below)


def _raised(vals):
    return any(v is RAISE for v in vals)


def _sx_raise_state(self, st, exc, implicit=False):
    s = st.bind("$exc", exc if isinstance(exc, ast.AST) else N(exc))
    return s.flag("via_exc") if implicit else s


def _sx_sym_list(self, es, st, fr):
    outs = [(st, [])]
    for e in es:
        nxt = []
        for s, vals in outs:
            if _raised(vals):
                nxt.append((s, vals))
                continue
            for s2, v in self.sym(e, s, fr):
                nxt.append((s2, vals + [v]))
        outs = nxt
    return outs


def _sx_fold(self, e, st):
    """constant-fold / simplify a freshly built value"""
    try:
        v = ceval(e, self.sc.cenv)
        return [(st, value_to_ast(v, taint=self.tainted(e)))]
    except Unk:
        pass
    except CRaise as r:
        return [(self.raise_state(st, r.args[0]), RAISE)]
    return [(st, self.simplify(e))]


def _sx_simplify(self, e):
    if isinstance(e, ast.Compare) and len(e.ops) == 1 and isinstance(e.ops[0], (ast.Is, ast.IsNot, ast.Eq, ast.NotEq)):
        for a, b in ((e.left, e.comparators[0]), (e.comparators[0], e.left)):
            if isinstance(a, ast.Constant) and isinstance(a.value, bool) and is_boolean_typed(b) and not isinstance(b, ast.Constant):
                positive = a.value == isinstance(e.ops[0], (ast.Is, ast.Eq))
                return b if positive else ast.UnaryOp(op=ast.Not(), operand=b)
    if isinstance(e, ast.Subscript) and not isinstance(e.slice, ast.Slice):
        segs = self.seq_of(e.value)
        if segs is not None:
            try:
                i = ceval(e.slice)
            except (Unk, CRaise):
                i = None
            if isinstance(i, int) and not isinstance(i, bool):
                if i >= 0 and len(segs) > i and all(k == "one" for k, _ in segs[: i + 1]):
                    return segs[i][1]
                if i < 0 and len(segs) >= -i and all(k == "one" for k, _ in segs[i:]):
                    return segs[i][1]
    if isinstance(e, ast.Subscript) and isinstance(e.value, ast.Dict) and not isinstance(e.slice, ast.Slice):
        found, v = self.table_lookup(e.value, e.slice)
        if found:
            return v
    if isinstance(e, ast.Attribute):
        rp = self.replace_parts(e.value)
        if rp is not None:
            # the namedtuple protocol: X._replace(f=v).f is v and X._replace(f=v).g is X.g for every other *field* g
            # (g is taken for a field only when every namedtuple class of the package that has the replaced fields
            # has it as a field too -- a property computed from the fields is left alone)
            base, new = rp
            if e.attr in new:
                return new[e.attr]
            cands = self.nt_candidates(new)
            if cands and all(e.attr in self.nt_fields(q) for q in cands):
                return self.simplify(ast.Attribute(value=base, attr=e.attr, ctx=ast.Load()))
        p = opaque_parts(e.value)
        if p is not None:
            fields = getattr(e.value, "_ntfields", None)
            if fields and e.attr in fields and not p[2]:
                i = fields.index(e.attr)
                if i < len(p[1]) and not any(isinstance(a, ast.Starred) for a in p[1]):
                    return p[1][i]
            if fields and e.attr in fields:
                for kw in p[2]:
                    if kw.arg == e.attr:
                        return kw.value
    return e


def _sx_module_const(self, name, fr):
    m = fr.fi.module
    found = None
    for stn in m.tree.body:
        if isinstance(stn, ast.Assign) and len(stn.targets) == 1 and isinstance(stn.targets[0], ast.Name) and stn.targets[0].id == name:
            if found is not None:
                return None
            found = stn.value
    if found is None:
        return None
    try:
        ast.literal_eval(found)
    except Exception:
        return self.module_table(name, found, m)
    return found


def _sx_module_table(self, name, value, m):
    """A module-level lookup table: a name bound exactly once, at the top level of the module, to a dict / tuple /
    list / set display whose keys and elements are literals or references to program-level constants, and which
    nothing in the module stores into or mutates.  Reading it gives the display (its elements are evaluated in the
    module's namespace, which is the namespace of every function the executor steps into)."""
    binds = _module_bindings(m, name)
    if len(binds) != 1 or binds[0] is not value:
        return None
    wrapped = value
    if isinstance(value, ast.Call) and chain(value.func) in ("dict", "frozenset", "tuple", "MappingProxyType", "types.MappingProxyType") \
            and len(value.args) == 1 and not value.keywords:
        value = value.args[0]
    if isinstance(value, ast.Dict):
        parts = list(value.keys) + list(value.values)
    elif isinstance(value, (ast.Tuple, ast.List, ast.Set)):
        parts = list(value.elts)
    else:
        return None
    ok = lambda x: x is not None and (isinstance(x, ast.Constant) or ((isinstance(x, (ast.Name, ast.Attribute)) and self.named(x) is not None))
                                      or (isinstance(x, ast.Tuple) and all(ok(y) for y in x.elts)))
    if not parts or not all(ok(x) for x in parts):
        return None
    for n in ast.walk(m.tree):
        if isinstance(n, (ast.Subscript, ast.Attribute)) and isinstance(getattr(n, "ctx", None), (ast.Store, ast.Del)) \
                and isinstance(n.value, ast.Name) and n.value.id == name:
            return None
        if isinstance(n, ast.Call) and isinstance(n.func, ast.Attribute) and n.func.attr in MUTATORS and isinstance(n.func.value, ast.Name) \
                and n.func.value.id == name:
            return None
        if isinstance(n, ast.AugAssign) and isinstance(n.target, ast.Name) and n.target.id == name:
            return None
        if isinstance(n, ast.Global) and name in n.names:
            return None
    return value if wrapped is value or isinstance(value, ast.Dict) else wrapped


def _sx_table_lookup(self, table, key):
    """value stored under `key` in a dict display: (found?, value) -- found is True (value is the entry), False (no
    key equals it) or None (not determined)"""
    if not isinstance(table, ast.Dict) or any(k is None for k in table.keys):
        return None, None
    rels = [self.const_relation(key, k)[0] for k in table.keys]
    hits = [i for i, r in enumerate(rels) if r is True]
    if hits and all(r is not None for r in rels[hits[-1] + 1:]):
        return True, table.values[hits[-1]]  # a later duplicate key wins
    if rels and all(r is False for r in rels):
        return False, None
    return None, None


def _sx_kill(self, st, marker):
    """forget what was known about an older value produced at the same program point"""
    hit_env = [k for k, v in st.env.items() if marker in T(v)]
    hit_dec = [k for k in st.dec if marker in k]
    if not hit_env and not hit_dec:
        return st
    env = dict(st.env)
    for k in hit_env:
        v = env[k]
        if marker.startswith("$g") and isinstance(v, (ast.List, ast.Set)):
            # a collection that holds elements of earlier iterations: they become anonymous free elements
            elts, have = [], set()
            for x in v.elts:
                if isinstance(x, ast.Name) and x.id == marker:
                    x = N(marker + "o")
                if marker in T(x) and not (isinstance(x, ast.Name) and x.id == marker + "o"):
                    elts = None
                    break
                if T(x) in have:
                    x = ast.Starred(value=N("$again"), ctx=ast.Load())
                    if T(x) in have:
                        continue
                have.add(T(x))
                elts.append(x)
            if elts is not None:
                env[k] = ast.List(elts=elts, ctx=ast.Load()) if isinstance(v, ast.List) else ast.Set(elts=elts)
                continue
        env[k] = N("$stale@" + k, taint=self.tainted(v))
    dec = {k: v for k, v in st.dec.items() if marker not in k}
    return St(env, dec, st.flags, st.iters)


def _sx_opaque(self, kind, fexpr, args, kws, st, fr, ctor=None):
    marker = fr.marker(kind)
    st = self.kill(st, marker)
    node = ast.Call(func=N(marker), args=[fexpr] + list(args), keywords=[ast.keyword(arg=k, value=v) for k, v in kws])
    if size_of(node) > self.MAX_VALUE_SIZE:
        t = self.tainted(node)
        node = ast.Call(func=N(marker), args=[fexpr], keywords=[])
        if t:
            node._taint = True
    if ctor is not None:
        node._ctor = True
        node._cls = ctor
        node._ntfields = self.nt_fields(ctor)
        node._truthy = self.instance_truthy(ctor)
    return st, node


def _sx_sym(self, e, st, fr):
    """[(state, value)]: value is a syntax tree over root symbols, or RAISE"""
    if e is None:
        return [(st, K(None))]
    if isinstance(e, ast.Constant):
        return [(st, e)]
    if marker_of(e) is not None:
        return [(st, e)]  # already symbolic
    if isinstance(e, ast.Name):
        if e.id in st.env:
            return [(st, st.env[e.id])]
        if e.id.startswith("$"):
            return [(st, e)]
        if e.id not in fr.locals:
            c = self.module_const(e.id, fr)
            if c is not None:
                return [(st, c)]
        return [(st, e)]
    if isinstance(e, ast.Attribute):
        outs = []
        for s1, v in self.sym(e.value, st, fr):
            if v is RAISE:
                outs.append((s1, v))
                continue
            node = ast.Attribute(value=v, attr=e.attr, ctx=ast.Load())
            c = chain(node)
            if c is not None:
                b = self.sc.bind(c)
                if b is not None:
                    outs.append((s1.flag("used:" + self.sc.name), b))
                    continue
            if isinstance(v, ast.Name) and v.id in self.self_names and e.attr in self.owner.methods:
                # reading a property of the class is calling its getter
                m = self.owner.methods[e.attr]
                if any((chain(d) or "").split(".")[-1] in ("property", "cached_property") for d in m.node.decorator_list):
                    r = self.inline(e, (m, v, True), [], [], s1, fr, False)
                    if r is not None:
                        outs.extend(r)
                        continue
                if any(c == vch or c.startswith(vch + ".") for vch in fr.volatile | self.class_volatile):
                    outs.append(self.opaque("read", node, [], [], s1, fr))
                    continue
            outs.append((s1, self.simplify(node)))
        return outs
    if isinstance(e, ast.Subscript):
        outs = []
        parts = [e.value] + ([e.slice.lower, e.slice.upper, e.slice.step] if isinstance(e.slice, ast.Slice) else [e.slice])
        for s1, vals in self.sym_list(parts, st, fr):
            if _raised(vals):
                outs.append((s1, RAISE))
                continue
            if isinstance(e.slice, ast.Slice):
                sl = ast.Slice(lower=None if e.slice.lower is None else vals[1], upper=None if e.slice.upper is None else vals[2],
                               step=None if e.slice.step is None else vals[3])
            else:
                sl = vals[1]
            node = ast.Subscript(value=vals[0], slice=sl, ctx=ast.Load())
            c = _base_chain(node)
            if c is not None and any(c == vch or c.startswith(vch + ".") for vch in fr.volatile | self.class_volatile):
                outs.append(self.opaque("read", node, [], [], s1, fr))
                continue
            outs.extend(self.fold(node, s1))
        return outs
    if isinstance(e, (ast.Tuple, ast.List, ast.Set)):
        outs = []
        inner = [x.value if isinstance(x, ast.Starred) else x for x in e.elts]
        for s1, vals in self.sym_list(inner, st, fr):
            if _raised(vals):
                outs.append((s1, RAISE))
                continue
            elts = [ast.Starred(value=v, ctx=ast.Load()) if isinstance(x, ast.Starred) else v for x, v in zip(e.elts, vals)]
            node = type(e)(elts=elts, ctx=ast.Load()) if not isinstance(e, ast.Set) else ast.Set(elts=elts)
            outs.append((s1, node))
        return outs
    if isinstance(e, ast.Dict):
        outs = []
        ks = [k for k in e.keys]
        for s1, vals in self.sym_list([k for k in ks if k is not None] + list(e.values), st, fr):
            if _raised(vals):
                outs.append((s1, RAISE))
                continue
            nk = sum(1 for k in ks if k is not None)
            kv = iter(vals[:nk])
            keys = [next(kv) if k is not None else None for k in ks]
            outs.append((s1, ast.Dict(keys=keys, values=vals[nk:])))
        return outs
    if isinstance(e, ast.UnaryOp):
        outs = []
        for s1, v in self.sym(e.operand, st, fr):
            if v is RAISE:
                outs.append((s1, v))
            else:
                outs.extend(self.fold(ast.UnaryOp(op=e.op, operand=v), s1))
        return outs
    if isinstance(e, ast.BinOp):
        outs = []
        for s1, vals in self.sym_list([e.left, e.right], st, fr):
            if _raised(vals):
                outs.append((s1, RAISE))
            else:
                outs.extend(self.fold(ast.BinOp(left=vals[0], op=e.op, right=vals[1]), s1))
        return outs
    if isinstance(e, ast.Compare):
        outs = []
        for s1, vals in self.sym_list([e.left] + list(e.comparators), st, fr):
            if _raised(vals):
                outs.append((s1, RAISE))
            else:
                outs.extend(self.fold(ast.Compare(left=vals[0], ops=list(e.ops), comparators=vals[1:]), s1))
        return outs
    if isinstance(e, ast.BoolOp):
        return self.sym_boolop(e, 0, st, fr)
    if isinstance(e, ast.IfExp):
        outs = []
        for s1, t in self.sym(e.test, st, fr):
            if t is RAISE:
                outs.append((s1, t))
                continue
            v = self.tv(t, s1)
            if v is not None:
                outs.extend(self.sym(e.body if v else e.orelse, s1, fr))
                continue
            lazy = self.has_inlinable(e.body, fr) or self.has_inlinable(e.orelse, fr)
            a = self.sym(e.body, s1, fr) if not lazy else None
            b = self.sym(e.orelse, s1, fr) if not lazy else None
            if not lazy and len(a) == 1 and len(b) == 1 and a[0][1] is not RAISE and b[0][1] is not RAISE and a[0][0].key() == s1.key() == b[0][0].key():
                outs.append((s1, ast.IfExp(test=t, body=a[0][1], orelse=b[0][1])))
            else:
                for s2, bv in self.branch(t, s1):
                    outs.extend(self.sym(e.body if bv else e.orelse, s2, fr))
        return outs
    if isinstance(e, ast.JoinedStr):
        return [(st, self.close_over(e, st, fr))]
    if isinstance(e, ast.Lambda):
        a = e.args
        if a.vararg or a.kwarg or a.kwonlyargs or self.has_inlinable(e.body, fr):
            return [(st, N(fr.marker("lambda")))]
        return [(st, self.close_over(e, st, fr))]  # kept as a value: calling it substitutes the arguments
    if isinstance(e, (ast.GeneratorExp, ast.ListComp, ast.SetComp, ast.DictComp)):
        node = self.close_over(e, st, fr)
        if isinstance(e, ast.DictComp):
            return [(st, node)]
        return self.fold(node, st)
    if isinstance(e, ast.Await):
        if isinstance(e.value, ast.Call):
            return self.sym_call(e.value, st, fr, awaited=True)
        outs = []
        for s1, v in self.sym(e.value, st, fr):
            outs.append((s1, v) if v is RAISE else self.opaque("await", v, [], [], s1, fr))
        return outs
    if isinstance(e, ast.NamedExpr):
        outs = []
        for s1, v in self.sym(e.value, st, fr):
            outs.append((s1, v) if v is RAISE else (s1.bind(e.target.id, v), v))
        return outs
    if isinstance(e, ast.Call):
        return self.sym_call(e, st, fr)
    if isinstance(e, ast.Starred):
        return [(s1, v if v is RAISE else ast.Starred(value=v, ctx=ast.Load())) for s1, v in self.sym(e.value, st, fr)]
    # yield, slices outside subscripts, ...: an unknown value
    return [self.opaque("expr", K(type(e).__name__), [], [], st, fr)]


def _sx_close_over(self, e, st, fr):
    """substitute the current values of the free local names of a comprehension / f-string"""
    mapping = {}
    for n in ast.walk(e):
        if isinstance(n, ast.Name) and isinstance(n.ctx, ast.Load) and n.id in st.env and not n.id.startswith("$"):
            mapping[n.id] = st.env[n.id]
    node = subst(e, mapping)
    # bind root chains of the scenario inside the comprehension as well
    return _BindChains(self).visit(node)


class _BindChains(_Subst):
    def __init__(self, sx):
        self.sx = sx
        self.mapping = {}

    def visit_Attribute(self, n):
        c = chain(n)
        if c is not None:
            b = self.sx.sc.bind(c)
            if b is not None:
                return b
        return self.generic_visit(n)

    def visit_Name(self, n):
        return n

    def _comp(self, n):
        return self.generic_visit(n)

    visit_GeneratorExp = visit_ListComp = visit_SetComp = visit_DictComp = _comp

    def visit_Lambda(self, n):
        return self.generic_visit(n)


def _sx_sym_boolop(self, e, i, st, fr):
    """`a and b and ...` / `a or b or ...` from operand i on, with short-circuit evaluation"""
    is_and = isinstance(e.op, ast.And)
    outs = []
    for s1, v in self.sym(e.values[i], st, fr):
        if v is RAISE or i == len(e.values) - 1:
            outs.append((s1, v))
            continue
        t = self.tv(v, s1)
        if t is not None:
            if t != is_and:
                outs.append((s1, v))  # short-circuit: the value of this operand
            else:
                outs.extend(self.sym_boolop(e, i + 1, s1, fr))
            continue
        rest_lazy = any(self.has_inlinable(x, fr) for x in e.values[i + 1:])
        rest = self.sym_boolop(e, i + 1, s1, fr) if not rest_lazy else None
        if rest is not None and len(rest) == 1 and rest[0][1] is not RAISE and rest[0][0].key() == s1.key():
            r = rest[0][1]
            vals = [v] + (list(r.values) if isinstance(r, ast.BoolOp) and type(r.op) is type(e.op) else [r])
            outs.append((s1, ast.BoolOp(op=e.op, values=vals)))
        else:
            for s2, b in self.branch(v, s1):
                if b != is_and:
                    outs.append((s2, v))
                else:
                    outs.extend(self.sym_boolop(e, i + 1, s2, fr))
    return outs


for _n, _f in list(globals().items()):
    if _n.startswith("_sx_") and callable(_f):
        setattr(SX, _n[4:], _f)


# ---------------------------------------------------------------------------
# calls


def _is_static(fi):
    return any((chain(d) or "") == "staticmethod" for d in fi.node.decorator_list)


def _is_classmethod(fi):
    return any((chain(d) or "") == "classmethod" for d in fi.node.decorator_list)


def _is_generator(fi):
    from ..model import walk_no_nested
    return any(isinstance(n, (ast.Yield, ast.YieldFrom)) for n in walk_no_nested(fi.node))


def _sx_callee_of(self, f, st, fr):
    """(FuncInfo, bound receiver expr or None, skip_first) for a call whose function expression (source form) is f"""
    if isinstance(f, ast.Attribute) and isinstance(f.value, ast.Name):
        recv = st.env.get(f.value.id, f.value)
        if isinstance(recv, ast.Name) and recv.id in self.self_names:
            m = self.owner.methods.get(f.attr)
            if m is not None and not any((chain(d) or "").split(".")[-1] in ("property", "cached_property", "setter") for d in m.node.decorator_list):
                return m, recv, not _is_static(m)
        if f.value.id == self.owner.node.name and f.value.id not in st.env:
            m = self.owner.methods.get(f.attr)
            if m is not None:
                return m, (N(self.owner.node.name) if _is_classmethod(m) else None), _is_classmethod(m)
    if isinstance(f, ast.Name):
        v = st.env.get(f.id)
        if isinstance(v, ast.Name) and v.id.startswith("$def@"):
            fi = self.prog.funcs.get(v.id[5:])
            if fi is not None:
                return fi, None, False
        if v is None and f.id not in fr.locals:
            fi = self.prog.funcs.get(fr.fi.module.name + "." + f.id)
            if fi is not None and fi.cls is None and fi.parent is None and fi.module is self.owner.module:
                return fi, None, False
    return None


def _sx_has_inlinable(self, e, fr):
    for n in ast.walk(e):
        if isinstance(n, ast.Call):
            f = n.func
            if isinstance(f, ast.Attribute) and isinstance(f.value, ast.Name) and f.attr in self.owner.methods:
                return True
            if isinstance(f, ast.Name) and (self.prog.funcs.get(fr.fi.module.name + "." + f.id) is not None or f.id in fr.locals):
                return True
    return False


def _sx_sym_call(self, e, st, fr, awaited=False):
    outs = []
    star = any(isinstance(a, ast.Starred) for a in e.args) or any(k.arg is None for k in e.keywords)
    arg_exprs = list(e.args) + [k.value for k in e.keywords]
    callee = self.callee_of(e.func, st, fr)
    lam = e.func if isinstance(e.func, ast.Lambda) else (st.env.get(e.func.id) if isinstance(e.func, ast.Name) else None)
    if not isinstance(lam, ast.Lambda):
        lam = None
    for s1, vals in self.sym_list(arg_exprs, st, fr):
        if _raised(vals):
            outs.append((s1, RAISE))
            continue
        args = vals[: len(e.args)]
        kws = [(k.arg, v) for k, v in zip(e.keywords, vals[len(e.args):])]
        if lam is not None and not star and not kws:
            # beta reduction; missing arguments take the (definition-time) defaults: `lambda p=path: ...`
            ps = lam.args.posonlyargs + lam.args.args
            defaults = [None] * (len(ps) - len(lam.args.defaults)) + list(lam.args.defaults)
            if len(args) <= len(ps) and all(d is not None for d in defaults[len(args):]):
                mapping = {p.arg: (args[i] if i < len(args) else defaults[i]) for i, p in enumerate(ps)}
                outs.extend(self.sym(subst(lam.body, mapping), s1, fr))
                continue
        if callee is not None and not star:
            r = self.inline(e, callee, args, kws, s1, fr, awaited)
            if r is not None:
                outs.extend(r)
                continue
        if callee is not None and star:
            # `f(a, *args, **kwargs)` forwarding the caller's own, unknown, variadic arguments: the explicit leading
            # arguments are bound, every other parameter of the callee is unknown
            fa = fr.fi.node.args
            n_lead = next(i for i, a in enumerate(e.args + [None]) if a is None or isinstance(a, ast.Starred))
            rest = e.args[n_lead:]
            fwd = all(isinstance(a, ast.Starred) and isinstance(a.value, ast.Name) and fa.vararg is not None and a.value.id == fa.vararg.arg
                      and a.value.id not in s1.env for a in rest) and len(rest) <= 1 \
                and all(k.arg is not None or (isinstance(k.value, ast.Name) and fa.kwarg is not None and k.value.id == fa.kwarg.arg
                                              and k.value.id not in s1.env) for k in e.keywords)
            if fwd:
                r = self.inline(e, callee, args[:n_lead], [(k, v) for k, v in kws if k is not None], s1, fr, awaited, forward=True)
                if r is not None:
                    outs.extend(r)
                    continue
        if callee is not None:
            self.refused_sites.add(id(e))
            self.refused_funcs.add(callee[0].qn)
        if not star:
            # a method handed over as a callable together with its arguments (functools.partial(self.m, a),
            # run_in_executor(None, self.m, a), to_thread(self.m, a), call_soon(self.m, a)): it runs -- at the
            # earliest -- here, with these arguments; step into it for its effects and carry on with the caller
            for i, a in enumerate(e.args):
                cal = self.callee_of(a, s1, fr) if isinstance(a, ast.Attribute) else None
                if isinstance(a, ast.Name) and a.id not in s1.env and a.id not in fr.locals:
                    cal = self.callee_of(a, s1, fr)  # a plain function of the module handed over by name
                if cal is not None:
                    is_partial = (chain(e.func) or "").split(".")[-1] == "partial"
                    if self.inline(a, cal, args[i + 1:], kws if is_partial else [], s1, fr, True, partial=True) is None:
                        self.refused_sites.add(id(a))
        # the function expression
        f = e.func
        if isinstance(f, ast.Attribute):
            fouts = [(s2, rv if rv is RAISE else ast.Attribute(value=rv, attr=f.attr, ctx=ast.Load())) for s2, rv in self.sym(f.value, s1, fr)]
        else:
            fouts = self.sym(f, s1, fr)
        for s2, fexpr in fouts:
            if fexpr is RAISE:
                outs.append((s2, RAISE))
                continue
            outs.extend(self.apply(e, fexpr, args, kws, s2, fr, awaited))
    return outs


def _sx_apply(self, e, fexpr, args, kws, st, fr, awaited):
    """a call that is not stepped into: pure (kept as structure, folded) or opaque (fresh value)"""
    fn = chain(fexpr)
    if fn is not None and fn.split(".")[0] not in st.env and fn.split(".")[0] not in fr.locals:
        # a modelled library function under an import alias (`from unicodedata import normalize`, `import unicodedata as u`)
        head, _, rest = fn.partition(".")
        q = fr.fi.module.imports.get(head)
        qn = (q + ("." + rest if rest else "")) if q else fn
        if qn in STR_MODELS and qn != fn:
            fexpr = ast.parse(qn, mode="eval").body
            fn = qn
    node = ast.Call(func=fexpr, args=list(args), keywords=[ast.keyword(arg=k, value=v) for k, v in kws])
    # mutation of a local collection through one of its methods: its value is no longer known
    if isinstance(e.func, ast.Attribute) and isinstance(e.func.value, ast.Name) and e.func.attr in MUTATORS and e.func.value.id in st.env:
        name = e.func.value.id
        old = st.env[name]
        grown = self.grow(old, e.func.attr, args, kws)
        if grown is not None:
            # loop + append / add / extend builds the same collection as a comprehension: keep its elements
            return [(st.bind(name, grown), K(None))]
        if not (isinstance(old, ast.Name) and old.id in self.self_names):
            taint = self.sc.taint_mutated or self.tainted(old) or self.tainted(node)
            s2, val = self.opaque("call", fexpr, args, kws, st, fr)
            s2 = s2.bind(name, N(fr.marker("mut"), taint=taint))
            return [(s2, val)]
    if isinstance(fexpr, ast.Attribute) and fexpr.attr == "get" and isinstance(fexpr.value, ast.Dict) and 1 <= len(args) <= 2 and not kws:
        found, v = self.table_lookup(fexpr.value, args[0])
        if found is True:
            return [(st, v)]
        if found is False:
            return [(st, args[1] if len(args) == 2 else K(None))]
    if isinstance(fexpr, ast.Attribute) and fexpr.attr == "_replace" and not args and kws and all(k is not None for k, _ in kws):
        # namedtuple._replace on a value constructed here: the constructor call with the fields replaced
        base = fexpr.value
        bp, fields = opaque_parts(base), getattr(base, "_ntfields", None)
        if bp is not None and getattr(base, "_ctor", False) and fields and all(k in fields for k, _ in kws) \
                and len(bp[1]) <= len(fields) and not any(isinstance(x, ast.Starred) for x in bp[1]) and all(k.arg in fields for k in bp[2]):
            vals = dict(zip(fields, bp[1]))
            vals.update({k.arg: k.value for k in bp[2]})
            vals.update(dict(kws))
            if set(vals) == set(fields):
                new = ast.Call(func=base.func, args=[bp[0]] + [vals[f] for f in fields], keywords=[])
                for a_ in ("_ctor", "_cls", "_ntfields", "_truthy", "_taint"):
                    if hasattr(base, a_):
                        setattr(new, a_, getattr(base, a_))
                return [(st, new)]
    pure = False
    if isinstance(fexpr, ast.Name) and fexpr.id in PURE_FUNCS and fexpr.id not in st.env:
        pure = True
    elif fn in PURE_CHAINS or fn in STR_MODELS:
        pure = True
    elif isinstance(fexpr, ast.Attribute) and fexpr.attr in PURE_METHODS:
        pure = True
    if pure and not awaited:
        if isinstance(fexpr, ast.Attribute) and fexpr.attr == "relative_to" and len(args) == 1:
            known, v = self.containment(fexpr.value, args[0])
            if known and v is False:
                return [(self.raise_state(st, "ValueError"), RAISE)]
            if known and v is None:
                return [(self.raise_state(st, "ValueError"), RAISE), (st, node)]
        return self.fold(node, st)
    ctor = self.class_of(fexpr, fr.fi.module)
    s2, val = self.opaque("await" if awaited else "call", fexpr, args, kws, st, fr, ctor=ctor if not awaited else None)
    return [(s2, val)]


def _sx_grow(self, old, method, args, kws):
    """value of a local list/set display after .append(x) / .add(x) / .extend(seq); None when not modelled.
    An element that is already present (the same symbolic value appended again by a later iteration) is summarised
    by one starred unknown tail, which keeps the set of states finite; truthiness and membership of the definite
    elements stay exact."""
    if kws or len(args) != 1:
        return None
    if isinstance(old, ast.Call) and isinstance(old.func, ast.Name) and old.func.id in ("list", "set") and not old.args and not old.keywords:
        old = ast.List(elts=[], ctx=ast.Load()) if old.func.id == "list" else ast.Set(elts=[])
    if isinstance(old, ast.Dict) and not old.keys and method == "add":
        return None
    if isinstance(old, ast.Constant) and isinstance(old.value, list) and not old.value:
        old = ast.List(elts=[], ctx=ast.Load())
    if not isinstance(old, (ast.List, ast.Set)):
        return None
    if (method == "append" and isinstance(old, ast.List)) or (method == "add" and isinstance(old, ast.Set)):
        new = [args[0]]
    elif method == "extend" and isinstance(old, ast.List):
        segs = self.seq_of(args[0])
        if segs is None or not all(kd == "one" for kd, _ in segs):
            return None
        new = [x for _, x in segs]
    else:
        return None
    elts = list(old.elts)
    have = {T(x) for x in elts}
    for x in new:
        if T(x) in have:
            if "*$again" not in have:
                elts.append(ast.Starred(value=N("$again"), ctx=ast.Load()))
                have.add("*$again")
        else:
            elts.append(x)
            have.add(T(x))
    return ast.List(elts=elts, ctx=ast.Load()) if isinstance(old, ast.List) else ast.Set(elts=elts)


def _sx_inline(self, call, callee, args, kws, st, fr, awaited, partial=False, forward=False):
    fi, recv, skip_first = callee
    if fr.depth >= self.max_depth or fi.qn in [q for q, _ in fr.stack] or fi.qn == fr.fi.qn:
        return None
    if _is_generator(fi):
        return None
    if fi.is_async and not awaited:
        return None
    a = fi.node.args
    if a.vararg or a.kwarg:
        return None
    pos = [p.arg for p in a.posonlyargs + a.args]
    env = {}
    if skip_first:
        if not pos:
            return None
        env[pos[0]] = recv if recv is not None else N("$recv")
        pos = pos[1:]
    if len(args) > len(pos):
        return None
    for p, v in zip(pos, args):
        env[p] = v
    allowed = set(pos) | {p.arg for p in a.kwonlyargs}
    for k, v in kws:
        if k not in allowed or k in env:
            return None
        env[k] = v
    # defaults
    pdefs = a.posonlyargs + a.args
    defaults = [None] * (len(pdefs) - len(a.defaults)) + list(a.defaults)
    for p, d in list(zip(pdefs, defaults)) + list(zip(a.kwonlyargs, a.kw_defaults)):
        if p.arg not in env:
            if forward:
                # supplied (or not) by the forwarded *args / **kwargs: an unknown value, named like a parameter of an
                # entry point is
                env[p.arg] = N(p.arg)
                continue
            if d is None:
                if not partial:
                    return None
                env[p.arg] = N("$later@%s:%s" % (fi.short, p.arg))  # supplied by whoever invokes the callable
                continue
            env[p.arg] = d if isinstance(d, ast.Constant) else N("$default@%s:%s" % (fi.short, p.arg))
    if fi.parent is not None:
        # closure: free names see the caller's locals
        for k, v in st.env.items():
            if k not in env and not k.startswith("$"):
                env.setdefault(k, v)
    self.inlined_sites.add(id(call))
    outs = []
    stack = fr.stack + ((fr.fi.qn, id(call)),)
    inner = St(env, st.dec, st.flags, st.iters)
    for kind, val, s_out in self.exec_func(fi, inner, fr.depth + 1, stack):
        back = St(st.env, s_out.dec, s_out.flags, st.iters)
        if kind == "return":
            outs.append((back, val))
        else:
            s3 = back.bind("$exc", val if val is not None else N("$implicit"))
            outs.append((s3, RAISE))
    self.cur_fr = fr
    return outs


# ---------------------------------------------------------------------------
# statements and control flow


_EXC_ALIASES = {"IOError": "OSError", "EnvironmentError": "OSError"}


def failure_value(exc_name):
    """the exception instance a failing effect raises under Scenario.fail: an opaque instance of the builtin class"""
    return ast.Call(func=N("$exc@fail"), args=[N(exc_name)], keywords=[])


def _exc_class_candidates(prog, exc):
    """names the raised value's class may have in the hierarchy: (builtin name or None, [package class qns]); (None, [])
    when the class is not known (a parameter, a computed class)"""
    from ..model import BUILTIN_EXC
    name = None
    p = opaque_parts(exc) if exc is not None else None
    if p is not None:
        name = chain(p[0])
    elif isinstance(exc, (ast.Name, ast.Attribute)):
        name = chain(exc)
    if not name or name.startswith("$"):
        return None, []
    last = name.split(".")[-1]
    builtin = name if name in BUILTIN_EXC else (last if last in BUILTIN_EXC else None)
    return builtin, [q for q in prog.classes if q.endswith("." + last)]


def _handler_may_catch(prog, h, exc):
    """can handler node h catch the exception value exc (a class reference / instance / None when unknown)"""
    if h.type is None or exc is None:
        return True
    builtin, qns = _exc_class_candidates(prog, exc)
    if builtin is None and not qns:
        return True  # class not known: any handler may catch it
    types = h.type.elts if isinstance(h.type, ast.Tuple) else [h.type]
    for t in types:
        tn = _EXC_ALIASES.get((chain(t) or "").split(".")[-1], (chain(t) or "").split(".")[-1])
        if not tn or tn in ("Exception", "BaseException"):
            return True
        if builtin is not None and (tn == builtin.split(".")[-1] or prog.is_subclass(builtin, tn)):
            return True
        for q in qns:
            if any(m.split(".")[-1] == tn for m in prog.mro(q)):
                return True
    return False


def _handler_surely_catches(prog, h, exc):
    if h.type is None:
        return True
    builtin, qns = _exc_class_candidates(prog, exc)
    if builtin is None and len(qns) != 1:
        return False
    types = h.type.elts if isinstance(h.type, ast.Tuple) else [h.type]
    for t in types:
        tn = _EXC_ALIASES.get((chain(t) or "").split(".")[-1], (chain(t) or "").split(".")[-1])
        if builtin is not None and (tn == builtin.split(".")[-1] or prog.is_subclass(builtin, tn)):
            return True
        if builtin is None and any(m.split(".")[-1] == tn for m in prog.mro(qns[0])):
            return True
    return False


def _sx_exec_func(self, fi, st0, depth=0, stack=()):
    """run one function from its entry; -> [(kind 'return'|'raise', value, state)]"""
    from ..cfg import cfg_of
    cfg = cfg_of(fi)
    fr = Frame(fi, depth, stack, cfg)
    self.cur_fr = fr
    outcomes = []
    okeys = set()
    seen = set()
    work = [(cfg.entry, st0, "next")]
    while work:
        nid, st, lab = work.pop()
        key = (nid, lab == "back", st.key())
        if key in seen:
            continue
        seen.add(key)
        self.nstates += 1
        if self.nstates > self.MAX_STATES:
            raise AnalysisError("symbolic execution of %s: more than %d states" % (fi.short, self.MAX_STATES))
        self.visits.setdefault((fi.qn, nid), []).append((st, depth, stack))
        node = cfg.nodes[nid]
        if nid == cfg.exit:
            k = ("return", st.key())
            if k not in okeys:
                okeys.add(k)
                outcomes.append(("return", st.env.get("$ret", K(None)), st))
            continue
        if nid == cfg.rexit:
            k = ("raise", st.key())
            if k not in okeys:
                okeys.add(k)
                outcomes.append(("raise", st.env.get("$exc"), st))
            continue
        fr.nid, fr.k = nid, 0
        self.cur_fr = fr
        for nxt, s2, l2 in self.step(fr, node, st, lab):
            work.append((nxt, s2, l2))
    return outcomes


def _succ(cfg, nid, labels=None, exclude=()):
    return [(d, l) for d, l in cfg.succ[nid] if (labels is None or l in labels) and l not in exclude]


def _sx_exc_edges(self, fr, node, st, exc=None, implicit=True):
    """successors along exception edges (innermost handler first; a handler that certainly catches ends the search)"""
    out = []
    s = self.raise_state(st, exc if exc is not None else "$implicit", implicit=implicit)
    for d, l in fr.cfg.succ[node.id]:
        if l != "exc":
            continue
        dn = fr.cfg.nodes[d]
        if dn.kind == "handler":
            if not _handler_may_catch(self.prog, dn.ast, None if implicit else exc):
                continue
            out.append((d, s, "exc"))
            if not implicit and exc is not None and _handler_surely_catches(self.prog, dn.ast, exc):
                break  # a known exception class caught for certain: outer handlers are not reached
            if dn.ast.type is None:
                break
        else:
            out.append((d, s, "exc"))
    return out


def _sx_bind_target(self, t, val, st, fr):
    """assignment of a symbolic value to a target; [(state)] or RAISE marker via flag"""
    if isinstance(t, ast.Name):
        if size_of(val) > self.MAX_VALUE_SIZE:
            val = N(fr.marker("big"), taint=self.tainted(val))
        return st.bind(t.id, val)
    if isinstance(t, (ast.Tuple, ast.List)):
        if any(isinstance(x, ast.Starred) for x in t.elts):
            for x in t.elts:
                tt = x.value if isinstance(x, ast.Starred) else x
                st = self.bind_target(tt, N(fr.marker("unpack"), taint=self.tainted(val)), st, fr)
            return st
        if isinstance(val, (ast.Tuple, ast.List)) and len(val.elts) == len(t.elts) and not any(isinstance(x, ast.Starred) for x in val.elts):
            for tt, vv in zip(t.elts, val.elts):
                st = self.bind_target(tt, vv, st, fr)
            return st
        for i, tt in enumerate(t.elts):
            st = self.bind_target(tt, self.simplify(ast.Subscript(value=val, slice=K(i), ctx=ast.Load())), st, fr)
        return st
    if isinstance(t, ast.Attribute):
        # `m = C(a=1); m.b = v` is the same fact as `m = C(a=1, b=v)`: a store into an object that was constructed
        # in this function and is held in a local is recorded as a keyword (dotted for nested attributes) of the
        # constructor value
        path = []
        base = t
        while isinstance(base, ast.Attribute):
            path.append(base.attr)
            base = base.value
        if isinstance(base, ast.Name) and base.id in st.env and marker_of(st.env[base.id]) is not None and getattr(st.env[base.id], "_ctor", False):
            old = st.env[base.id]
            name = ".".join(reversed(path))
            kws = [kw for kw in old.keywords if kw.arg != name] + [ast.keyword(arg=name, value=val)]
            new = ast.Call(func=old.func, args=list(old.args), keywords=kws)
            for a in ("_ctor", "_cls", "_ntfields", "_truthy", "_taint"):
                if hasattr(old, a):
                    setattr(new, a, getattr(old, a))
            if size_of(new) <= self.MAX_VALUE_SIZE:
                return st.bind(base.id, new)
    return st  # other attribute / subscript stores: covered by the volatile-chain rule


def _sx_assign_forks(self, value, st, fr):
    """values of an assignment's right-hand side; conditional expressions and `a or b` fork the state so that
    every state holds a simple value"""
    outs = []
    if isinstance(value, ast.IfExp):
        for s1, t in self.sym(value.test, st, fr):
            if t is RAISE:
                outs.append((s1, t))
                continue
            for s2, b in self.branch(t, s1):
                outs.extend(self.assign_forks(value.body if b else value.orelse, s2, fr))
        return outs
    if isinstance(value, ast.BoolOp) and len(value.values) >= 2:
        is_and = isinstance(value.op, ast.And)
        first, rest = value.values[0], value.values[1:]
        rest_e = rest[0] if len(rest) == 1 else ast.BoolOp(op=value.op, values=rest)
        for s1, v in self.sym(first, st, fr):
            if v is RAISE:
                outs.append((s1, v))
                continue
            if is_boolean_typed(v):
                # a boolean operand: keep the whole expression as one boolean value
                return self.sym(value, st, fr)
            for s2, b in self.branch(v, s1):
                if b != is_and:
                    outs.append((s2, v))
                else:
                    outs.extend(self.assign_forks(rest_e, s2, fr))
        return outs
    return self.sym(value, st, fr)


def _sx_step(self, fr, node, st, lab):
    eff = self.sc.effects
    if not eff or (fr.fi.qn, node.id) not in eff or node.kind in ("entry", "join", "T", "F", "handler"):
        return self.step0(fr, node, st, lab)
    key = (fr.fi.qn, node.id)
    if key in self.sc.fail and "touched" not in st.flags and "via_exc" not in st.flags:
        s = st.flag("failed:%s:%d" % key, "touched")
        return self.exc_edges(fr, node, s, failure_value(self.sc.fail[key]), implicit=False)
    return [(d, (s if l == "exc" else s.flag("touched")), l) for d, s, l in self.step0(fr, node, st, lab)]


def _sx_step0(self, fr, node, st, lab):
    cfg = fr.cfg
    kind = node.kind
    a = node.ast
    normal = lambda s: [(d, s, l) for d, l in cfg.succ[node.id] if l != "exc"]
    if kind in ("entry", "join", "T", "F"):
        return normal(st)
    if kind == "handler":
        s = st
        if a.name:
            s = s.bind(a.name, st.env.get("$exc", N("$implicit")))
        return normal(s)
    out = []
    has_exc = any(l == "exc" for _, l in cfg.succ[node.id])
    if kind == "raise":
        if a.exc is None:
            return self.exc_edges(fr, node, st, st.env.get("$exc"), implicit=False)
        for s1, v in self.sym(a.exc, st, fr):
            if v is RAISE:
                out.extend(self.exc_edges(fr, node, s1, s1.env.get("$exc"), implicit=False))
            else:
                out.extend(self.exc_edges(fr, node, s1, v, implicit=False))
        return out
    # implicit exceptions: the statement fails before having any effect
    if has_exc:
        out.extend(self.exc_edges(fr, node, st, None, implicit=True))

    def raised(s):
        out.extend(self.exc_edges(fr, node, s, s.env.get("$exc"), implicit="via_exc" in s.flags and "via_exc" not in st.flags))

    if kind == "return":
        for s1, v in self.sym(a.value, st, fr):
            if v is RAISE:
                raised(s1)
            else:
                out.extend(normal(s1.bind("$ret", v)))
        return out
    if kind == "test":
        for s1, v in self.sym(a, st, fr):
            if v is RAISE:
                raised(s1)
                continue
            for s2, b in self.branch(v, s1):
                out.extend((d, s2, l) for d, l in cfg.succ[node.id] if l == ("T" if b else "F"))
        return out
    if kind == "with":
        sts = [st]
        for item in a.items:
            nxt = []
            for s0 in sts:
                for s1, v in self.sym(item.context_expr, s0, fr):
                    if v is RAISE:
                        raised(s1)
                    elif item.optional_vars is not None:
                        nxt.append(self.bind_target(item.optional_vars, v, s1, fr))
                    else:
                        nxt.append(s1)
            sts = nxt
        for s in sts:
            out.extend(normal(s))
        return out
    if kind == "for":
        return out + self.step_for(fr, node, st, lab, raised)
    if kind == "stmt":
        if isinstance(a, ast.Assign):
            for s1, v in self.assign_forks(a.value, st, fr):
                if v is RAISE:
                    raised(s1)
                    continue
                s2 = s1
                for t in a.targets:
                    s2 = self.bind_target(t, v, s2, fr)
                out.extend(normal(s2))
            return out
        if isinstance(a, ast.AnnAssign):
            if a.value is None:
                return out + normal(st)
            for s1, v in self.assign_forks(a.value, st, fr):
                if v is RAISE:
                    raised(s1)
                else:
                    out.extend(normal(self.bind_target(a.target, v, s1, fr)))
            return out
        if isinstance(a, ast.AugAssign):
            for s1, v in self.sym(a.value, st, fr):
                if v is RAISE:
                    raised(s1)
                    continue
                if isinstance(a.target, ast.Name):
                    old = s1.env.get(a.target.id, a.target)
                    new = ast.BinOp(left=old, op=a.op, right=v)
                    if size_of(new) > 40 or isinstance(old, ast.Name) and old.id.startswith("$aug"):
                        new = N(fr.marker("aug"), taint=self.tainted(new))
                        s1 = self.kill(s1, new.id)
                        out.extend(normal(s1.bind(a.target.id, new)))
                    else:
                        for s2, nv in self.fold(new, s1):
                            if nv is RAISE:
                                raised(s2)
                            else:
                                out.extend(normal(s2.bind(a.target.id, nv)))
                else:
                    out.extend(normal(s1))
            return out
        if isinstance(a, ast.Expr):
            for s1, v in self.sym(a.value, st, fr):
                if v is RAISE:
                    raised(s1)
                else:
                    out.extend(normal(s1))
            return out
        if isinstance(a, (ast.FunctionDef, ast.AsyncFunctionDef)):
            qn = None
            for f in self.prog.funcs.values():
                if f.node is a:
                    qn = f.qn
            return out + normal(st.bind(a.name, N("$def@" + (qn or a.name))))
        if isinstance(a, ast.Delete):
            s = st
            for t in a.targets:
                if isinstance(t, ast.Name):
                    s = s.unbind(t.id)
            return out + normal(s)
        if isinstance(a, ast.Match):
            return out + normal(st)
        # pass, assert (never a guard), global, import, break/continue (edges do the work), class
        return out + normal(st)
    return out + normal(st)


def _sx_step_for(self, fr, node, st, lab, raised):
    cfg = fr.cfg
    a = node.ast
    out = []
    key = "%s:%d" % (fr.fi.short, node.id)
    T_edges = [(d, l) for d, l in cfg.succ[node.id] if l == "T"]
    F_edges = [(d, l) for d, l in cfg.succ[node.id] if l == "F"]
    for s1, itv in self.sym(a.iter, st, fr):
        if itv is RAISE:
            raised(s1)
            continue
        enum, start, seq = False, 0, itv
        if isinstance(itv, ast.Call) and chain(itv.func) == "enumerate" and 1 <= len(itv.args) <= 2 and not itv.keywords:
            try:
                start = ceval(itv.args[1]) if len(itv.args) == 2 else 0
                enum, seq = True, itv.args[0]
            except (Unk, CRaise):
                pass
        segs = self.seq_of(seq) if isinstance(start, int) else None
        if segs is None:
            # an iteration the executor cannot enumerate: unknown elements, zero or more times
            taint = self.tainted(itv)
            s2 = s1
            if taint:
                s2 = s2.flag("uncertain:for ... in " + T(itv)[:70])
            names = [n.id for n in ast.walk(a.target) if isinstance(n, ast.Name)]
            sT = s2
            for nm in names:
                mk = "$it@%s:%d:%s" % (fr.fi.short, node.id, nm)
                sT = self.kill(sT, mk).bind(nm, N(mk, taint=taint))
            out.extend((d, sT, l) for d, l in T_edges)
            out.extend((d, s2, l) for d, l in F_edges)
            continue
        p0 = s1.iters.get(key, 0) if lab == "back" else 0

        def advance(p, s):
            if p >= len(segs):
                it2 = {k: v for k, v in s.iters.items() if k != key}
                out.extend((d, s.with_iters(it2), l) for d, l in F_edges)
                return
            kind, x = segs[p]
            idx = lin_to_ast(segs_index(segs, p, start))
            if kind == "one":
                val = ast.Tuple(elts=[idx, x], ctx=ast.Load()) if enum else x
                s2 = self.bind_target(a.target, val, s, fr)
                it2 = dict(s2.iters)
                it2[key] = p + 1
                out.extend((d, s2.with_iters(it2), l) for d, l in T_edges)
            else:
                g = "$g%s" % x
                s2 = self.kill(self.kill(s, g), "$t%s" % x)
                val = ast.Tuple(elts=[idx, N(g)], ctx=ast.Load()) if enum else N(g)
                s2 = self.bind_target(a.target, val, s2, fr)
                it2 = dict(s2.iters)
                it2[key] = p
                out.extend((d, s2.with_iters(it2), l) for d, l in T_edges)
                advance(p + 1, s)
        advance(p0, s1)
    return out


def _sx_run(self, fi, env=None):
    """execute fi as an entry point; self.self_names is derived from the enclosing method"""
    m = fi
    while m.parent is not None:
        m = m.parent
    self.self_names = set()
    if m.cls is not None and not _is_static(m):
        a = m.node.args
        ps = a.posonlyargs + a.args
        if ps:
            self.self_names.add(ps[0].arg)
    w, wenv = self.entry_plan(fi)
    if w is fi:
        return self.exec_func(fi, St(dict(env or {})), 0, ())
    # the decorators of fi put the wrapper w in its place: a call from outside runs w, which receives the instance
    # as its first argument and reaches fi's body through the closure variable holding the wrapped function
    self.wrapped[fi.qn] = w.qn
    rename = {}
    if m.cls is not None and not _is_static(m):
        wa = w.node.args
        wps = wa.posonlyargs + wa.args
        if wps:
            # the wrapper's first parameter receives the instance: it is the method's `self` under another name
            own = sorted(self.self_names)
            if own and wps[0].arg not in self.self_names:
                rename[wps[0].arg] = N(own[0])
            else:
                self.self_names.add(wps[0].arg)
        else:
            raise AnalysisError("%s is replaced by the wrapper %s of its decorator, which takes the instance through *args: the rule "
                                "cannot tell which expressions denote the instance" % (fi.short, w.short))
    e2 = dict(wenv)
    e2.update(rename)
    e2.update(env or {})
    self.refused_funcs.discard(fi.qn)
    outs = self.exec_func(w, St(e2), 0, ((fi.qn + ENTRY_TAG, 0),))
    if fi.qn in self.refused_funcs:
        raise AnalysisError("%s is wrapped by a decorator (%s) that calls it in a way the rule cannot follow" % (fi.short, w.short))
    return outs


ENTRY_TAG = "@entry"
TRANSPARENT_DECORATORS = {"staticmethod", "classmethod", "abstractmethod", "override", "final", "no_type_check"}


def _sx_entry_plan(self, fi):
    """(function, closure environment) that runs when `fi` is invoked from outside: fi itself, or the function its
    decorators leave in its place.  `@d` / `@d(args)` with d a function of the module or of the class is *executed*
    (d(fi) -- its nested wrapper and the closure it captures are what it returns); a decorator the rule cannot
    interpret is refused, since it may change what a call does."""
    decos = [d for d in fi.node.decorator_list
             if (chain(d.func if isinstance(d, ast.Call) else d) or "?").split(".")[-1] not in TRANSPARENT_DECORATORS]
    if not decos:
        return fi, {}
    from ..cfg import cfg_of
    fr0 = Frame(fi, 0, (), cfg_of(fi))
    cur, cenv = N("$def@" + fi.qn), {}

    def refuse(d, why):
        raise AnalysisError("%s: decorator `%s` is outside the rule's vocabulary (%s)" % (fi.short, T(d)[:60], why))

    def lookup(d, f):
        c = chain(f)
        if c and "." not in c:
            for q in ([fi.cls.qn + "." + c] if fi.cls is not None else []) + [fi.module.name + "." + c]:
                t = self.prog.funcs.get(q)
                if t is not None and t.parent is None:
                    return t
        refuse(d, "not a function of the module or the class")

    def call(d, target, tenv, args, kws):
        a = target.node.args
        if a.vararg or a.kwarg or _is_generator(target) or target.is_async:
            refuse(d, "signature of %s" % target.short)
        ps = a.posonlyargs + a.args
        defaults = [None] * (len(ps) - len(a.defaults)) + list(a.defaults)
        env = dict(tenv)
        bound = set()
        if len(args) > len(ps):
            refuse(d, "arguments of %s" % target.short)
        for p_, v in zip(ps, args):
            env[p_.arg] = v
            bound.add(p_.arg)
        for k, v in kws:
            if k not in {p_.arg for p_ in ps + a.kwonlyargs} or k in bound:
                refuse(d, "arguments of %s" % target.short)
            env[k] = v
            bound.add(k)
        for p_, dflt in list(zip(ps, defaults)) + list(zip(a.kwonlyargs, a.kw_defaults)):
            if p_.arg not in bound:
                if dflt is None:
                    refuse(d, "arguments of %s" % target.short)
                env[p_.arg] = dflt if isinstance(dflt, ast.Constant) else N("$default@%s:%s" % (target.short, p_.arg))
        results = {}
        for kind, val, s_out in self.exec_func(target, St(env), 0, ()):
            if kind != "return":
                if "via_exc" in s_out.flags:
                    continue
                refuse(d, "%s may raise" % target.short)
            results.setdefault(T(val), (val, s_out))
        if len(results) != 1:
            refuse(d, "%s returns %d different values" % (target.short, len(results)))
        return list(results.values())[0]

    def as_def(v):
        """the function object a returned value is: `$def@...`, also behind functools.wraps(f)(g) / update_wrapper(g, f)"""
        if isinstance(v, ast.Name) and v.id.startswith("$def@"):
            return v
        p = opaque_parts(v)
        if p is not None:
            inner = opaque_parts(p[0])
            if inner is not None and (chain(inner[0]) or "").split(".")[-1] == "wraps" and len(p[1]) == 1:
                return as_def(p[1][0])
            if (chain(p[0]) or "").split(".")[-1] == "update_wrapper" and p[1]:
                return as_def(p[1][0])
        return None

    for d in reversed(decos):
        if isinstance(d, ast.Call):
            factory = lookup(d, d.func)
            if any(isinstance(x, ast.Starred) for x in d.args) or any(k.arg is None for k in d.keywords):
                refuse(d, "starred arguments")
            vals = []
            for x in list(d.args) + [k.value for k in d.keywords]:
                o = self.sym(x, St(), fr0)
                if len(o) != 1 or o[0][1] is RAISE:
                    refuse(d, "argument %s" % T(x)[:40])
                vals.append(o[0][1])
            made, s_made = call(d, factory, {}, vals[: len(d.args)], [(k.arg, v) for k, v in zip(d.keywords, vals[len(d.args):])])
            made = as_def(made)
            if made is None or made.id[5:] not in self.prog.funcs:
                refuse(d, "%s does not return a function defined in it" % factory.short)
            target, tenv = self.prog.funcs[made.id[5:]], {k: v for k, v in s_made.env.items() if not k.startswith("$")}
        else:
            target, tenv = lookup(d, d), {}
        res, s_res = call(d, target, tenv, [cur], [])
        new = as_def(res)
        if new is None or new.id[5:] not in self.prog.funcs:
            refuse(d, "%s does not return a function" % target.short)
        if new.id != cur.id:
            cur, cenv = new, {k: v for k, v in s_res.env.items() if not k.startswith("$")}
    return self.prog.funcs[cur.id[5:]], cenv


for _n, _f in list(globals().items()):
    if _n.startswith("_sx_") and callable(_f):
        setattr(SX, _n[4:], _f)


def _sx_peek(self, fi, nid, expr, st):
    """value of an expression in a recorded state (no effect on the run); None when it forks or raises"""
    from ..cfg import cfg_of
    fr = Frame(fi, 0, (), cfg_of(fi))
    fr.nid, fr.k = nid, 1000
    saved = getattr(self, "cur_fr", None)
    self.cur_fr = fr
    try:
        outs = self.sym(expr, st, fr)
    finally:
        self.cur_fr = saved
    if len(outs) == 1 and outs[0][1] is not RAISE:
        return outs[0][1]
    return None


def marker_node(e):
    """CFG node id at which an opaque value was produced"""
    m = marker_of(e)
    if m is None:
        return None
    try:
        return int(m.rsplit(":", 2)[1])
    except (ValueError, IndexError):
        return None


SX.peek = _sx_peek


# ---------------------------------------------------------------------------
# lexical value of a returned path (C19.g)

LEX_ROOT = "/srv/coap-root"  # stands for self.root: absolute, ASCII, no component a text transformation could alter
_PATH_CTORS = {"Path", "pathlib.Path", "PurePath", "pathlib.PurePath", "PurePosixPath", "pathlib.PurePosixPath", "PosixPath", "pathlib.PosixPath"}
_JOIN_FUNCS = {"os.path.join", "posixpath.join"}
_NORM_FUNCS = {"os.path.normpath", "posixpath.normpath", "os.path.abspath", "posixpath.abspath"}


def lex_value(e, is_root, cenv=None):
    """Value of a symbolic expression all of whose leaves are constants or the root directory, computed by the checker
    (pure path algebra of PurePosixPath, the string models of `ceval`): a str / tuple / ... or a PurePosixPath.
    `is_root(expr)` tells whether an attribute chain denotes the root; `cenv` holds the scenario's constants.  Raises Unk / CRaise like `ceval`.
    Nothing here touches the file system: resolve()/absolute()/realpath of a path under the (absolute) root are taken
    lexically, which is what they return when no symbolic link is involved."""
    import posixpath
    from pathlib import PurePosixPath as PP
    ev = lambda x: lex_value(x, is_root, cenv)
    if isinstance(e, (ast.Attribute, ast.Name)) and is_root(e):
        return PP(LEX_ROOT)
    p = opaque_parts(e)
    if p is not None:
        e = ast.Call(func=p[0], args=p[1], keywords=p[2])
    if isinstance(e, ast.BinOp) and isinstance(e.op, ast.Div):
        l, r = ev(e.left), ev(e.right)
        if (isinstance(l, PP) and isinstance(r, (PP, str))) or (isinstance(r, PP) and isinstance(l, str)):
            return PP(l, r)
        raise Unk("division")

    def flat(args):
        out = []
        for a in args:
            if isinstance(a, ast.Starred):
                out.extend(_iter(ev(a.value)))
            else:
                out.append(ev(a))
        return out

    if isinstance(e, ast.Call) and not e.keywords:
        fn = chain(e.func)
        if fn in _PATH_CTORS:
            vals = flat(e.args)
            if all(isinstance(v, (PP, str)) for v in vals):
                return PP(*vals)
            raise Unk("path constructor arguments")
        if fn in _JOIN_FUNCS or fn in _NORM_FUNCS or fn in ("str", "os.fspath", "os.path.realpath"):
            vals = flat(e.args)
            if vals and all(isinstance(v, (PP, str)) for v in vals):
                txt = [str(v) for v in vals]
                if fn in _JOIN_FUNCS:
                    return posixpath.join(*txt)
                if len(txt) == 1 and fn in _NORM_FUNCS | {"os.path.realpath"}:
                    if not txt[0].startswith("/"):
                        raise Unk("relative to the working directory")
                    return posixpath.normpath(txt[0])
                if len(txt) == 1 and fn in ("str", "os.fspath"):
                    return txt[0]
        if fn in STR_MODELS:
            return STR_MODELS[fn](*flat(e.args))
        if isinstance(e.func, ast.Attribute):
            recv = ev(e.func.value)
            name = e.func.attr
            if isinstance(recv, PP):
                vals = flat(e.args)
                if name == "joinpath" and all(isinstance(v, (PP, str)) for v in vals):
                    return PP(recv, *vals)
                if name in ("resolve", "absolute") and len(vals) <= 1 and recv.is_absolute():
                    return PP(posixpath.normpath(str(recv))) if name == "resolve" else recv
                if name == "expanduser" and not vals and not str(recv).startswith("~"):
                    return recv
                if name in ("as_posix", "__str__", "__fspath__") and not vals:
                    return str(recv)
                if name in ("with_name", "with_suffix", "with_stem") and len(vals) == 1 and isinstance(vals[0], str):
                    try:
                        return getattr(recv, name)(vals[0])
                    except ValueError:
                        raise CRaise("ValueError")
                raise Unk("path method " + name)
            # a method of a plain value: evaluate on the values
            vals = flat(e.args)
            if _is_plain(recv) and all(_is_plain(v) for v in vals):
                return ceval(ast.Call(func=ast.Attribute(value=value_to_ast(recv), attr=name, ctx=ast.Load()), args=[value_to_ast(v) for v in vals],
                                      keywords=[]))
            raise Unk("method " + name)
        vals = flat(e.args)
        if all(_is_plain(v) for v in vals):
            return ceval(ast.Call(func=e.func, args=[value_to_ast(v) for v in vals], keywords=[]))
        raise Unk("call " + (fn or "?"))
    if isinstance(e, ast.Attribute):
        recv = ev(e.value)
        if isinstance(recv, PP):
            if e.attr == "parent":
                return recv.parent
            if e.attr in ("name", "stem", "suffix"):
                return getattr(recv, e.attr)
        raise Unk("attribute " + e.attr)
    if isinstance(e, ast.JoinedStr):
        out = []
        for part in e.values:
            if isinstance(part, ast.Constant):
                out.append(str(part.value))
            elif isinstance(part, ast.FormattedValue) and part.conversion in (-1, 115) and part.format_spec is None:
                v = ev(part.value)
                if not isinstance(v, (PP, str)):
                    raise Unk("formatted value")
                out.append(str(v))
            else:
                raise Unk("format")
        return "".join(out)
    if isinstance(e, ast.BinOp) and isinstance(e.op, (ast.Add, ast.Mod)):
        l, r = ev(e.left), ev(e.right)
        if isinstance(e.op, ast.Add) and isinstance(l, str) and isinstance(r, str):
            return l + r
        raise Unk("string arithmetic")
    return ceval(e, cenv)
