"""Helpers private to the C16 / C17 rule modules (not a rule module itself).

Reaching definitions on the per-function CFG, branch-side utilities, resolution
of external callee names and evaluation of module-level constants across
modules.  Everything here works on resolved facts (CFG nodes, definitions,
evaluated constants), never on text or positions.
"""

import ast

from ..rulekit import *
from .. import norm
from ..norm import NormError

PARAM = "<param>"


# ---------------------------------------------------------------------------
# names of external callees


def ext_name(module, node):
    """Dotted name of a callee / attribute chain with the module's import
    aliases expanded (`urlparse` imported from urllib.parse ->
    `urllib.parse.urlparse`), or None for a non-chain."""
    if isinstance(node, ast.Call):
        node = node.func
    d = chain(node)
    if not d:
        return None
    parts = d.split(".")
    if parts[0] in module.imports:
        return ".".join([module.imports[parts[0]]] + parts[1:])
    return d


# ---------------------------------------------------------------------------
# reaching definitions


def _write_ids(fi, name):
    cfg = cfg_of(fi)
    out = {}
    for w in writes_to_name(fi.node, name):
        for nid in cfg.locate(w):
            out[nid] = w
    return out


def reaching_defs(fi, name, at):
    """Definitions of local `name` that reach CFG node `at` (its uses, i.e. the
    value before `at` itself writes): list of ast write nodes, and PARAM when
    the value at function entry (parameter / unbound) can reach."""
    cfg = cfg_of(fi)
    writes = _write_ids(fi, name)
    res = []
    allw = set(writes)
    if at == cfg.entry or at in cfg.reach({cfg.entry}, avoid=allw - {at}):
        res.append(PARAM)
    for nid, w in sorted(writes.items()):
        if at in cfg.reach({nid}, avoid=allw - {nid, at}):
            res.append(w)
    return res


def def_value(w, name):
    """What a write binds to `name`: ('expr', value) for `name = value` /
    annotated assignment / walrus, ('unpack', index, value) for
    `(a, name, ..) = value`, ('aug', node), ('iter', iterable, target) for a
    loop variable, ('other', node) otherwise."""
    if w == PARAM:
        return (PARAM,)
    if isinstance(w, ast.Assign):
        for t in w.targets:
            if isinstance(t, ast.Name) and t.id == name:
                return ("expr", w.value)
            if isinstance(t, (ast.Tuple, ast.List)):
                for i, e in enumerate(t.elts):
                    if isinstance(e, ast.Name) and e.id == name:
                        if isinstance(w.value, (ast.Tuple, ast.List)) and len(w.value.elts) == len(t.elts):
                            return ("expr", w.value.elts[i])
                        return ("unpack", i, w.value)
    if isinstance(w, ast.AnnAssign) and w.value is not None:
        return ("expr", w.value)
    if isinstance(w, ast.NamedExpr):
        return ("expr", w.value)
    if isinstance(w, ast.AugAssign):
        return ("aug", w)
    if isinstance(w, (ast.For, ast.AsyncFor)):
        return ("iter", w.iter, w.target)
    return ("other", w)


def unique_def_expr(fi, name, at):
    """The single expression bound to `name` at `at`, or None."""
    ds = reaching_defs(fi, name, at)
    if len(ds) != 1 or ds[0] == PARAM:
        return None
    v = def_value(ds[0], name)
    return v[1] if v[0] == "expr" else None


def resolve_at(fi, e, at, depth=4):
    """Follow Name -> its unique reaching definition at CFG node `at`."""
    while depth and isinstance(e, ast.Name):
        v = unique_def_expr(fi, e.id, at)
        if v is None:
            break
        e = v
        depth -= 1
    return e


def is_unwritten_param(fi, name):
    return name in params(fi, skip_self=False) + [a.arg for a in fi.node.args.kwonlyargs] and not writes_to_name(fi.node, name)


# ---------------------------------------------------------------------------
# branch sides


def pseudo_nodes(cfg):
    return [n for n in cfg.nodes if n.kind in ("T", "F") and cfg.is_reachable(n.id)]


def sibling(cfg, pseudo):
    """The other outcome of the test that `pseudo` is an outcome of."""
    tests = [p for p, lab in cfg.pred[pseudo] if lab in ("T", "F")]
    if len(tests) != 1:
        return None
    for d, lab in cfg.succ[tests[0]]:
        if lab in ("T", "F") and d != pseudo:
            return d
    return None


def side_rejects(cfg, pseudo):
    """No path from this branch outcome reaches the normal exit."""
    return cfg.exit not in cfg.reach({pseudo}, include_src=True)


def raises_from(cfg, pseudo):
    return [cfg.nodes[n].ast for n in sorted(cfg.reach({pseudo}, include_src=True)) if cfg.nodes[n].kind == "raise"]


def raised_class(prog, fi, raise_node):
    """Qualified class of `raise X(...)` / `raise X`, or None."""
    e = raise_node.exc
    if e is None:
        return None
    if isinstance(e, ast.Call):
        e = e.func
    txt = chain(e)
    if txt is None:
        return None
    return prog.resolve_in_module(fi.module, txt)


def enclosing_condition(cfg, node):
    """(terms, tests): the tests of the `if`/`while` statements enclosing
    `node`, negated for an else-arm, outermost first; `tests` are the raw
    test expressions.  Unlike the dominating branch outcomes this keeps
    disjunctions (`if a and not (b and c)`) intact."""
    terms, tests = [], []
    child, p = node, cfg.parent.get(id(node))
    while p is not None and not isinstance(p, (ast.FunctionDef, ast.AsyncFunctionDef, ast.Lambda)):
        if isinstance(p, ast.If):
            if any(child is s for s in p.body):
                terms.append(p.test)
                tests.append(p.test)
            elif any(child is s for s in p.orelse):
                terms.append(ast.UnaryOp(op=ast.Not(), operand=p.test))
                tests.append(p.test)
        elif isinstance(p, ast.While) and any(child is s for s in p.body):
            terms.append(p.test)
            tests.append(p.test)
        child, p = p, cfg.parent.get(id(p))
    return list(reversed(terms)), list(reversed(tests))


def flatten(e, op):
    """Operands of nested BoolOps of kind `op` (ast.And / ast.Or)."""
    if isinstance(e, ast.BoolOp) and isinstance(e.op, op):
        out = []
        for v in e.values:
            out.extend(flatten(v, op))
        return out
    return [e]


def plus_operands(e):
    """Operands of a left/right nested `+` chain, in order."""
    if isinstance(e, ast.BinOp) and isinstance(e.op, ast.Add):
        return plus_operands(e.left) + plus_operands(e.right)
    return [e]


# ---------------------------------------------------------------------------
# module-level constants across modules


def _split_module(prog, q):
    parts = q.split(".")
    for i in range(len(parts) - 1, 0, -1):
        mod = ".".join(parts[:i])
        if mod in prog.modules:
            return prog.modules[mod], parts[i:]
    return None, None


def const_in_module(prog, module, name):
    """(defining module, value expr) of a module-level name, following
    `from x import name` inside the package; None when not a package constant."""
    seen = set()
    while (module.name, name) not in seen:
        seen.add((module.name, name))
        found = None
        for st in module.tree.body:
            if isinstance(st, ast.Assign):
                for t in st.targets:
                    if isinstance(t, ast.Name) and t.id == name:
                        found = st.value
            elif isinstance(st, ast.AnnAssign) and isinstance(st.target, ast.Name) and st.target.id == name and st.value is not None:
                found = st.value
        if found is not None:
            return module, found
        if name in module.imports:
            m2, rest = _split_module(prog, prog.canonical(module.imports[name]))
            if m2 is None or len(rest) != 1:
                return None
            module, name = m2, rest[0]
            continue
        return None
    return None


def module_eval(prog, module, expr, _depth=0):
    """Constant-evaluate `expr` as written in `module`: names are followed
    through module-level assignments and package imports; the evaluation
    itself is norm.consteval (raises NormError outside its grammar)."""
    if _depth > 12:
        raise NormError("constant definitions nested too deeply")
    env = {}
    bound = set()
    for n in ast.walk(expr):
        if isinstance(n, ast.comprehension):
            for t in ast.walk(n.target):
                if isinstance(t, ast.Name):
                    bound.add(t.id)
    for n in ast.walk(expr):
        if isinstance(n, ast.Name) and n.id not in env and n.id not in bound:
            r = const_in_module(prog, module, n.id)
            if r is not None:
                env[n.id] = module_eval(prog, r[0], r[1], _depth + 1)
            elif n.id in module.imports and module.imports[n.id] != n.id:
                # alias of an external module: only the tabulated stdlib constants are known
                raise NormError("constant depends on aliased import %s" % n.id)
    return norm.consteval(expr, env)


def try_eval(prog, module, expr):
    try:
        return module_eval(prog, module, expr)
    except NormError:
        return None


# ---------------------------------------------------------------------------
# composition of URI components (shared by C16.c and C17.e)


def join_site(prog, fi, e):
    """Interpret `e` as the composition of a URI component from a sequence:
    returns (effective separator, leading, quote function name, iterated expr) for
      SEP.join(Q(x) for x in xs)            -> (SEP, False, Q, xs)
      "".join(SEP + Q(x) for x in xs)       -> (SEP, True,  Q, xs)
      SEP + SEP.join(Q(x) for x in xs)      -> (SEP, True,  Q, xs)
    optionally followed by `or <default>`."""
    if isinstance(e, ast.BoolOp) and isinstance(e.op, ast.Or):
        e = e.values[0]
    lead = None
    ops = plus_operands(e)
    if len(ops) == 2:
        lead = try_eval(prog, fi.module, ops[0])
        e = ops[1]
    m = match("$sep.join($elt for $x in $xs)", e) or match("$sep.join([$elt for $x in $xs])", e)
    if m is None or not isinstance(m["x"], ast.Name):
        return None
    sep = try_eval(prog, fi.module, m["sep"])
    eops = plus_operands(m["elt"])
    call = eops[-1]
    if not (isinstance(call, ast.Call) and isinstance(call.func, ast.Name) and len(call.args) == 1 and isinstance(call.args[0], ast.Name) and call.args[0].id == m["x"].id):
        return None
    if len(eops) == 2 and sep == "" and lead is None:
        pre = try_eval(prog, fi.module, eops[0])
        if isinstance(pre, str) and pre:
            return pre, True, call.func.id, m["xs"]
        return None
    if len(eops) == 1 and isinstance(sep, str) and lead in (None, sep):
        return sep, lead is not None, call.func.id, m["xs"]
    return None


def urlunparse_slots(fi):
    """{'path': expr, 'query': expr} as passed to urllib.parse.urlunparse / urlunsplit in get_request_uri, with the CFG node of the call."""
    cfg = cfg_of(fi)
    out = []
    for n in walk_no_nested(fi.node):
        if isinstance(n, ast.Call):
            nm = ext_name(fi.module, n)
            if nm in ("urllib.parse.urlunparse", "urllib.parse.urlunsplit") and len(n.args) == 1:
                t = resolve_at(fi, n.args[0], cfg.loc1(n))
                want = 6 if nm.endswith("urlunparse") else 5
                if isinstance(t, (ast.Tuple, ast.List)) and len(t.elts) == want:
                    out.append((n, {"path": t.elts[2], "query": t.elts[4 if want == 6 else 3]}))
    return out
