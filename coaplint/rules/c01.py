"""C01 CoAP datagram codec: lossless round trip, RFC 7252 section 3 format, total parsing."""

import ast

from ..rulekit import *
from ..norm import Normalizer, Poly, bitfields, consteval, interval_of, NormError
from ..exc import EscapeAnalysis

R = Rules(
    "C01",
    explanation=(
        "Structural clauses of the datagram codec: (a) exception-escape analysis of Message.decode over its resolved "
        "call closure (Options.decode, extended-field reader, option construction through the option-number -> format "
        "dispatch table, the five value decoders, Message.__init__) with handler filtering and call-site "
        "specialisation: the escape set must be a subset of {error.UnparsableMessage}; (b) the UDP transports catch "
        "exactly that class around Message.decode and return without dispatching; (c) writer and reader of the 4-byte "
        "header agree with RFC 7252 figure 7 as bit-field layouts; (d) the delta/length nibble codec's writer and "
        "reader are extracted as piecewise tables and compared with each other and with RFC 7252 section 3.1 "
        "(0..12 inline, 13 -> 1 byte +13, 14 -> 2 bytes +269, 15 reserved), including byte order and the option byte "
        "layout, delta accumulation and sorted emission; (e) per-format value codecs agree between encode and decode; "
        "(f) the option-number -> format registrations equal the registry table of RFC 7252/7959/7641/7967/8613/9175/8768. "
        "Value-level equality for all byte strings is not decided."
    ),
    rule_text="escape sets over the resolved call graph; bit-field and piecewise-table normal forms compared writer vs reader vs RFC reference",
)

ALLOWED = "aiocoap.error.UnparsableMessage"


def option_type_hints(prog):
    ot = [c for c in prog.subclasses("aiocoap.optiontypes.OptionType") if c != "aiocoap.optiontypes.OptionType"]
    # declared dynamic dispatch: the local bound from `self.format(self)` is an instance of a registered format class
    return {("numbers.optionnumbers.OptionNumber.create_option", "=self.format"): ot}, ot


def registered_formats(prog):
    """OptionNumber.X.set_format(optiontypes.Y) statements at module level -> {X: Y}"""
    mod = prog.module("numbers.optionnumbers")
    out = {}
    for st in mod.tree.body:
        if isinstance(st, ast.Expr):
            b = match("OptionNumber.$n.set_format($f)", st.value)
            if b is not None:
                out[b["n"]] = chain(b["f"]).split(".")[-1]
    return out


def fake(line):
    n = ast.Pass()
    n.lineno = line
    return n


def escape_clause(ctx, entry_short, what, extra_allowed=()):
    prog = ctx.prog
    hints, ot = option_type_hints(prog)
    # the dispatch table: every registered format must be one of the OptionType subclasses analysed
    regs = registered_formats(prog)
    ctx.floor("set_format registrations", len(regs), 25)
    otnames = {c.split(".")[-1] for c in ot}
    for name, fmt in regs.items():
        ctx.need(fmt in otnames, "format %s registered for %s is not an OptionType subclass of optiontypes.py" % (fmt, name))
    gf = prog.func("numbers.optionnumbers.OptionNumber._get_format")
    dflt = [n for n in walk_no_nested(gf.node) if isinstance(n, ast.Return) and n.value is not None and chain(n.value) and chain(n.value).split(".")[-1] in otnames]
    ctx.need(dflt, "default option format is not an OptionType subclass")
    EA = EscapeAnalysis(prog, hints)
    fi = prog.func(entry_short)
    es = EA.escapes(fi)
    funcs = {k[0] for k in EA.memo}
    ctx.extra.setdefault("escape_regions", {})[entry_short] = {
        "functions_in_closure": sorted(f[len("aiocoap."):] for f in funcs),
        "resolved_call_edges": EA.resolved_edges,
        "unresolved_calls": EA.unresolved,
        "external_calls": EA.external_calls,
        "implicit_raiser_sites": sorted(set(EA.implicit_sites)),
        "lemmas": EA.lemmas_used,
        "by_unique_name": sorted(set(EA.res.by_unique_name)),
        "escape_set": sorted(repr(e) for e in es),
    }
    ctx.floor("functions in the closure of %s" % entry_short, len(funcs), 9)
    ctx.need(not EA.unresolved, "unresolved calls inside the escape region of %s: %s" % (entry_short, EA.unresolved[:4]))
    explicit = [e for e in es if e.cls == ALLOWED]
    ctx.floor("explicit UnparsableMessage raise sites reaching %s" % entry_short, len(explicit), 4)
    allowed = {ALLOWED} | set(extra_allowed)
    bad = [e for e in es if not any(e.cls == a or prog.is_subclass(e.cls, a) for a in allowed)]
    for e in sorted(bad, key=repr):
        ofi = prog.funcs.get("aiocoap." + e.func)
        ctx.ob("%s: only error.UnparsableMessage may leave the parser" % what, False, ofi, fake(e.line), construct="%s: %s" % (e.cls, e.text),
               detail="escapes via %s" % " > ".join(e.via))
    if not bad:
        ctx.ob("%s: the escape set of %s is a subset of {UnparsableMessage} (%d raise sites, %d functions)" % (what, entry_short, len(es), len(funcs)), True, fi, fi.node, construct=entry_short)
    return es


@R.clause("C01.a", "parser totality: no exception other than error.UnparsableMessage leaves Message.decode")
def a(ctx):
    escape_clause(ctx, "message.Message.decode", "datagram parser")
    ci = ctx.prog.cls("error.UnparsableMessage")
    ctx.ob("UnparsableMessage is a library error", ctx.prog.is_subclass(ci.qn, "aiocoap.error.Error"), None, None, construct="class UnparsableMessage")


def decode_sites(prog, fi):
    return [c for c in calls_in(fi.node) if call_name(c) in ("Message.decode", "aiocoap.Message.decode", "message.Message.decode")]


def check_site(ctx, fi):
    cfg = cfg_of(fi)
    sites = decode_sites(ctx.prog, fi)
    ctx.floor("Message.decode call sites in %s" % fi.short, len(sites), 1)
    for c in sites:
        # enclosing try
        p = cfg.parent.get(id(c))
        tr = None
        child = c
        while p is not None:
            if isinstance(p, ast.Try) and any(child is s or contains(s, child) for s in p.body):
                tr = p
                break
            child = p
            p = cfg.parent.get(id(p))
        if tr is None:
            ctx.ob("the datagram parser is called inside a handler for UnparsableMessage", False, fi, c)
            continue
        hs = []
        for h in tr.handlers:
            types = [h.type] if h.type is not None and not isinstance(h.type, ast.Tuple) else (h.type.elts if h.type is not None else [])
            for t in types:
                q = ctx.prog.resolve_in_module(fi.module, chain(t) or "?")
                if q == ALLOWED or ctx.prog.is_subclass(ALLOWED, q):
                    hs.append(h)
            if h.type is None:
                hs.append(h)
        ctx.ob("the transport catches error.UnparsableMessage around the parser", bool(hs), fi, c)
        disp = [cfg.loc1(d) for d in calls_in(fi.node) if (call_name(d) or "").endswith(".dispatch_message")]
        ctx.ob("the parsed message is dispatched", bool(disp), fi, c)
        for h in hs:
            hn = [n.id for n in cfg.nodes if n.kind == "handler" and n.ast is h]
            for x in hn:
                r = cfg.reach({x}, skip_labels=("exc",))
                ctx.ob("an unparsable datagram is dropped: nothing is dispatched and no exception continues", not (set(disp) & r) and cfg.rexit not in cfg.reach({x}, skip_labels=("exc",)) and not any(cfg.nodes[y].kind == "raise" for y in r), fi, h,
                       construct="except %s" % (ast.unparse(h.type) if h.type is not None else ""))


@R.clause("C01.b", "the UDP transports drop exactly what the parser raises (UnparsableMessage) and dispatch nothing for it")
def b(ctx):
    for short in ("transports.udp6.MessageInterfaceUDP6.datagram_msg_received", "transports.generic_udp.GenericMessageInterface._received_datagram"):
        check_site(ctx, ctx.prog.func(short))


@R.clause("C01.b", "sibling sweep: every other Message.decode call site in the transports", tier="thorough")
def b_thorough(ctx):
    n = 0
    for fi in ctx.prog.funcs.values():
        if not fi.module.name.startswith("aiocoap.transports."):
            continue
        if fi.short in ("transports.udp6.MessageInterfaceUDP6.datagram_msg_received", "transports.generic_udp.GenericMessageInterface._received_datagram"):
            continue
        if decode_sites(ctx.prog, fi):
            n += 1
            check_site(ctx, fi)
    ctx.floor("sibling Message.decode call sites", n, 2)


def _appends(fi, name):
    """Ordered list of (expr, node) assigned/appended to local `name` (by dominance order)."""
    cfg = cfg_of(fi)
    items = []
    for w in writes_to_name(fi.node, name):
        nid = cfg.loc1(w)
        if isinstance(w, ast.Assign) and isinstance(w.value, ast.BinOp) and isinstance(w.value.op, ast.Add) and isinstance(w.value.left, ast.Name) and w.value.left.id == name:
            items.append((nid, "+=", w.value.right, w))
        elif isinstance(w, ast.Assign):
            items.append((nid, "=", w.value, w))
        elif isinstance(w, ast.AugAssign) and isinstance(w.op, ast.Add):
            items.append((nid, "+=", w.value, w))
        else:
            items.append((nid, "?", None, w))
    items.sort(key=lambda x: (len(cfg.dominators(x[0])), x[0]))
    return items


@R.clause("C01.c", "fixed header: writer layout = reader layout = RFC 7252 figure 7")
def c(ctx):
    enc = ctx.prog.func("message.Message.encode")
    dec = ctx.prog.func("message.Message.decode")
    ecfg = cfg_of(enc)
    rets = [n for n in walk_no_nested(enc.node) if isinstance(n, ast.Return) and n.value is not None]
    ctx.need(len(rets) == 1 and isinstance(rets[0].value, ast.Name), "Message.encode does not return a single accumulated local")
    acc = rets[0].value.id
    items = _appends(enc, acc)
    ctx.need(all(k in ("=", "+=") for _, k, _, _ in items) and items and items[0][1] == "=", "Message.encode: accumulator shape not understood")
    seq = [(nid, e, w) for nid, k, e, w in items]
    # 1. first byte
    first = seq[0][1]
    fb = match("bytes([$x])", first)
    ok = False
    layout = None
    if fb is not None:
        try:
            layout = sorted(bitfields(fb["x"], norm.local_env(enc.node)), key=lambda f: -f[3])
            ok = layout == [("self.version", 0, None, 6), ("self.mtype", 0, 2, 4), ("len(self.token)", 0, 4, 0)]
        except NormError:
            ok = False
    ctx.ob("first header byte is Ver(2 bits at 7..6) | T(2 bits at 5..4) | TKL(4 bits at 3..0)", ok, enc, seq[0][2], detail="layout %s" % layout)
    init = ctx.prog.func("message.Message.__init__")
    vs = [n for n in walk_no_nested(init.node) if isinstance(n, ast.Assign) and any(chain(t) == "self.version" for t in n.targets)]
    ctx.ob("the version written is the constant 1", len(vs) == 1 and isinstance(vs[0].value, ast.Constant) and vs[0].value.value == 1, init, vs[0] if vs else init.node)
    # 2. code + mid
    ok2 = len(seq) > 1 and match("struct.pack('!BH', self.code, self.mid)", seq[1][1]) is not None
    ctx.ob("bytes 1..3 are Code and Message ID in network byte order (struct '!BH')", ok2, enc, seq[1][2] if len(seq) > 1 else enc.node)
    # 3. token, options
    ok3 = len(seq) > 3 and chain(seq[2][1]) == "self.token" and match("self.opt.encode()", seq[3][1]) is not None
    ctx.ob("header is followed by the token, then the options", ok3, enc, seq[2][2] if len(seq) > 2 else enc.node)
    for nid, e, w in seq[:4]:
        ctx.ob("header, token and options are emitted unconditionally", not guard_exprs(ecfg, nid) or all("None" in ast.unparse(g) for g, _ in guard_exprs(ecfg, nid)), enc, w)
    # 4. payload marker iff payload non-empty
    tail = seq[4:]
    okm = len(tail) == 2 and match("bytes([255])", tail[0][1]) is not None and chain(tail[1][1]) == "self.payload"
    ctx.ob("the tail is the payload marker 0xFF followed by the payload", okm, enc, tail[0][2] if tail else enc.node)
    N = Normalizer()
    want = ("lt", Poly.const(0) - Poly.atom("len(self.payload)"))
    for nid, e, w in tail:
        facts = cmp_guard_nf(ecfg, nid, N)
        truthy = guarded_by(ecfg, nid, "self.payload", True)
        ctx.ob("marker and payload are emitted iff the payload is non-empty", want in facts or truthy, enc, w, detail="guards %s" % sorted(map(repr, facts)))
    # reader
    un = list(find("struct.unpack('!BBH', $r[:4])", dec.node))
    ctx.ob("the reader unpacks the first four bytes as '!BBH'", len(un) == 1 and isinstance(un[0][1]["r"], ast.Name) and un[0][1]["r"].id == params(dec)[0], dec, un[0][0] if un else dec.node)
    if un:
        raw = params(dec)[0]
        asg = cfg_of(dec).parent.get(id(un[0][0]))
        names = [e.id for e in asg.targets[0].elts] if isinstance(asg, ast.Assign) and isinstance(asg.targets[0], ast.Tuple) and all(isinstance(e, ast.Name) for e in asg.targets[0].elts) else None
        ctx.need(names and len(names) == 3, "reader: unpack target shape")
        b0, codev, midv = names
        env = norm.local_env(dec.node)

        def field(e):
            try:
                return bitfields(e, env)
            except NormError:
                return None
        # version check
        vchk = [r for r in walk_no_nested(dec.node) if isinstance(r, ast.Raise)]
        dcfg = cfg_of(dec)
        vok = False
        for r in vchk:
            for g, pol in guard_exprs(dcfg, dcfg.loc1(r)):
                if isinstance(g, ast.Compare) and len(g.ops) == 1 and isinstance(g.ops[0], (ast.NotEq, ast.Eq)) and isinstance(g.comparators[0], ast.Constant) and g.comparators[0].value == 1:
                    if field(g.left) == [(b0, 6, 2, 0)] and (pol == isinstance(g.ops[0], ast.NotEq)):
                        vok = True
        ctx.ob("the reader rejects a version field (bits 7..6) different from 1", vok, dec, dec.node, construct="version check in Message.decode")
        # mtype / tkl / token / options
        stores = {}
        for n in walk_no_nested(dec.node):
            if isinstance(n, ast.Assign) and len(n.targets) == 1 and isinstance(n.targets[0], ast.Attribute) and isinstance(n.targets[0].value, ast.Name):
                stores[n.targets[0].attr] = n
        mt = stores.get("mtype")
        okt = False
        if mt is not None:
            tb = match("Type($x)", mt.value)
            okt = tb is not None and field(tb["x"]) == [(b0, 4, 2, 0)]
        ctx.ob("the reader takes the type from bits 5..4", okt, dec, mt if mt is not None else dec.node)
        tk = stores.get("token")
        okk = False
        tkl_expr = None
        if tk is not None:
            sb = match("%s[4:$hi]" % raw, tk.value)
            if sb is not None:
                mb = match("4 + $t", sb["hi"]) or match("$t + 4", sb["hi"])
                if mb is not None and field(mb["t"]) == [(b0, 0, 4, 0)]:
                    okk = True
                    tkl_expr = mb["t"]
        ctx.ob("the reader takes TKL from bits 3..0 and the token from bytes 4..4+TKL", okk, dec, tk if tk is not None else dec.node)
        pl = stores.get("payload")
        oko = False
        if pl is not None and tkl_expr is not None:
            ob = match("$m.opt.decode(%s[$lo:])" % raw, pl.value)
            if ob is not None:
                mb = match("4 + $t", ob["lo"]) or match("$t + 4", ob["lo"])
                oko = mb is not None and same(mb["t"], tkl_expr)
        ctx.ob("options and payload are parsed from the bytes after the token", oko, dec, pl if pl is not None else dec.node)
        ctor = [cc for cc in calls_in(dec.node) if (call_name(cc) or "") in ("Message", "cls")]
        okc = any(any(k.arg == "code" and isinstance(k.value, ast.Name) and k.value.id == codev for k in cc.keywords) for cc in ctor)
        ctx.ob("the code byte becomes the message code", okc, dec, ctor[0] if ctor else dec.node)
        md = stores.get("mid")
        ctx.ob("the 16-bit field becomes the message ID", md is not None and isinstance(md.value, ast.Name) and md.value.id == midv, dec, md if md is not None else dec.node)


RFC_NIBBLE = [  # RFC 7252 section 3.1: (lo, hi, nibble, extension bytes, offset)
    (0, 12, None, 0, 0),
    (13, 268, 13, 1, 13),
    (269, 65804, 14, 2, 269),
]


def returns_with_intervals(fi, var):
    """[(return node, (lo, hi)) ] where the interval is the set of `var` values
    for which this return is reached (conjunction of dominating guards that
    mention only var and constants)."""
    cfg = cfg_of(fi)
    N = Normalizer()
    out = []
    for r in [n for n in walk_no_nested(fi.node) if isinstance(n, (ast.Return, ast.Raise))]:
        nid = cfg.loc1(r)
        conj = []
        for e, pol in guard_exprs(cfg, nid):
            try:
                cnf = N.cmp(e)
            except NormError:
                return None
            conj.append(cnf if pol else N.negate(cnf))
        # eq negations ('ne') cannot be intervals: evaluate by enumeration for small sets
        iv = interval_of([c for c in conj if c[0] in ("lt", "eq") and isinstance(c[1], Poly) and c[1].atoms() <= {var}], var)
        nes = [c for c in conj if c[0] == "ne"]
        out.append((r, iv, nes, conj))
    return out


@R.clause("C01.d", "option delta/length nibble codec: writer table = reader table = RFC 7252 section 3.1")
def d(ctx):
    wf = ctx.prog.func("options._write_extended_field_value")
    rf = ctx.prog.func("options._read_extended_field_value")
    wv = params(wf)[0]
    rv, rraw = params(rf)[0], params(rf)[1]
    # ---- writer arms
    warms = []
    rows = returns_with_intervals(wf, wv)
    ctx.need(rows is not None, "writer guards not interpretable")
    for r, iv, nes, conj in rows:
        if isinstance(r, ast.Raise):
            continue
        tb = match("($n, $ext)", r.value)
        ctx.need(tb is not None and iv is not None and not nes, "writer arm is not `return (nibble, extension)` under an interval guard")
        if isinstance(tb["ext"], ast.Constant) and tb["ext"].value == b"":
            nib = "inline" if isinstance(tb["n"], ast.Name) and tb["n"].id == wv else consteval(tb["n"])
            warms.append((r, iv, nib, 0, 0, None))
        else:
            eb = match("($x).to_bytes($w, $order)", tb["ext"])
            ctx.need(eb is not None, "writer extension is not (value - offset).to_bytes(width, order)")
            p = Normalizer().poly(eb["x"])
            off = -(p - Poly.atom(wv)).const_value() if (p - Poly.atom(wv)).is_const() else None
            warms.append((r, iv, consteval(tb["n"]), consteval(eb["w"]), off, consteval(eb["order"])))
    ctx.floor("writer arms", len(warms), 3)
    warms.sort(key=lambda a: a[1][0])
    for (r, iv, nib, w, off, order), ref in zip(warms, RFC_NIBBLE):
        lo, hi, rn, rw, roff = ref
        ctx.ob("writer arm for values %d..%d covers exactly that range" % (lo, hi), (iv[0], iv[1]) == (lo, hi), wf, r,
               construct="_write_extended_field_value arm nibble %s" % (rn if rn is not None else "inline"), detail="covers %s..%s, RFC 7252 section 3.1 says %d..%d" % (iv[0], iv[1], lo, hi))
        ctx.ob("writer arm %d..%d uses nibble %s, %d extension byte(s), offset %d" % (lo, hi, rn if rn is not None else "=value", rw, roff),
               (nib == (rn if rn is not None else "inline")) and w == rw and (off == roff or rw == 0), wf, r,
               construct="_write_extended_field_value arm nibble %s encoding" % (rn if rn is not None else "inline"), detail="nibble %s width %s offset %s" % (nib, w, off))
        if rw:
            ctx.ob("extension is big endian", order == "big", wf, r, construct="_write_extended_field_value arm nibble %s byte order" % rn)
    ctx.ob("writer has exactly the three RFC arms", len(warms) == 3, wf, wf.node, construct="def _write_extended_field_value")
    # values outside the table raise
    raises_w = [r for r, iv, nes, conj in rows if isinstance(r, ast.Raise)]
    ctx.ob("values outside the table are refused by the writer", bool(raises_w), wf, wf.node, construct="def _write_extended_field_value: out of range")
    # ---- reader arms
    rrows = returns_with_intervals(rf, rv)
    ctx.need(rrows is not None, "reader guards not interpretable")
    rarms = {}
    for r, iv, nes, conj in rrows:
        if isinstance(r, ast.Raise) or iv is None:
            continue
        tb = match("($val, $rest)", r.value)
        ctx.need(tb is not None, "reader arm is not `return (value, rest)`")
        if isinstance(tb["val"], ast.Name) and tb["val"].id == rv:
            rarms[(iv[0], iv[1])] = (r, 0, 0, None, tb["rest"])
            continue
        p = None
        width = None
        order = None
        off = None
        val = tb["val"]
        ob = match("$a + $k", val)
        base = val
        if ob is not None:
            try:
                off = consteval(ob["k"])
                base = ob["a"]
            except NormError:
                try:
                    off = consteval(ob["a"])
                    base = ob["k"]
                except NormError:
                    off = None
        if match("%s[0]" % rraw, base) is not None:
            width, order = 1, "big"
        else:
            fb = match("int.from_bytes(%s[:$w], $order)" % rraw, base)
            if fb is not None:
                width, order = consteval(fb["w"]), consteval(fb["order"])
        rarms[(iv[0], iv[1])] = (r, width, off, order, tb["rest"])
    ctx.floor("reader arms", len(rarms), 3)
    inline = [k for k in rarms if rarms[k][1] == 0]
    ctx.ob("reader returns nibbles 0..12 unchanged", inline == [(0, 12)], rf, rarms[inline[0]][0] if inline else rf.node, construct="_read_extended_field_value inline arm", detail=str(inline))
    for lo, hi, rn, rw, roff in RFC_NIBBLE[1:]:
        arm = rarms.get((rn, rn))
        ok = arm is not None and arm[1] == rw and arm[2] == roff and arm[3] == "big"
        ctx.ob("reader arm for nibble %d reads %d byte(s) big endian and adds %d" % (rn, rw, roff), ok, rf, arm[0] if arm else rf.node,
               construct="_read_extended_field_value arm nibble %d" % rn, detail=str(arm[1:4]) if arm else "missing")
        if arm is not None:
            sb = match("%s[$k:]" % rraw, arm[4])
            okr = sb is not None and consteval(sb["k"]) == rw
            ctx.ob("reader arm for nibble %d consumes exactly %d byte(s)" % (rn, rw), okr, rf, arm[0], construct="_read_extended_field_value arm nibble %d rest" % rn)
            # truncation guard
            rcfg = cfg_of(rf)
            Nn = Normalizer()
            want = Nn.negate(("lt", Poly.atom("len(%s)" % rraw) - Poly.const(rw)))
            facts = cmp_guard_nf(rcfg, rcfg.loc1(arm[0]), Nn)
            ctx.ob("reader arm for nibble %d is reached only with at least %d byte(s) left (otherwise UnparsableMessage)" % (rn, rw), want in facts, rf, arm[0],
                   construct="_read_extended_field_value arm nibble %d length guard" % rn)
    # nibble 15 raises
    r15 = [r for r, iv, nes, conj in rrows if isinstance(r, ast.Raise) and not guard_has_len(conj)]
    ctx.ob("nibble 15 is a format error", bool(r15), rf, rf.node, construct="_read_extended_field_value nibble 15")
    # writer/reader agreement on the maximum: reader reach = 269 + 65535
    # ---- Options.encode / decode
    enc = ctx.prog.func("options.Options.encode")
    dec = ctx.prog.func("options.Options.decode")
    env = norm.local_env(enc.node)
    ob_ = [c for c, b in find("bytes([$x])", enc.node)]
    okb = False
    lay = None
    dl = ln = None
    for c in ob_:
        try:
            lay = sorted(bitfields(c.args[0].elts[0]), key=lambda f: -f[3])
        except NormError:
            continue
        if len(lay) == 2 and lay[0][1:] == (0, 4, 4) and lay[1][1:] == (0, 4, 0):
            okb = True
            dl, ln = lay[0][0], lay[1][0]
    ctx.ob("option byte is delta nibble (bits 7..4) | length nibble (bits 3..0)", okb, enc, ob_[0] if ob_ else enc.node, detail=str(lay))
    if okb:
        # dl and ln come from _write_extended_field_value(number - previous) and (len(optiondata))
        calls = {}
        for n in walk_no_nested(enc.node):
            if isinstance(n, ast.Assign) and isinstance(n.targets[0], ast.Tuple) and len(n.targets[0].elts) == 2 and match("_write_extended_field_value($v)", n.value) is not None:
                calls[n.targets[0].elts[0].id] = (n, n.targets[0].elts[1].id, n.value.args[0])
        okd = dl in calls and ln in calls
        ctx.ob("both nibbles come from the extended-field writer", okd, enc, enc.node, construct="Options.encode nibble sources")
        if okd:
            dnode, dext, dval = calls[dl]
            lnode, lext, lval = calls[ln]
            loopvar = None
            for n in walk_no_nested(enc.node):
                if isinstance(n, ast.For) and isinstance(n.target, ast.Name):
                    loopvar = n.target.id
                    loop = n
            db = match("%s.number - $prev" % loopvar, dval) if loopvar else None
            prev_ok = False
            if db is not None and isinstance(db["prev"], ast.Name):
                ws = writes_to_name(enc.node, db["prev"].id)
                prev_ok = any(isinstance(w, ast.Assign) and chain(w.value) == loopvar + ".number" and contains(loop, w) for w in ws) and \
                    any(isinstance(w, ast.Assign) and isinstance(w.value, ast.Constant) and w.value.value == 0 and not contains(loop, w) for w in ws)
            ctx.ob("the delta is the option number minus the previous option number (starting from 0)", db is not None and prev_ok, enc, dnode)
            lb = match("len($d)", lval)
            okl = lb is not None and isinstance(lb["d"], ast.Name) and match("%s.encode()" % loopvar, resolve_local(enc.node, lb["d"])) is not None
            ctx.ob("the length is the length of the encoded option value", okl, enc, lnode)
            # emission order: byte, ext delta, ext length, value
            ecfg = cfg_of(enc)
            apps = [(ecfg.loc1(c), b["x"]) for c, b in find("$l.append($x)", enc.node)]
            apps.sort()
            order = [chain(x) if chain(x) else ("byte" if match("bytes([$y])", x) is not None else "?") for _, x in apps]
            want = ["byte", dext, lext, lb["d"].id if okl else "?"]
            ctx.ob("per option the writer emits: option byte, extended delta, extended length, value", order == want, enc, enc.node, construct="Options.encode emission order", detail="%s" % order)
            ctx.ob("options are emitted in the order of option_list()", match("self.option_list()", loop.iter) is not None, enc, loop, construct="for option in self.option_list()")
    ol = ctx.prog.func("options.Options.option_list")
    srt = [c for c in calls_in(ol.node) if call_name(c) == "sorted"]
    oks = False
    for c in srt:
        key = next((k.value for k in c.keywords if k.arg == "key"), None)
        if match("self._options.values()", c.args[0]) is not None and isinstance(key, ast.Lambda) and match("$x[0].number", key.body) is not None:
            oks = True
        if match("self._options.items()", c.args[0]) is not None or match("self._options", c.args[0]) is not None:
            oks = oks or key is None
    ctx.ob("option_list yields options sorted by option number (non-negative deltas), same-number options in insertion order", oks, ol, srt[0] if srt else ol.node)
    # reader
    dcfg = cfg_of(dec)
    raw = params(dec)[0]
    denv = {}
    for n in walk_no_nested(dec.node):
        if isinstance(n, ast.Assign) and len(n.targets) == 1 and isinstance(n.targets[0], ast.Name):
            denv.setdefault(n.targets[0].id, []).append(n)
    rd = []
    for n in walk_no_nested(dec.node):
        if isinstance(n, ast.Assign) and isinstance(n.targets[0], ast.Tuple) and match("_read_extended_field_value($v, $r)", n.value) is not None:
            rd.append(n)
    ctx.ob("the reader resolves two extended fields per option", len(rd) == 2, dec, rd[0] if rd else dec.node)
    if len(rd) == 2:
        rd.sort(key=lambda n: dcfg.loc1(n))
        first, second = rd
        fv, sv = first.value.args[0], second.value.args[0]

        def nib_of(e):
            v = e
            if isinstance(e, ast.Name):
                cands = [w for w in denv.get(e.id, []) if not isinstance(w.targets[0], ast.Tuple)]
                if len(cands) == 1:
                    v = cands[0].value
            try:
                return bitfields(v, {k: ws[0].value for k, ws in denv.items() if len(ws) == 1})
            except NormError:
                return None
        f1, f2 = nib_of(fv), nib_of(sv)
        okf = f1 is not None and f2 is not None and len(f1) == 1 and len(f2) == 1 and f1[0][1:] == (4, 4, 0) and f2[0][1:] == (0, 4, 0) and f1[0][0] == f2[0][0]
        ctx.ob("the reader resolves the delta nibble (bits 7..4) first, then the length nibble (bits 3..0), as written", okf, dec, first, detail="%s then %s" % (f1, f2))
        dname = first.targets[0].elts[0].id
        lname = second.targets[0].elts[0].id
        acc = [n for n in walk_no_nested(dec.node) if isinstance(n, ast.AugAssign) and isinstance(n.op, ast.Add) and isinstance(n.value, ast.Name) and n.value.id == dname]
        acc += [n for n in walk_no_nested(dec.node) if isinstance(n, ast.Assign) and isinstance(n.value, ast.BinOp) and isinstance(n.value.op, ast.Add) and dname in names_in(n.value) and chain(n.targets[0]) in names_in(n.value)]
        ctx.ob("the reader accumulates deltas into the option number", len(acc) == 1, dec, acc[0] if acc else dec.node)
        co = [c for c in calls_in(dec.node) if isinstance(c.func, ast.Attribute) and c.func.attr == "create_option"]
        okv = False
        for c in co:
            kw = next((k.value for k in c.keywords if k.arg == "decode"), None)
            if kw is not None and match("%s[:%s]" % (raw, lname), kw) is not None and acc and chain(c.func.value) == chain(acc[0].target if isinstance(acc[0], ast.AugAssign) else acc[0].targets[0]):
                okv = True
        ctx.ob("the option value is the next `length` bytes, decoded by the accumulated option number's format", okv, dec, co[0] if co else dec.node)
        adv = [n for n in walk_no_nested(dec.node) if isinstance(n, ast.Assign) and chain(n.targets[0]) == raw and match("%s[%s:]" % (raw, lname), n.value) is not None]
        ctx.ob("the reader advances by exactly `length` bytes", len(adv) == 1, dec, adv[0] if adv else dec.node)
        pm = [n for n in walk_no_nested(dec.node) if isinstance(n, ast.Return) and match("%s[1:]" % raw, n.value) is not None]
        okp = any(guarded_by(dcfg, dcfg.loc1(r), "%s[0] == 255" % raw, True) for r in pm)
        ctx.ob("a 0xFF byte at an option boundary ends the options; the payload is everything after it", okp, dec, pm[0] if pm else dec.node)


def guard_has_len(conj):
    return any(c[0] == "lt" and any(a.startswith("len(") for a in c[1].atoms()) for c in conj)


@R.clause("C01.e", "per-format value codecs: encode and decode of each OptionType agree")
def e(ctx):
    tm = ctx.prog.func("optiontypes._to_minimum_bytes")
    v = params(tm, skip_self=False)[0]
    rets = [n for n in walk_no_nested(tm.node) if isinstance(n, ast.Return)]
    ok = False
    if len(rets) == 1:
        b = match("%s.to_bytes($n, 'big')" % v, rets[0].value)
        if b is not None:
            mb = match("($x + 7) // 8", b["n"])
            ok = mb is not None and match("%s.bit_length()" % v, mb["x"]) is not None
    ctx.ob("_to_minimum_bytes is the minimal big-endian rendering (ceil(bit_length/8) bytes)", ok, tm, rets[0] if rets else tm.node)

    def single(fi, pat):
        for n in walk_no_nested(fi.node):
            if isinstance(n, (ast.Assign, ast.Return)) and n.value is not None:
                b = match(pat, n.value)
                if b is not None:
                    return n, b
        return None, None
    so_e = ctx.prog.func("optiontypes.StringOption.encode")
    so_d = ctx.prog.func("optiontypes.StringOption.decode")
    ne, be = single(so_e, "self.value.encode($c)")
    nd, bd = single(so_d, "$r.decode($c)")
    okc = be is not None and bd is not None and same(be["c"], bd["c"]) and isinstance(be["c"], ast.Constant) and be["c"].value.lower().replace("-", "") == "utf8"
    ctx.ob("String options are UTF-8 in both directions", okc and isinstance(nd, ast.Assign) and chain(nd.targets[0]) == "self.value", so_e, ne if ne is not None else so_e.node)
    oo_e = ctx.prog.func("optiontypes.OpaqueOption.encode")
    oo_d = ctx.prog.func("optiontypes.OpaqueOption.decode")
    re_ = [n for n in walk_no_nested(oo_e.node) if isinstance(n, ast.Return)]
    oke = len(re_) == 1 and chain(resolve_local(oo_e.node, re_[0].value)) == "self.value"
    rd_ = [n for n in walk_no_nested(oo_d.node) if isinstance(n, ast.Assign) and chain(n.targets[0]) == "self.value"]
    okd = len(rd_) == 1 and isinstance(rd_[0].value, ast.Name) and rd_[0].value.id == params(oo_d)[0]
    ctx.ob("Opaque options are the identity in both directions", oke and okd, oo_e, re_[0] if re_ else oo_e.node)
    for cls, tgt in (("UintOption", "self.value"), ("ContentFormatOption", "self._value")):
        fe = ctx.prog.func("optiontypes.%s.encode" % cls)
        fd = ctx.prog.func("optiontypes.%s.decode" % cls)
        ne, be = single(fe, "_to_minimum_bytes(int(self.value))")
        raw = params(fd)[0]
        okd = False
        for n in walk_no_nested(fd.node):
            if isinstance(n, ast.Assign) and chain(n.targets[0]) == tgt:
                val = resolve_local(fd.node, n.value)
                inner = val
                cb = match("ContentFormat($x)", val)
                if cb is not None:
                    inner = resolve_local(fd.node, cb["x"])
                if match("int.from_bytes(%s, 'big')" % raw, inner) is not None:
                    okd = True
        ctx.ob("%s: minimal big-endian unsigned integer in both directions" % cls, be is not None and okd, fe, ne if ne is not None else fe.node)
    be_ = ctx.prog.func("optiontypes.BlockOption.encode")
    bd_ = ctx.prog.func("optiontypes.BlockOption.decode")
    ne, b1 = single(be_, "_to_minimum_bytes($x)")
    okw = False
    lay = None
    if b1 is not None:
        try:
            lay = sorted(bitfields(b1["x"], norm.local_env(be_.node)), key=lambda f: -f[3])
            okw = [(f[0], f[3]) for f in lay] == [("self.value.block_number", 4), ("self.value.more", 3), ("self.value.size_exponent", 0)]
        except NormError:
            pass
    ctx.ob("Block option writer: NUM << 4 | M << 3 | SZX (RFC 7959 section 2.2)", okw, be_, ne if ne is not None else be_.node, detail=str(lay))
    raw = params(bd_)[0]
    okr = False
    rl = {}
    for n in walk_no_nested(bd_.node):
        if isinstance(n, ast.Call) and (call_name(n) or "").endswith("BlockwiseTuple"):
            env = norm.local_env(bd_.node)
            src = None
            for k in n.keywords:
                try:
                    v_ = k.value
                    if isinstance(v_, ast.Call) and chain(v_.func) == "bool":
                        f = bitfields(v_.args[0], env)
                    else:
                        f = bitfields(v_, env)
                    rl[k.arg] = f
                except NormError:
                    rl[k.arg] = None
            if len(n.args) == 3:
                for name, a_ in zip(("block_number", "more", "size_exponent"), n.args):
                    try:
                        rl[name] = bitfields(a_.args[0] if isinstance(a_, ast.Call) and chain(a_.func) == "bool" else a_, env)
                    except NormError:
                        rl[name] = None
    try:
        okr = rl.get("block_number") and rl["block_number"][0][1:] == (4, None, 0) and rl["more"][0][1:] == (3, 1, 3) and rl["size_exponent"][0][1:] == (0, 3, 0) and \
            len({rl[k][0][0] for k in rl}) == 1
    except (TypeError, IndexError, KeyError):
        okr = False
    ctx.ob("Block option reader: NUM = value >> 4, M = bit 3, SZX = bits 2..0", bool(okr), bd_, bd_.node, construct="BlockOption.decode layout", detail=str(rl))
    src_ok = any(isinstance(n, ast.Assign) and match("int.from_bytes(%s, 'big')" % raw, n.value) is not None for n in walk_no_nested(bd_.node))
    ctx.ob("Block option reader interprets the value as big-endian unsigned integer", src_ok, bd_, bd_.node, construct="BlockOption.decode source")


RFC_FORMATS = {  # option name: (number, format class family)
    "IF_MATCH": (1, "OpaqueOption"), "URI_HOST": (3, "StringOption"), "ETAG": (4, "OpaqueOption"), "IF_NONE_MATCH": (5, "OpaqueOption"),
    "OBSERVE": (6, "UintOption"), "URI_PORT": (7, "UintOption"), "LOCATION_PATH": (8, "StringOption"), "OSCORE": (9, "OpaqueOption"),
    "URI_PATH": (11, "StringOption"), "CONTENT_FORMAT": (12, "ContentFormatOption"), "MAX_AGE": (14, "UintOption"), "URI_QUERY": (15, "StringOption"),
    "HOP_LIMIT": (16, "UintOption"), "ACCEPT": (17, "ContentFormatOption"), "LOCATION_QUERY": (20, "StringOption"), "BLOCK2": (23, "BlockOption"),
    "BLOCK1": (27, "BlockOption"), "SIZE2": (28, "UintOption"), "PROXY_URI": (35, "StringOption"), "PROXY_SCHEME": (39, "StringOption"),
    "SIZE1": (60, "UintOption"), "ECHO": (252, "OpaqueOption"), "NO_RESPONSE": (258, "UintOption"), "REQUEST_TAG": (292, "OpaqueOption"),
}


@R.clause("C01.f", "option number -> format registrations equal the RFC registry table")
def f(ctx):
    regs = registered_formats(ctx.prog)
    ci = ctx.prog.cls("numbers.optionnumbers.OptionNumber")
    mod = ctx.prog.module("numbers.optionnumbers")
    gf = ctx.prog.func("numbers.optionnumbers.OptionNumber._get_format")
    default = None
    for n in walk_no_nested(gf.node):
        if isinstance(n, ast.Return) and chain(n.value) and chain(n.value).startswith("optiontypes."):
            default = chain(n.value).split(".")[-1]
    n_ok = 0
    for name, (num, fmt) in sorted(RFC_FORMATS.items(), key=lambda kv: kv[1][0]):
        try:
            val = consteval(ci.attrs[name]) if name in ci.attrs else None
        except NormError:
            val = None
        ctx.ob("OptionNumber.%s == %d" % (name, num), val == num, None, None, construct="OptionNumber.%s" % name, detail="value %r" % val)
        got = regs.get(name, default)
        ctx.ob("option %s (%d) is serialised as %s" % (name, num, fmt), got == fmt, None, None, construct="OptionNumber.%s format" % name, detail="registered %s" % got)
        n_ok += 1
    ctx.floor("registry rows", n_ok, 24)
    ctx.ob("unregistered option numbers are opaque", default == "OpaqueOption", gf, gf.node, construct="OptionNumber._get_format default")
    extra = sorted(set(regs) - set(RFC_FORMATS))
    if extra:
        ctx.note("registrations outside the RFC table (information only): %s" % ", ".join("%s=%s" % (k, regs[k]) for k in extra))


@R.clause("C01.g", "option numbers the library has no name for keep their identity: every number created on demand is entered into the enum's member table, so a format registered for it is found again")
def g_dynamic_members(ctx):
    """The codec finds an option's format through OptionNumber(n).format, an attribute of the *member object*.  Unknown
    numbers are created by ExtensibleIntEnum._missing_, which must enter the new member into _value2member_map_
    unconditionally; an independently written breaking change stopped doing so once the table held 1024 entries, and
    formats registered for later numbers (set_format) no longer applied: the same bytes decoded to another value."""
    fi = ctx.prog.func("util.ExtensibleIntEnum._missing_")
    cfg = cfg_of(fi)
    p = params(fi)  # (value,) -- cls is skipped
    stores = [n for n in walk_no_nested(fi.node) if isinstance(n, ast.Assign) and isinstance(n.targets[0], ast.Subscript) and (chain(n.targets[0].value) or "").endswith("._value2member_map_")]
    rets = [n for n in walk_no_nested(fi.node) if isinstance(n, ast.Return) and n.value is not None]
    ok = len(stores) == 1 and len(rets) >= 1
    if ok:
        st = stores[0]
        ok = isinstance(st.value, ast.Name) and all(isinstance(r.value, ast.Name) and r.value.id == st.value.id for r in rets) and \
            isinstance(st.targets[0].slice, ast.Name) and st.targets[0].slice.id == p[-1] and not guard_exprs(cfg, cfg.loc1(st)) and cfg.must_pass(cfg.entry, [cfg.loc1(st)])
    ctx.ob("_missing_ registers the member it returns under its value, unconditionally", ok, fi, stores[0] if stores else fi.node,
           construct=stmt_text(stores[0]) if stores else "ExtensibleIntEnum._missing_: registration")
    sf = ctx.prog.func("numbers.optionnumbers.OptionNumber.set_format")
    gf = ctx.prog.func("numbers.optionnumbers.OptionNumber._get_format")
    w = [n for n in walk_no_nested(sf.node) if isinstance(n, ast.Assign) and any(chain(t) == "self._format" for t in n.targets)]
    r = [n for n in walk_no_nested(gf.node) if isinstance(n, ast.Return) and chain(n.value) == "self._format"]
    ctx.ob("the format is stored on and read from the member object (self._format)", len(w) == 1 and len(r) == 1 and isinstance(w[0].value, ast.Name) and w[0].value.id == params(sf)[0], sf, w[0] if w else sf.node)


F_M = "aiocoap/message.py"
F_O = "aiocoap/options.py"
F_T = "aiocoap/optiontypes.py"
R.seed("C01.a", F_M, "        except struct.error:\n            raise error.UnparsableMessage(\"Incoming message too short for CoAP\")", "        except KeyError:\n            raise error.UnparsableMessage(\"Incoming message too short for CoAP\")", "struct.error escapes")
R.seed("C01.a", F_O, "            if len(rawdata) < length:\n                raise UnparsableMessage(\"Option announced but absent\")", "            if len(rawdata) < length:\n                raise ValueError(\"Option announced but absent\")", "ValueError for truncated option")
R.seed("C01.a", F_O, "        if len(rawdata) < 1:\n            raise UnparsableMessage(\"Option ended prematurely\")\n", "", "IndexError on truncated extended delta")
R.seed("C01.b", "aiocoap/transports/udp6.py", "        except error.UnparsableMessage:\n            self.log.warning(\"Ignoring unparsable message from %s\", address)\n            return", "        except error.UnparsableMessage:\n            self.log.warning(\"Ignoring unparsable message from %s\", address)\n            raise", "unparsable datagram raises into the loop")
R.seed("C01.b", "aiocoap/transports/generic_udp.py", "        except error.UnparsableMessage:", "        except error.BadRequest:", "wrong class caught")
R.seed("C01.c", F_M, "                + ((self.mtype & 0x03) << 4)", "                + ((self.mtype & 0x03) << 5)", "type field shifted")
R.seed("C01.c", F_M, "        mtype = (vttkl & 0x30) >> 4", "        mtype = (vttkl & 0x60) >> 5", "reader takes the type from other bits")
R.seed("C01.c", F_M, "        rawdata += struct.pack(\"!BH\", self.code, self.mid)", "        rawdata += struct.pack(\"<BH\", self.code, self.mid)", "little endian mid")
R.seed("C01.c", F_M, "        if len(self.payload) > 0:\n            rawdata += bytes([0xFF])", "        if len(self.payload) >= 0:\n            rawdata += bytes([0xFF])", "marker without payload")
R.seed("C01.c", F_M, "        msg.token = rawdata[4 : 4 + token_length]", "        msg.token = rawdata[4 : 3 + token_length]", "token one byte short")
R.seed("C01.d", F_O, "    elif value >= 13 and value < 269:\n        return (13, (value - 13).to_bytes(1, \"big\"))", "    elif value >= 13 and value < 268:\n        return (13, (value - 13).to_bytes(1, \"big\"))", "writer boundary 268")
R.seed("C01.d", F_O, "        return (14, (value - 269).to_bytes(2, \"big\"))", "        return (14, (value - 268).to_bytes(2, \"big\"))", "writer offset 268")
R.seed("C01.d", F_O, "        return (int.from_bytes(rawdata[:2], \"big\") + 269, rawdata[2:])", "        return (int.from_bytes(rawdata[:2], \"little\") + 269, rawdata[2:])", "reader little endian")
R.seed("C01.d", F_O, "        return (rawdata[0] + 13, rawdata[1:])", "        return (rawdata[0] + 12, rawdata[1:])", "reader offset 12")
R.seed("C01.d", F_O, "            data.append(extended_delta)\n            data.append(extended_length)", "            data.append(extended_length)\n            data.append(extended_delta)", "extensions swapped")
R.seed("C01.d", F_O, "            sorted(self._options.values(), key=lambda x: x[0].number)", "            list(self._options.values())", "options not sorted")
R.seed("C01.d", F_O, "            delta = (dllen & 0xF0) >> 4\n            length = dllen & 0x0F", "            delta = dllen & 0x0F\n            length = (dllen & 0xF0) >> 4", "nibbles swapped in the reader")
R.seed("C01.d", F_O, "            current_opt_num = option.number\n", "", "deltas not relative")
R.seed("C01.e", F_T, "    return value.to_bytes((value.bit_length() + 7) // 8, \"big\")", "    return value.to_bytes((value.bit_length() + 8) // 8, \"big\")", "non-minimal uint")
R.seed("C01.e", F_T, "            + (self.value.more * 0x08)", "            + (self.value.more * 0x10)", "M bit misplaced")
R.seed("C01.e", F_T, "            size_exponent=(as_integer & 0x07),", "            size_exponent=(as_integer & 0x0F),", "SZX includes the M bit")
R.seed("C01.e", F_T, "        self.value = rawdata.decode(\"utf-8\")", "        self.value = rawdata.decode(\"latin-1\")", "codec mismatch")
R.seed("C01.f", "aiocoap/numbers/optionnumbers.py", "OptionNumber.URI_PORT.set_format(optiontypes.UintOption)", "OptionNumber.URI_PORT.set_format(optiontypes.StringOption)", "Uri-Port as string")
R.seed("C01.f", "aiocoap/numbers/optionnumbers.py", "    MAX_AGE = 14\n", "    MAX_AGE = 18\n", "wrong option number")

R.seed("C01.g", "aiocoap/util/__init__.py", "        cls._value2member_map_[value] = new_member\n", "        if len(cls._value2member_map_) < 1024:\n            cls._value2member_map_[value] = new_member\n", "members beyond the 1024th are throw-away objects: set_format on them is lost")
