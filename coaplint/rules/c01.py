"""C01 CoAP datagram codec: lossless round trip, RFC 7252 section 3 format, total parsing.

The value-level clauses (c..g) do not look at the *shape* of the codec functions any more: the functions are
evaluated in the checker's own evaluator (rules/_kit_c01.py: a side-effect-free interpreter over the syntax trees,
nothing of the repository is imported or executed) over finite domains, and the values are compared with a reference
codec written here from RFC 7252 section 3 / RFC 7959 section 2.2.  Whatever spelling computes the same values
(reordered arms, early returns, shared tails, tables, divmod, helpers, constructor keywords instead of attribute
stores, comprehension instead of append loops) is therefore the same fact to these clauses; a spelling outside the
evaluator's vocabulary is refused (exit 2), never guessed.  Clause a is decided over the escape analysis as before (a
statement about all inputs; engine limitations are worked around by local lemmas, each argued where it is defined:
closed-enum arguments by value range, membership-guarded dict reads, methods of pure standard-library objects such as a
precompiled struct.Struct, the generated namedtuple methods; a closed-enum construction whose argument cannot be
bounded at all is refused, not reported) and additionally replays mutated datagrams, among them every value of each
header byte; clause b evaluates the two receive functions on well-formed and
malformed datagrams with recording stand-ins for their collaborators and keeps the CFG form where it is conclusive;
clause h bounds the receive buffer from below through def-use; clause i evaluates histories of one message object
(observe, change a field, observe again) against a model of its fields: remembered serialisations that are not dropped on
every path that changes a field show there and nowhere else.
"""

import ast
import os

from ..rulekit import *
from ..norm import consteval, NormError
from ..exc import EscapeAnalysis
from ..paths import PathModel
from . import _kit_c01 as K

R = Rules(
    "C01",
    explanation=(
        "Clauses of the datagram codec: (a) exception-escape analysis of Message.decode over its resolved "
        "call closure (Options.decode, extended-field reader, option construction through the option-number -> format "
        "dispatch table, the five value decoders, Message.__init__) with handler filtering and call-site "
        "specialisation: the escape set must be a subset of {error.UnparsableMessage}; in addition every truncation and "
        "single-byte mutation of reference datagrams is replayed through Message.decode in the checker's evaluator; "
        "(b) the UDP transports' receive functions, evaluated with recording stand-ins for their collaborators, hand a well-formed "
        "datagram on exactly once and drop malformed ones silently; where the parser call sits in a try statement the handler "
        "for that class neither dispatches nor raises in the CFG (sibling transports: CFG form only); "
        "(c) writer and reader of the 4-byte header, evaluated for every type/token length and sampled codes, message "
        "IDs, tokens and payloads, equal RFC 7252 figure 7; (d) the delta/length nibble codec's writer and reader, "
        "evaluated over the whole table 0..65804 (quick tier: every value near a breakpoint of the RFC or of the code plus "
        "a sweep; thorough tier: every value), equal RFC 7252 section 3.1 (0..12 inline, 13 -> 1 byte +13, 14 -> 2 bytes "
        "+269, 15 reserved) including byte order; Options.encode/decode scenarios (option byte layout, delta accumulation, "
        "extension order, sorted stable emission, payload marker) equal the reference encoding; (e) per-format value "
        "codecs equal the reference value encodings in both directions; (f) the option-number -> format registrations, "
        "obtained by replaying the registration statements, equal the registry table of RFC 7252/7959/7641/7967/8613/9175/8768; "
        "(g) option numbers created on demand keep their identity (path model over _missing_, and evaluated over a history of "
        "thousands of numbers); (h) the buffer passed to recvmsg() is at least the hand-confirmed 4096 bytes; "
        "(i) serialisation is a function of the message's current fields: one message is driven through histories (serialise or "
        "compare, change a field through a documented path -- message attributes, add_option/delete_option/Options.decode, an "
        "option object's .value or decode() for every value format, every property of Options that exposes an option, "
        "Message.copy() -- serialise again) in the evaluator and every serialisation equals the reference encoding of the fields "
        "it has at that moment.  Value-level equality for all byte strings is not decided."
    ),
    rule_text="escape sets over the resolved call graph; codec functions evaluated over finite domains in the checker's own evaluator and compared with an RFC reference codec",
)

ALLOWED = "aiocoap.error.UnparsableMessage"
M_OPTNUM = "aiocoap.numbers.optionnumbers"


def raw_program(prog):
    """the same tree without the engine's canonicalisation (helper expansion, copy propagation): the evaluator follows
    calls by itself, so it is given the functions exactly as the repository spells them and does not depend on those
    rewrites being behaviour preserving"""
    raw = getattr(prog, "_c01_raw", None)
    if raw is None:
        if os.environ.get("COAPLINT_NO_INLINE"):
            raw = prog
        else:
            os.environ["COAPLINT_NO_INLINE"] = "1"
            try:
                raw = type(prog)(prog.root, overrides=prog.overrides)
            finally:
                del os.environ["COAPLINT_NO_INLINE"]
        prog._c01_raw = raw
    return raw


def interp(ctx, **kw):
    """a fresh evaluator (state such as enum tables is per evaluator); the registration statements of
    numbers/optionnumbers.py are replayed the first time the module is touched"""
    raw = raw_program(ctx.prog)
    # import-time statements that are replayed: strictly those of numbers/optionnumbers.py (where the formats are
    # registered); tolerantly (statements outside the vocabulary are skipped and noted) those of every other module --
    # eagerly for the modules a registration could be moved to, for the rest when the evaluation first touches the
    # module (a table filled by a module-level loop is the same table as one written as a display)
    others = {m for m in raw.modules if m == "aiocoap.numbers" or m.startswith("aiocoap.numbers.") or m in ("aiocoap.optiontypes", "aiocoap.options")}
    I = K.Interp(raw, effect_modules={M_OPTNUM}, tolerant_effect_modules=set(raw.modules), **kw)
    for m in sorted(others | {M_OPTNUM}):
        I.run_effects(m)
    if I.skipped_effects and not getattr(ctx, "_c01_skipnote", False):
        ctx._c01_skipnote = True
        ctx.note("import-time statements not replayed: %s" % "; ".join(I.skipped_effects))
    return I


def g_(I, mod, name):
    try:
        return I.global_lookup("aiocoap." + mod, name)
    except KeyError:
        raise AnchorError("anchor %s.%s not found" % (mod, name))


def short_name(v):
    return v.qn.split(".")[-1] if isinstance(v, K.ClassRef) else repr(v)


# ---------------------------------------------------------------------------
# reference codec (RFC 7252 section 3, 3.1; RFC 7959 section 2.2), written independently of the repository


def ref_ext(v):
    """value -> (nibble, extension bytes) or None outside the table"""
    if 0 <= v <= 12:
        return v, b""
    if 13 <= v <= 268:
        return 13, bytes([v - 13])
    if 269 <= v <= 65804:
        return 14, bytes([(v - 269) >> 8, (v - 269) & 0xFF])
    return None


def ref_options(opts):
    """[(number, value bytes)] in insertion order -> option bytes (sorted by number, stable)"""
    out = b""
    prev = 0
    for num, val in sorted(opts, key=lambda o: o[0]):
        dn, de = ref_ext(num - prev)
        ln, le = ref_ext(len(val))
        out += bytes([(dn << 4) | ln]) + de + le + val
        prev = num
    return out


def ref_message(mtype, code, mid, token, optbytes, payload):
    out = bytes([(1 << 6) | (mtype << 4) | len(token), code, mid >> 8, mid & 0xFF]) + token + optbytes
    if payload:
        out += b"\xff" + payload
    return out


def ref_uint(v):
    out = b""
    while v:
        out = bytes([v & 0xFF]) + out
        v >>= 8
    return out


def ref_parse_options(raw):
    """-> ([(number, value)], payload) or None if not well-formed under RFC 7252 section 3.1"""
    opts = []
    num = 0
    i = 0
    while i < len(raw):
        b = raw[i]
        i += 1
        if b == 0xFF:
            return opts, raw[i:]
        fields = []
        for nib in (b >> 4, b & 0x0F):
            if nib < 13:
                fields.append(nib)
            elif nib == 13:
                if i + 1 > len(raw):
                    return None
                fields.append(raw[i] + 13)
                i += 1
            elif nib == 14:
                if i + 2 > len(raw):
                    return None
                fields.append((raw[i] << 8) + raw[i + 1] + 269)
                i += 2
            else:
                return None
        num += fields[0]
        if i + fields[1] > len(raw):
            return None
        opts.append((num, raw[i:i + fields[1]]))
        i += fields[1]
    return opts, b""


# ---------------------------------------------------------------------------
# a: parser totality


def option_type_hints(prog):
    ot = [c for c in prog.subclasses("aiocoap.optiontypes.OptionType") if c != "aiocoap.optiontypes.OptionType"]
    # declared dynamic dispatch: a local of create_option bound from a call of the number's format -- `self.format(self)`,
    # a local alias of self.format / self._get_format() called, or `self._get_format()(self)` -- is an instance of one
    # of the OptionType classes (which ones are registered is clause f's business)
    short = "numbers.optionnumbers.OptionNumber.create_option"
    hints = {(short, "=self.format"): ot}
    if prog.has_func(short):
        fn = prog.func(short).node

        fi_ = prog.func(short)

        def is_ot_class(e):
            c = chain(e)
            return bool(c) and prog.resolve_in_module(fi_.module, c) in ot

        def is_format(e, depth=0):
            """the expression denotes the option number's format, however it is obtained: the property, its getter, the
            attribute behind it, getattr with an OptionType default, or a choice between such values"""
            e = resolve_local(fn, e)
            if depth > 6:
                return False
            if chain(e) in ("self.format", "self._format") or match("self._get_format()", e) is not None:
                return True
            m_ = match("getattr(self, $n, $d)", e) or match("getattr(self, $n)", e)
            if m_ is not None and isinstance(m_["n"], ast.Constant) and m_["n"].value in ("format", "_format"):
                return "d" not in m_ or is_ot_class(m_["d"]) or is_format(m_["d"], depth + 1)
            if isinstance(e, ast.IfExp):
                return all(is_ot_class(x) or is_format(x, depth + 1) for x in (e.body, e.orelse))
            if isinstance(e, ast.BoolOp) and isinstance(e.op, ast.Or):
                return all(is_ot_class(x) or is_format(x, depth + 1) for x in e.values)
            return False
        for n in walk_no_nested(fn):
            if isinstance(n, ast.Assign) and isinstance(n.value, ast.Call) and is_format(n.value.func):
                hints[(short, "=" + (chain(n.value.func) or "?"))] = ot
    return hints, ot


def format_table(I):
    """{member name: (number, format class)} of OptionNumber after the registration statements have been replayed,
    and the format an unregistered number gets"""
    ON = g_(I, "numbers.optionnumbers", "OptionNumber")
    st = I.enum_state(ON)
    out = {}
    for name in st["_member_names_"]:
        m = st["_member_map_"][name]
        out[name] = (int(m), I.getattr(m, "format"))
    probe = 64999
    while probe in st["_value2member_map_"]:
        probe -= 1
    default = I.getattr(I.call(ON, [probe], {}), "format")
    return out, default


def fake(line):
    n = ast.Pass()
    n.lineno = line
    return n


def _param_sources(fi, e):
    """the parameters of fi a value expression may come from: the name itself if it is a parameter, and, through
    its re-assignments `name = other_param`, those parameters; None if any other value can reach it"""
    ps = set(params(fi)) | {a.arg for a in fi.node.args.kwonlyargs}
    if not isinstance(e, ast.Name):
        return None
    todo, seen, out = [e.id], set(), set()
    while todo:
        n = todo.pop()
        if n in seen:
            continue
        seen.add(n)
        if n in ps:
            out.add(n)
        elif not writes_to_name(fi.node, n):
            return None
        for w in writes_to_name(fi.node, n):
            if isinstance(w, ast.Assign) and len(w.targets) == 1 and isinstance(w.targets[0], ast.Name) and isinstance(w.value, ast.Name):
                todo.append(w.value.id)
            else:
                return None
    return out


def resolve_value(fnode, e, depth=6):
    """def-use through single assignments, including the elements of a tuple assignment from a tuple display
    (`a, b = x >> 4, x & 15` is the same fact as `a = x >> 4; b = x & 15`)"""
    while depth and isinstance(e, ast.Name):
        depth -= 1
        ws = writes_to_name(fnode, e.id)
        if len(ws) != 1 or not isinstance(ws[0], ast.Assign) or len(ws[0].targets) != 1:
            break
        t, v = ws[0].targets[0], ws[0].value
        if isinstance(t, ast.Name):
            e = v
        elif isinstance(t, (ast.Tuple, ast.List)) and isinstance(v, (ast.Tuple, ast.List)) and len(t.elts) == len(v.elts) and not any(isinstance(x, ast.Starred) for x in t.elts + v.elts):
            idx = [i for i, x in enumerate(t.elts) if isinstance(x, ast.Name) and x.id == e.id]
            if len(idx) != 1:
                break
            e = v.elts[idx[0]]
        else:
            break
    return e


def int_range(fnode, e, depth=0):
    """inclusive integer bounds of an expression, from its operators alone (no assumption about the operands' values):
    `x & m` lies in 0..m and `x % k` in 0..k-1 for every integer x; shifts, floor division, sums and products of bounded
    non-negative operands; conditional expressions; the elements of `divmod(x, k)`; comparisons and bool().  None if
    nothing is known.  Names are followed through single assignments, including tuple assignments."""
    if depth > 12:
        return None
    e = resolve_value(fnode, e)
    rec = lambda x: int_range(fnode, x, depth + 1)
    if isinstance(e, ast.Constant):
        if isinstance(e.value, bool):
            return (int(e.value), int(e.value))
        if isinstance(e.value, int):
            return (e.value, e.value)
        return None
    if isinstance(e, (ast.Compare, ast.BoolOp)) and not isinstance(e, ast.BoolOp):
        return (0, 1)
    if isinstance(e, ast.UnaryOp) and isinstance(e.op, ast.Not):
        return (0, 1)
    if isinstance(e, ast.Call) and chain(e.func) == "bool" and len(e.args) == 1:
        return (0, 1)
    if isinstance(e, ast.Call) and chain(e.func) == "int" and len(e.args) == 1:
        return rec(e.args[0])
    if isinstance(e, ast.IfExp):
        a, b = rec(e.body), rec(e.orelse)
        return (min(a[0], b[0]), max(a[1], b[1])) if a and b else None
    if isinstance(e, ast.Name):
        # element of `q, r = divmod(x, k)`
        ws = writes_to_name(fnode, e.id)
        if len(ws) == 1 and isinstance(ws[0], ast.Assign) and len(ws[0].targets) == 1 and isinstance(ws[0].targets[0], (ast.Tuple, ast.List)) and len(ws[0].targets[0].elts) == 2:
            v = ws[0].value
            if isinstance(v, ast.Call) and chain(v.func) == "divmod" and len(v.args) == 2:
                k = rec(v.args[1])
                t = ws[0].targets[0].elts
                if k and k[0] == k[1] and k[0] > 0:
                    if isinstance(t[1], ast.Name) and t[1].id == e.id:
                        return (0, k[0] - 1)
                    x = rec(v.args[0])
                    if x and x[0] >= 0 and isinstance(t[0], ast.Name) and t[0].id == e.id:
                        return (x[0] // k[0], x[1] // k[0])
        return None
    if isinstance(e, ast.BinOp):
        l, r = rec(e.left), rec(e.right)
        op = e.op
        if isinstance(op, ast.BitAnd):
            cands = [x[1] for x in (l, r) if x and x[0] >= 0]
            return (0, min(cands)) if cands else None
        if isinstance(op, ast.Mod):
            return (0, r[1] - 1) if r and r[0] == r[1] and r[0] > 0 else None
        if l is None or r is None or l[0] < 0 or r[0] < 0:
            return None
        if isinstance(op, ast.RShift):
            return (l[0] >> r[1], l[1] >> r[0]) if r[1] < 4096 else None
        if isinstance(op, ast.FloorDiv):
            return (l[0] // r[1], l[1] // r[0]) if r[0] > 0 else None
        if isinstance(op, ast.LShift):
            return (l[0] << r[0], l[1] << r[1]) if r[1] < 64 else None
        if isinstance(op, ast.Add):
            return (l[0] + r[0], l[1] + r[1])
        if isinstance(op, ast.Mult):
            return (l[0] * r[0], l[1] * r[1])
        if isinstance(op, (ast.BitOr, ast.BitXor)):
            return (0, (1 << max(l[1], r[1]).bit_length()) - 1)
    return None


def _enum_members(prog, ecls):
    out = set()
    for k, v in prog.classes[ecls].attrs.items():
        try:
            val = consteval(v)
        except NormError:
            return None
        if isinstance(val, int) and not isinstance(val, bool):
            out.add(val)
    return out


def enum_arg_status(EA, prog, fi, ecls, arg):
    """'ok': the argument of a closed-enum construction is one of the member values whatever the input (the engine's
    own bit-field lemma, or the operator-derived range of the def-use resolved expression is covered by the members);
    'out': its operator-derived range is known and contains a non-member; 'unknown': no range can be derived from the
    expression (a field of an object, a capture of a pattern, a value returned by a call that is not expanded)"""
    arg = resolve_value(fi.node, arg)
    if EA._enum_arg_in_range(fi, ecls, arg):
        return "ok"
    rng = int_range(fi.node, arg)
    mem = _enum_members(prog, ecls)
    if not rng or mem is None:
        return "unknown"
    if rng[1] - rng[0] < 4096 and set(range(rng[0], rng[1] + 1)) <= mem:
        return "ok"
    return "out"


def enum_arg_ok(EA, prog, fi, ecls, arg):
    return enum_arg_status(EA, prog, fi, ecls, arg) == "ok"


def closed_enum_lemma(ctx, EA, es, entry):
    """Engine work-around (exc.py decides `Enum(arg)` cannot raise only when arg is a bit-field spelled with shifts and
    masks over single-name assignments *in the same function*).  The same fact is established (1) in the same function
    for every spelling whose value range follows from its operators (`% 16`, divmod, tuple assignments), and (2) when
    the argument is a parameter, at the call sites: if every call in the closure of the entry that reaches this function
    passes, for each parameter the argument can come from, nothing / None (the callee's own None test is pruned by the
    call-site specialisation) or a value covered by the members, the construction cannot raise.  Returns the ast call
    nodes proven infeasible, and the escapes that stay *undecided*: no range at all can be derived for the argument (and
    none of the call sites passes a value known to be outside the members).  An undecided construction is neither a
    refuted nor a discharged obligation: the clause refuses it (after the replay, which reports the escape as a
    violation if an evaluated datagram triggers it)."""
    prog = ctx.prog
    dead = []
    undecided = []
    closure = [prog.funcs[q] for q, *_ in EA.memo if q in prog.funcs]
    for e in es:
        if e.cls != "ValueError":
            continue
        ofi = prog.funcs.get("aiocoap." + e.func)
        if ofi is None:
            continue
        for call in calls_in(ofi.node):
            if getattr(call, "lineno", None) != e.line or stmt_text(call, 80) != e.text or len(call.args) != 1 or call.keywords:
                continue
            ecls = EA.res.class_of_name(ofi, chain(call.func) or "")
            if not ecls or not EA._closed_enum(ecls):
                continue
            status = enum_arg_status(EA, prog, ofi, ecls, call.args[0])
            if status == "ok":
                dead.append(call)
                ctx.note("L4 by value range: %s in %s cannot raise" % (e.text, e.func))
                continue
            if status == "out":
                continue
            srcs = _param_sources(ofi, call.args[0]) if ofi.cls is not None and ofi.name == "__init__" else None
            if not srcs:
                undecided.append(e)
                continue
            ok, nsites, out_of_range = True, 0, False
            for cf in closure:
                for c2 in calls_in(cf.node):
                    callees, kind = EA.res.resolve_callees(cf, c2)
                    if not any(cal is ofi for cal, _ in callees):
                        continue
                    nsites += 1
                    if any(isinstance(a, ast.Starred) for a in c2.args) or any(k.arg is None for k in c2.keywords):
                        ok = False
                        continue
                    pos = params(ofi)
                    given = dict(zip(pos, c2.args))
                    given.update({k.arg: k.value for k in c2.keywords})
                    for p in srcs:
                        a = given.get(p)
                        if a is None or (isinstance(a, ast.Constant) and a.value is None):
                            continue
                        st_ = enum_arg_status(EA, prog, cf, ecls, a)
                        if st_ != "ok":
                            ok = False
                            out_of_range = out_of_range or st_ == "out"
            if ok and nsites:
                dead.append(call)
                ctx.note("L4 at the call sites: %s in %s cannot raise, all %d call site(s) in the closure of %s pass a value covered by the members" % (e.text, e.func, nsites, entry))
            elif not out_of_range:
                undecided.append(e)
    return dead, undecided


def _norm_text(fnode, e):
    """expression text with single-assignment locals resolved (`number = option.number; d[number]` reads d[option.number])"""
    class T(ast.NodeTransformer):
        def visit_Name(self, n):
            if isinstance(n.ctx, ast.Load):
                v = resolve_value(fnode, n)
                if v is not n and all(isinstance(x, (ast.Name, ast.Attribute, ast.Load)) for x in ast.walk(v)):
                    return v
            return n
    import copy
    return dump(T().visit(copy.deepcopy(e)))


def membership_guard_lemma(ctx, EA, es):
    """Engine work-around (exc.py reports KeyError for every read `self.d[k]` of a dict attribute).  `d[k]` cannot raise
    KeyError where a test `k in d` (or the false branch of `k not in d`) dominates the read, both name the same container
    and key, and nothing between the test and the read can change either: the function is a plain def (atomic in the
    event loop) and the CFG nodes between them contain no call, no store to the container and no re-binding of a name
    the key is built from.  Returns the ast Subscript nodes proven infeasible."""
    prog = ctx.prog
    dead = []
    for e in es:
        if e.cls != "KeyError":
            continue
        ofi = prog.funcs.get("aiocoap." + e.func)
        if ofi is None or not is_plain_sync(ofi):
            continue
        cfg = cfg_of(ofi)
        for sub in walk_no_nested(ofi.node):
            if not isinstance(sub, ast.Subscript) or not isinstance(sub.ctx, ast.Load) or getattr(sub, "lineno", None) != e.line or stmt_text(sub, 80) != e.text:
                continue
            use_ids = cfg.locate(sub)
            if len(use_ids) != 1:
                continue
            use = use_ids[0]
            cont, key = _norm_text(ofi.node, sub.value), _norm_text(ofi.node, sub.slice)
            for test, pol, pseudo in cfg.guards(use):
                if not (isinstance(test, ast.Compare) and len(test.ops) == 1 and isinstance(test.ops[0], (ast.In, ast.NotIn))):
                    continue
                if (isinstance(test.ops[0], ast.In)) != pol:
                    continue
                if _norm_text(ofi.node, test.comparators[0]) != cont or _norm_text(ofi.node, test.left) != key:
                    continue
                between = {n for n in cfg.reach({pseudo}, avoid={use}) if use in cfg.reach({n})} - {pseudo}
                keynames = {x.id for x in ast.walk(sub.slice) if isinstance(x, ast.Name)} | {x.id for x in ast.walk(test.left) if isinstance(x, ast.Name)}
                clean = True
                for n in between:
                    a_ = cfg.nodes[n].ast
                    if a_ is None or cfg.nodes[n].kind in ("T", "F", "join"):
                        continue
                    for x in ast.walk(a_):
                        if isinstance(x, (ast.Call, ast.Await, ast.Yield, ast.YieldFrom, ast.Delete)):
                            clean = False
                        if isinstance(x, ast.Name) and isinstance(x.ctx, ast.Store) and x.id in keynames:
                            clean = False
                        if isinstance(x, (ast.Attribute, ast.Subscript)) and isinstance(x.ctx, ast.Store):
                            clean = False
                if clean:
                    dead.append(sub)
                    ctx.note("membership lemma: %s in %s is dominated by the test `%s`" % (e.text, e.func, stmt_text(test, 60)))
                    break
    return dead


# what the methods of a few pure standard-library objects can raise on behalf of the parser (the documented behaviour of
# the types; an object whose buffer was closed is not considered: nothing in a parser closes its own input)
HOST_METHOD_RAISES = {
    "struct.Struct": {"unpack": ["struct.error"], "unpack_from": ["struct.error"], "iter_unpack": ["struct.error"], "pack": ["struct.error"], "pack_into": ["struct.error"]},
    "io.BytesIO": {m: [] for m in ("read", "read1", "readinto", "write", "getvalue", "getbuffer", "tell", "seek", "truncate", "close", "readline")},
}


def namedtuple_fields(prog, clsqn):
    """field names of a repository class derived from collections.namedtuple(name, fields) (constant fields) or
    typing.NamedTuple (annotated names of the body); None for any other class"""
    for q in prog.mro(clsqn):
        ci = prog.classes.get(q)
        if ci is None:
            continue
        for b in ci.node.bases:
            if isinstance(b, ast.Call) and (prog.resolve_in_module(ci.module, chain(b.func) or "?") == "collections.namedtuple") and len(b.args) >= 2:
                try:
                    f = consteval(b.args[1])
                except NormError:
                    return None
                if isinstance(f, str):
                    f = f.replace(",", " ").split()
                return list(f) if all(isinstance(x, str) for x in f) else None
            if prog.resolve_in_module(ci.module, chain(b) or "?") == "typing.NamedTuple":
                return [st.target.id for st in ci.node.body if isinstance(st, ast.AnnAssign) and isinstance(st.target, ast.Name)]
    return None


class HostReceiverEA(EscapeAnalysis):
    """Engine work-around (exc.py resolves a method call only on receivers typed as repository classes, plus a list of
    builtin container/str method names; `_HEADER.unpack_from(raw)` on a module-level `struct.Struct("!BBH")`, or
    `stream.read(n)` on a local `io.BytesIO(raw)`, is 'unresolved' and the clause would refuse).  The receiver is typed
    here by def-use -- a local bound once, or a module-level constant (also imported from another module of the package),
    bound to a constructor call of one of the pure standard-library classes above -- and the call then contributes the
    exceptions that class documents for the method, at the call site, so that the enclosing handlers filter them exactly
    as they filter `struct.unpack(...)`."""

    def _host_type(self, fi, e, depth=0):
        if depth > 4:
            return None
        if isinstance(e, ast.Name) and not self.res._is_local(fi, e.id):
            v = resolve_value(fi.node, e)
            if v is not e:
                return self._host_type(fi, v, depth + 1)
            if writes_to_name(fi.node, e.id):
                return None
        if isinstance(e, ast.Call):
            c = chain(e.func)
            q = self.prog.resolve_in_module(fi.module, c) if c else None
            return q if q in HOST_METHOD_RAISES else None
        c = chain(e)
        if not c or c.split(".")[0] in ("self", "cls"):
            return None
        q = self.prog.resolve_in_module(fi.module, c)
        parts = q.split(".")
        for i in range(len(parts) - 1, 0, -1):
            mod = ".".join(parts[:i])
            if mod in self.prog.modules and i == len(parts) - 1:
                m = self.prog.modules[mod]
                vals = [st.value for st in m.tree.body if isinstance(st, ast.Assign) and any(isinstance(t, ast.Name) and t.id == parts[i] for t in st.targets)]
                vals += [st.value for st in m.tree.body if isinstance(st, ast.AnnAssign) and isinstance(st.target, ast.Name) and st.target.id == parts[i] and st.value is not None]
                rebound = any(isinstance(n, ast.Global) and parts[i] in n.names for n in ast.walk(m.tree))
                if len(vals) == 1 and not rebound and isinstance(vals[0], ast.Call):
                    c2 = chain(vals[0].func)
                    q2 = self.prog.resolve_in_module(m, c2) if c2 else None
                    return q2 if q2 in HOST_METHOD_RAISES else None
                return None
        return None

    def _namedtuple_api(self, fi, call):
        """`C._make([a, b, c])` with as many elements as C has fields, `x._replace(f=v)` / `C._replace(x, f=v)` naming
        fields of C, `x._asdict()`: the generated methods of a namedtuple class of the package; they raise nothing for
        these argument shapes (the engine does not know the generated methods and reports them unresolved)"""
        f = call.func
        if f.attr not in ("_make", "_replace", "_asdict"):
            return False
        classes = set()
        c = self.res.class_of_name(fi, chain(f.value) or "")
        if c:
            classes.add(c)
        else:
            classes |= set(self.res.infer(fi, f.value))
        if not classes:
            return False
        for c in classes:
            fields = namedtuple_fields(self.prog, c)
            if fields is None:
                return False
            if f.attr == "_make":
                a = resolve_value(fi.node, call.args[0]) if len(call.args) == 1 and not call.keywords else None
                if not (isinstance(a, (ast.List, ast.Tuple)) and len(a.elts) == len(fields) and not any(isinstance(x, ast.Starred) for x in a.elts)):
                    return False
            elif f.attr == "_replace":
                if any(k.arg is None or k.arg not in fields for k in call.keywords) or len(call.args) > 1:
                    return False
            elif call.args or call.keywords:
                return False
        return True

    def _call(self, fi, call, shape, st):
        f = call.func
        if isinstance(f, ast.Attribute) and id(call) not in self.dead_nodes:
            if self._namedtuple_api(fi, call):
                self.external_calls["namedtuple.%s" % f.attr] = self.external_calls.get("namedtuple.%s" % f.attr, 0) + 1
                return set()
            t = self._host_type(fi, f.value)
            if t is not None and f.attr in HOST_METHOD_RAISES[t]:
                name = "%s.%s" % (t, f.attr)
                self.external_calls[name] = self.external_calls.get(name, 0) + 1
                out = set()  # calls inside the arguments are visited by the engine's own walk of the expression
                from ..exc import Esc
                for cls in HOST_METHOD_RAISES[t][f.attr]:
                    out.add(Esc(cls, fi.short, call.lineno, stmt_text(call, 80)))
                return out
        return super()._call(fi, call, shape, st)


def escape_clause(ctx, entry_short, what, extra_allowed=()):
    prog = ctx.prog
    hints, ot = option_type_hints(prog)
    # the dispatch table: every registered format (and the default) must be one of the OptionType subclasses analysed
    I = interp(ctx)
    regs, default = format_table(I)
    ctx.floor("option numbers with a format", len(regs), 25)
    for name, (num, fmt) in regs.items():
        ctx.need(isinstance(fmt, K.ClassRef) and fmt.qn in ot, "format %s registered for %s is not an OptionType subclass of optiontypes.py" % (short_name(fmt), name))
    ctx.need(isinstance(default, K.ClassRef) and default.qn in ot, "default option format is not an OptionType subclass")
    fi = prog.func(entry_short)
    EA = HostReceiverEA(prog, hints)
    es = EA.escapes(fi)
    dead, undecided = closed_enum_lemma(ctx, EA, es, entry_short)
    dead = dead + membership_guard_lemma(ctx, EA, es)
    undecided = {(e.cls, e.func, e.text) for e in undecided}
    if dead:
        EA = HostReceiverEA(prog, hints)
        EA.dead_nodes.update(id(n) for n in dead)
        es = EA.escapes(fi)
    funcs = {k[0] for k in EA.memo}
    ctx.extra.setdefault("escape_regions", {})[entry_short] = {
        "functions_in_closure": sorted(f[len("aiocoap."):] for f in funcs),
        "resolved_call_edges": EA.resolved_edges,
        "unresolved_calls": EA.unresolved,
        "external_calls": EA.external_calls,
        "implicit_raiser_sites": sorted(set(EA.implicit_sites)),
        "lemmas": EA.lemmas_used,
        "by_unique_name": sorted(set(EA.res.by_unique_name)),
        "escape_set": sorted(repr(e) for e in es),
    }
    ctx.floor("functions in the closure of %s" % entry_short, len(funcs), 9)
    ctx.need(not EA.unresolved, "unresolved calls inside the escape region of %s: %s" % (entry_short, EA.unresolved[:4]))
    explicit = [e for e in es if e.cls == ALLOWED]
    ctx.floor("explicit UnparsableMessage raise sites reaching %s" % entry_short, len(explicit), 4)
    allowed = {ALLOWED} | set(extra_allowed)
    bad = [e for e in es if not any(e.cls == a or prog.is_subclass(e.cls, a) for a in allowed)]
    pending = sorted({"%s in %s" % (e.text, e.func) for e in bad if (e.cls, e.func, e.text) in undecided})
    bad = [e for e in bad if (e.cls, e.func, e.text) not in undecided]
    ctx._c01_undecided = pending
    for e in sorted(bad, key=repr):
        ofi = prog.funcs.get("aiocoap." + e.func)
        ctx.ob("%s: only error.UnparsableMessage may leave the parser" % what, False, ofi, fake(e.line), construct="%s: %s" % (e.cls, e.text),
               detail="escapes via %s" % " > ".join(e.via))
    if not bad and not pending:
        ctx.ob("%s: the escape set of %s is a subset of {UnparsableMessage} (%d raise sites, %d functions)" % (what, entry_short, len(es), len(funcs)), True, fi, fi.node, construct=entry_short)
    return es


def reference_datagrams():
    """well-formed datagrams that exercise every branch of the format (extended deltas and lengths of both widths,
    every value format, repeated options, payload, empty message)"""
    long_val = bytes(range(256)) + bytes(44)
    d = [
        ref_message(0, 1, 0x1234, b"", b"", b""),
        ref_message(1, 2, 0xFFFE, b"\x01\x02\x03\x04\x05\x06\x07\x08", ref_options([(11, b"a"), (11, "é世".encode()), (12, b"\x00\x32"), (15, b"q=1")]), b"payload"),
        ref_message(2, 69, 7, b"\xaa", ref_options([(4, b"\x01\x02"), (6, b"\x01"), (14, b"\x3c"), (23, b"\x12\x3e"), (27, b""), (60, b"\x01\x00\x00")]), b"\xff\x00"),
        ref_message(3, 0, 0, b"", b"", b""),
        ref_message(0, 1, 1, b"\x10\x20", ref_options([(3, b"example.org"), (7, b"\x16\x33"), (35, long_val), (258, b"\x1a"), (292, b"tag"), (2000, b"x" * 13), (65000, b"")]), b"p"),
        ref_message(0, 5, 2, b"t", ref_options([(13, b"\x05"), (13 + 269, b"yy"), (13 + 269 + 65804, b"z")]), b""),
    ]
    return d


@R.clause("C01.a", "parser totality: no exception other than error.UnparsableMessage leaves Message.decode")
def a(ctx):
    escape_clause(ctx, "message.Message.decode", "datagram parser")
    ci = ctx.prog.cls("error.UnparsableMessage")
    ctx.ob("UnparsableMessage is a library error", ctx.prog.is_subclass(ci.qn, "aiocoap.error.Error"), None, None, construct="class UnparsableMessage")
    # replay: every truncation and a family of single-byte substitutions / insertions of the reference datagrams
    I = interp(ctx)
    fi = ctx.prog.func("message.Message.decode")
    dec = I.getattr(g_(I, "message", "Message"), "decode")
    seen = set()
    cases = []
    for d in reference_datagrams():
        muts = [d[:i] for i in range(len(d) + 1)]
        for i in range(min(len(d), 48)):
            for v in (0x00, 0x0D, 0x0E, 0xD0, 0xE0, 0xF0, 0xFF, d[i] ^ 0x40, d[i] ^ 0x01):
                muts.append(d[:i] + bytes([v]) + d[i + 1:])
            muts.append(d[:i] + b"\xff" + d[i:])
            muts.append(d[:i] + b"\xc3" + d[i:])
            muts.append(d[:i] + d[i + 1:])
        for m in muts:
            if m not in seen:
                seen.add(m)
                cases.append(m)
    # every value of each of the four header bytes (the fields decoded into closed enumerations live there)
    for d in reference_datagrams()[1:3]:
        for i in range(4):
            for v in range(256):
                m = d[:i] + bytes([v]) + d[i + 1:]
                if m not in seen:
                    seen.add(m)
                    cases.append(m)
    escapes = {}
    for m in cases:
        o = K.run(I, dec, m)
        if not o.ok and not o.raised(ALLOWED):
            escapes.setdefault(o.names[0], m)
    ctx.floor("mutated datagrams replayed through Message.decode", len(cases), 1000)
    for cls, m in sorted(escapes.items()):
        ctx.ob("datagram parser: only error.UnparsableMessage may leave the parser (replayed datagram)", False, fi, fi.node, construct="%s escapes Message.decode" % cls, detail="Message.decode(bytes.fromhex(%r)) raises %s" % (m.hex(), cls))
    if not escapes:
        ctx.ob("datagram parser: %d truncations / substitutions / insertions of reference datagrams are parsed or rejected with UnparsableMessage" % len(cases), True, fi, fi.node, construct="Message.decode replay")
    pending = getattr(ctx, "_c01_undecided", [])
    ctx.need(not pending, "construction of a closed enumeration whose argument cannot be bounded (it is a member on all %d replayed datagrams, but that is not all inputs): %s" % (len(cases), "; ".join(pending)))

# ---------------------------------------------------------------------------
# b: the transports


def decode_sites(prog, fi):
    """calls that resolve (through the module's imports and re-exports) to message.Message.decode"""
    out = []
    for c in calls_in(fi.node):
        cn = call_name(c)
        if not cn or not cn.endswith("decode"):
            continue
        if prog.resolve_in_module(fi.module, cn) == "aiocoap.message.Message.decode":
            out.append(c)
    return out


def check_site(ctx, fi, evaluated=False):
    """Structural form of the clause, over all inputs: the parser call sits in a try whose handler for UnparsableMessage
    neither dispatches nor lets an exception continue.  With evaluated=True the receive path has already been decided by
    evaluation (receive_scenarios), and a receive function that spells the drop without an enclosing try around the call
    (helper that returns None, contextlib.suppress, ...) is left to that evaluation instead of being reported."""
    cfg = cfg_of(fi)
    sites = decode_sites(ctx.prog, fi)
    if evaluated and not sites:
        ctx.note("%s: no direct Message.decode call site (moved into a helper that was not expanded); decided by evaluation only" % fi.short)
        return
    ctx.floor("Message.decode call sites in %s" % fi.short, len(sites), 1)
    for c in sites:
        # enclosing try
        p = cfg.parent.get(id(c))
        tr = None
        child = c
        while p is not None:
            if isinstance(p, ast.Try) and any(child is s or contains(s, child) for s in p.body):
                tr = p
                break
            child = p
            p = cfg.parent.get(id(p))
        if tr is None:
            if evaluated:
                ctx.note("%s: Message.decode is not called inside a try statement; decided by evaluation only" % fi.short)
                continue
            ctx.ob("the datagram parser is called inside a handler for UnparsableMessage", False, fi, c)
            continue
        hs = []
        for h in tr.handlers:
            types = [h.type] if h.type is not None and not isinstance(h.type, ast.Tuple) else (h.type.elts if h.type is not None else [])
            for t in types:
                q = ctx.prog.resolve_in_module(fi.module, chain(t) or "?")
                if q == ALLOWED or ctx.prog.is_subclass(ALLOWED, q):
                    hs.append(h)
            if h.type is None:
                hs.append(h)
        if evaluated and not hs:
            ctx.note("%s: the try around Message.decode names no UnparsableMessage handler; decided by evaluation only" % fi.short)
            continue
        ctx.ob("the transport catches error.UnparsableMessage around the parser", bool(hs), fi, c)
        disp = [cfg.loc1(d) for d in calls_in(fi.node) if (call_name(d) or "").endswith(".dispatch_message")]
        if not evaluated:
            # a function that hands the parsed message back to its caller (a parsing helper that was not expanded) is
            # not where the dispatch happens; the drop obligation below applies to it all the same
            def is_site(v):
                return v is c or (isinstance(v, ast.Name) and any(isinstance(w, ast.Assign) and w.value is c for w in writes_to_name(fi.node, v.id)))
            hands_back = any(isinstance(n, ast.Return) and n.value is not None and is_site(n.value) for n in walk_no_nested(fi.node))
            if not disp and hands_back:
                ctx.note("%s returns the parsed message to its caller; the dispatch is not looked for in it" % fi.short)
            else:
                ctx.ob("the parsed message is dispatched", bool(disp), fi, c)
        for h in hs:
            hn = [n.id for n in cfg.nodes if n.kind == "handler" and n.ast is h]
            for x in hn:
                r = cfg.reach({x}, skip_labels=("exc",))
                ok = not (set(disp) & r) and cfg.rexit not in cfg.reach({x}, skip_labels=("exc",)) and not any(cfg.nodes[y].kind == "raise" for y in r)
                if evaluated and not ok:
                    # reachability in the CFG over-approximates (a dispatch guarded by `message is not None` after a handler that
                    # sets message = None is reachable but never taken): the evaluation above has shown the drop
                    ctx.note("%s: a dispatch or raise is CFG-reachable from the UnparsableMessage handler but not taken on any evaluated datagram; decided by evaluation" % fi.short)
                    continue
                ctx.ob("an unparsable datagram is dropped: nothing is dispatched and no exception continues", ok, fi, h,
                       construct="except %s" % (ast.unparse(h.type) if h.type is not None else ""))


MALFORMED_DATAGRAMS = [
    ("empty", b""), ("three bytes", b"\x40\x01\x00"), ("version 0", b"\x00\x01\x00\x01"), ("version 2", b"\x80\x01\x00\x01\xffp"), ("option value cut", b"\x40\x01\x00\x01\xb5ab"),
    ("extended delta cut", b"\x40\x01\x00\x01\xd0"), ("reserved nibble", b"\x40\x01\x00\x01\xf1a"), ("invalid UTF-8 in Uri-Path", b"\x40\x01\x00\x01\xb1\xff"),
]


def _is_logging(dotted):
    parts = dotted.replace("()", "").split(".")
    return any(p in ("log", "_log", "logger", "_logger", "logging", "_alglog") for p in parts[:-1]) or parts[-1] in ("debug", "info", "warning", "warn", "error", "exception", "critical")


def receive_scenarios(ctx, short, make_args, record=True):
    """The receive function of a transport, evaluated on an instance whose collaborators (logger, message manager, ...)
    are recording stand-ins: a well-formed datagram is handed to a collaborator exactly once, as a Message; a datagram
    the parser rejects is dropped -- no Message reaches any collaborator and no exception leaves the function.  All
    rejections are the same exception class, so the handler's behaviour does not depend on which malformed datagram
    triggers it; the evaluation is indifferent to how the drop is spelled (early return, try/else, helper, flag)."""
    fi = ctx.prog.func(short)
    I = interp(ctx)
    cref = I.classref(fi.cls.qn)
    Message = g_(I, "message", "Message")

    def receive(datagram):
        log = []
        me = K.Obj(cref)
        me._k_attrs["__k_fallback__"] = lambda name: K.AutoStub("self." + name, log)
        args = make_args(datagram)
        for a_ in args:
            if isinstance(a_, K.AutoStub):
                a_._k_log = log  # stand-in arguments record into the same log as the object's collaborators
        r = K.run(I, I.getattr(me, fi.name), *args)
        # logging is transparent (a message may be logged any number of times); everything else that receives a Message is a dispatch
        handed = [(n, x) for n, a, k in log if not _is_logging(n) for x in list(a) + list(k.values()) if isinstance(x, K.Obj) and x._k_cref is Message]
        return r, handed

    good = [ref_message(0, 1, 0x1001, b"\x01", ref_options([(11, b"a")]), b""), ref_message(1, 69, 2, b"", b"", b"payload"), ref_message(3, 0, 3, b"", b"", b"")]
    rows = []
    for d in good:
        r, handed = receive(d)
        rows.append(("datagram %s" % d.hex(), "%s, %d message(s) handed on" % ("returned" if r.ok else r.describe(), len(handed)), "returned, 1 message(s) handed on"))
        if r.ok and len(handed) == 1:
            m = handed[0][1]
            rows.append(("datagram %s: message handed on" % d.hex(), "mid %r payload %s" % (m._k_attrs.get("mid"), _hex(m._k_attrs.get("payload"))), "mid %r payload %s" % ((d[2] << 8) | d[3], (d.split(b"\xff", 1)[1] if b"\xff" in d else b"").hex())))
    df1 = first_diff(rows)
    rows = []
    for what, d in MALFORMED_DATAGRAMS:
        r, handed = receive(d)
        rows.append(("%s (%s)" % (what, d.hex() or "-"), "%s, %d message(s) handed on" % ("returned" if r.ok else r.describe(), len(handed)), "returned, 0 message(s) handed on"))
    df2 = first_diff(rows)
    if not record and (df1 is not None or df2 is not None):
        # generic stand-in arguments (sibling sweep): an evaluation that does not come out as expected may be due to the
        # stand-ins, it decides nothing; the caller falls back to the CFG form
        ctx.note("%s: evaluation with generic stand-in arguments is not conclusive (%s)" % (fi.short, df1 or df2))
        return False
    ok1 = ctx.ob("the parsed message is dispatched", df1 is None, fi, fi.node, construct="%s: well-formed datagram" % fi.name, detail=df1)
    ok2 = ctx.ob("an unparsable datagram is dropped: nothing is dispatched and no exception continues (evaluated)", df2 is None, fi, fi.node, construct="%s: malformed datagram" % fi.name, detail=df2)
    return ok1 and ok2


def generic_receive_args(ctx, fi):
    """for a receive function the rule has no hand-written call for: the parameter that flows into Message.decode's
    first argument is the datagram, every other parameter is a recording stand-in.  None if that parameter cannot be
    told."""
    ps = [p for p in params(fi) if p not in ("self", "cls")]
    cands = set()
    for c in decode_sites(ctx.prog, fi):
        a = c.args[0] if c.args else next((k.value for k in c.keywords if k.arg == "rawdata"), None)
        if a is None:
            return None
        a = resolve_value(fi.node, a)
        cands |= {x.id for x in ast.walk(a) if isinstance(x, ast.Name) and x.id in ps}
    if len(cands) != 1 or fi.cls is None or fi.is_async or fi.node.args.vararg or fi.node.args.kwarg or fi.node.args.kwonlyargs:
        return None
    which = cands.pop()
    return lambda d: tuple(d if p == which else K.AutoStub("arg." + p, []) for p in ps)


ADDR = ("2001:db8::1", 5683, 0, 0)
RECEIVERS = (
    # (anchor, datagram -> positional arguments of the receive function as the transport calls it)
    ("transports.udp6.MessageInterfaceUDP6.datagram_msg_received", lambda d: (d, [(41, 50, bytes(20))], 0, ADDR)),
    ("transports.generic_udp.GenericMessageInterface._received_datagram", lambda d: (ADDR, d)),
)


@R.clause("C01.b", "the UDP transports drop exactly what the parser raises (UnparsableMessage) and dispatch nothing for it")
def b(ctx):
    for short, make_args in RECEIVERS:
        passed = receive_scenarios(ctx, short, make_args)
        check_site(ctx, ctx.prog.func(short), evaluated=passed)


@R.clause("C01.b", "sibling sweep: every other Message.decode call site in the transports", tier="thorough")
def b_thorough(ctx):
    n = 0
    for fi in ctx.prog.funcs.values():
        if not fi.module.name.startswith("aiocoap.transports."):
            continue
        if fi.short in [r[0] for r in RECEIVERS]:
            continue
        if decode_sites(ctx.prog, fi):
            n += 1
            # decided by evaluation where the function can be evaluated with generic stand-ins (then the CFG form is kept
            # only where it is conclusive, as for the two anchors); by the CFG form alone otherwise
            passed = False
            make_args = generic_receive_args(ctx, fi)
            if make_args is not None:
                try:
                    passed = receive_scenarios(ctx, fi.short, make_args, record=False)
                except AnalysisError as e:
                    ctx.note("%s: not evaluated (%s)" % (fi.short, e))
            check_site(ctx, fi, evaluated=passed)
    ctx.floor("sibling Message.decode call sites", n, 2)

# ---------------------------------------------------------------------------
# c: fixed header


def first_diff(pairs):
    for what, got, want in pairs:
        if got != want:
            return "%s: got %s, RFC reference %s" % (what, got, want)
    return None


def opaque_option(I, number, data):
    """an option object whose encoded value is `data` whatever the registry says about the number"""
    return I.call(g_(I, "optiontypes", "OpaqueOption"), [I.call(g_(I, "numbers.optionnumbers", "OptionNumber"), [number], {}), data], {})


def _hex(x):
    return x.hex() if isinstance(x, (bytes, bytearray)) else repr(x)


@R.clause("C01.c", "fixed header: writer layout = reader layout = RFC 7252 figure 7")
def c(ctx):
    I = interp(ctx)
    enc = ctx.prog.func("message.Message.encode")
    dec = ctx.prog.func("message.Message.decode")
    init = ctx.prog.func("message.Message.__init__")
    Message = g_(I, "message", "Message")
    Type = g_(I, "numbers.types", "Type")

    # ---- writer: messages are built the way the library's users build them (constructor, then the public attributes)
    def build(mtype, code, mid, token, payload, opts):
        m = I.call(Message, [], {"code": code, "payload": payload})
        I.setattr(m, "mtype", I.call(Type, [mtype], {}))
        I.setattr(m, "mid", mid)
        I.setattr(m, "token", token)
        # how options are encoded is the business of clause d; here they are opaque options added through the public API
        for num, data in opts:
            I.call(I.getattr(I.getattr(m, "opt"), "add_option"), [opaque_option(I, num, data)], {})
        return m

    o = K.run(I, Message)
    ver = I.getattr(o.value, "version") if o.ok else None
    ctx.ob("the version written is the constant 1", o.ok and ver == 1, init, init.node, construct="Message().version", detail="Message() %s, version %r" % (o.describe() if not o.ok else "constructed", ver))
    vectors = []
    for mtype in range(4):
        for tkl in range(9):
            vectors.append((mtype, 1 + 17 * tkl, 0x0102 + 0x1110 * tkl, bytes(range(0xA0, 0xA0 + tkl)), b"", ()))
    for code in (0, 1, 4, 69, 132, 165, 255):
        for mid in (0, 1, 0x00FF, 0xFF00, 0x1234, 0xFFFF):
            vectors.append((code % 4, code, mid, b"\x07", b"", ()))
    for payload in (b"", b"\xff", b"p", b"\x00" * 3, bytes(range(200))):
        for opts in ((), ((11, b"a"),), ((1, b"\x22\x33"), (4, b""))):
            vectors.append((1, 2, 0xBEEF, b"tk", payload, opts))
            vectors.append((2, 68, 0x0001, b"", payload, opts))
    byte0, codemid, middle, tail = [], [], [], []
    for mtype, code, mid, token, payload, opts in vectors:
        optbytes = ref_options(list(opts))
        what = "type %d code %d mid %#06x token %s options %s payload %d byte(s)" % (mtype, code, mid, token.hex() or "-", optbytes.hex() or "-", len(payload))
        want = ref_message(mtype, code, mid, token, optbytes, payload)
        r = K.attempt(I, lambda: I.call(I.getattr(build(mtype, code, mid, token, payload, opts), "encode"), [], {}))
        if not r.ok or not isinstance(r.value, (bytes, bytearray)):
            for lst in (byte0, codemid, middle, tail):
                lst.append((what, r.describe(), want.hex()))
            continue
        got = bytes(r.value)
        k = 4 + len(token) + len(optbytes)
        byte0.append((what, got[:1].hex(), want[:1].hex()))
        codemid.append((what, got[1:4].hex(), want[1:4].hex()))
        middle.append((what, got[4:k].hex(), want[4:k].hex()))
        tail.append((what, got[k:].hex(), want[k:].hex()))
    ctx.floor("header writer vectors", len(vectors), 100)
    d = first_diff(byte0)
    ctx.ob("first header byte is Ver(2 bits at 7..6) | T(2 bits at 5..4) | TKL(4 bits at 3..0)", d is None, enc, enc.node, construct="Message.encode first byte", detail=d)
    d = first_diff(codemid)
    ctx.ob("bytes 1..3 are Code and Message ID in network byte order", d is None, enc, enc.node, construct="Message.encode code and message ID", detail=d)
    d = first_diff(middle)
    ctx.ob("header is followed by the token, then the options", d is None, enc, enc.node, construct="Message.encode token and options", detail=d)
    d = first_diff(tail)
    ctx.ob("the payload marker 0xFF and the payload are emitted iff the payload is non-empty", d is None, enc, enc.node, construct="Message.encode payload marker", detail=d)

    # ---- reader
    decode = I.getattr(Message, "decode")
    bad_version = []
    for b0 in range(256):
        if (b0 >> 6) == 1:
            continue
        for rest in (b"\x01\x00\x01", b"\x01\x00\x01" + bytes(15) + b"\xffpl"):
            r = K.run(I, decode, bytes([b0]) + rest)
            bad_version.append(("first byte %#04x" % b0, "rejected" if r.raised(ALLOWED) else r.describe(), "rejected"))
    d = first_diff(bad_version)
    ctx.ob("the reader rejects a version field (bits 7..6) different from 1", d is None, dec, dec.node, construct="version check in Message.decode", detail=d)
    f_type, f_token, f_rest, f_code, f_mid = [], [], [], [], []
    rvectors = [(mtype, code, mid, token, [], payload) for mtype, code, mid, token, payload, opts in vectors if not opts]
    rvectors.append((0, 1, 0x4321, b"\x01\x02\x03", [(1, b"if"), (4, b"etag"), (4, b"e2"), (2000, b"x" * 14)], b"body"))
    rvectors.append((3, 0, 0x0100, b"", [(2000, b"")], b""))
    for mtype, code, mid, token, opts, payload in rvectors:
        what = "type %d code %d mid %#06x token %s %d option(s) payload %d byte(s)" % (mtype, code, mid, token.hex() or "-", len(opts), len(payload))
        raw = ref_message(mtype, code, mid, token, ref_options(opts), payload)
        r = K.run(I, decode, raw)
        if not r.ok:
            for lst in (f_type, f_token, f_rest, f_code, f_mid):
                lst.append((what, r.describe(), "parsed"))
            continue
        m = r.value

        def field(name):
            o2 = K.attempt(I, lambda: I.getattr(m, name))
            return o2.value if o2.ok else o2.describe()
        mt = field("mtype")
        want_mt = I.call(Type, [mtype], {})
        f_type.append((what, "%r%s" % (mt, "" if mt is want_mt else " (not the Type member)"), "%r" % (want_mt,)))
        f_token.append((what, _hex(field("token")), token.hex()))
        got_opts = K.attempt(I, lambda: [(int(I.getattr(x, "number")), bytes(I.call(I.getattr(x, "encode"), [], {}))) for x in I.iterate(I.call(I.getattr(I.getattr(m, "opt"), "option_list"), [], {}))])
        f_rest.append((what, "%s / %s" % (got_opts.value if got_opts.ok else got_opts.describe(), _hex(field("payload"))), "%s / %s" % (sorted(opts, key=lambda x: x[0]), payload.hex())))
        cd = field("code")
        f_code.append((what, repr(int(cd)) if isinstance(cd, int) else repr(cd), repr(code)))
        md = field("mid")
        f_mid.append((what, repr(md), repr(mid)))
    ctx.floor("header reader vectors", len(rvectors), 80)
    d = first_diff(f_type)
    ctx.ob("the reader takes the type from bits 5..4", d is None, dec, dec.node, construct="Message.decode type", detail=d)
    d = first_diff(f_token)
    ctx.ob("the reader takes TKL from bits 3..0 and the token from bytes 4..4+TKL", d is None, dec, dec.node, construct="Message.decode token", detail=d)
    d = first_diff(f_rest)
    ctx.ob("options and payload are parsed from the bytes after the token", d is None, dec, dec.node, construct="Message.decode options and payload", detail=d)
    d = first_diff(f_code)
    ctx.ob("the code byte becomes the message code", d is None, dec, dec.node, construct="Message.decode code", detail=d)
    d = first_diff(f_mid)
    ctx.ob("the 16-bit field (network byte order) becomes the message ID", d is None, dec, dec.node, construct="Message.decode message ID", detail=d)

# ---------------------------------------------------------------------------
# d: option delta/length nibble codec

RFC_ARMS = [  # RFC 7252 section 3.1: (lo, hi, nibble, extension bytes, offset)
    (0, 12, None, 0, 0),
    (13, 268, 13, 1, 13),
    (269, 65804, 14, 2, 269),
]
TABLE_MAX = 65804


def int_constants(*fis):
    """integer constants of the functions (helpers are expanded in the canonical form) and of the module-level
    assignments of their modules (tables the functions may be driven by)"""
    out = set()
    roots = [fi.node for fi in fis]
    for m in {id(fi.module): fi.module for fi in fis}.values():
        roots.extend(st for st in m.tree.body if isinstance(st, (ast.Assign, ast.AnnAssign)))
    for r in roots:
        for n in ast.walk(r):
            if isinstance(n, ast.Constant) and isinstance(n.value, int) and not isinstance(n.value, bool) and abs(n.value) < 1 << 20:
                out.add(n.value)
    return out


def nibble_points(ctx, exhaustive):
    """the values the nibble codec is evaluated on.  Thorough tier: every value of the table and a margin around it.
    Quick tier: every value within 40 of a breakpoint -- of the RFC table, of the byte widths, and of *every integer
    constant that occurs in the two functions* (a shifted boundary or offset in the code is a constant in the code,
    so its neighbourhood is covered whatever it was changed to), shifted by the RFC offsets as well, plus a sweep."""
    if exhaustive:
        return list(range(-300, TABLE_MAX + 600)) + [1 << 16 | 5, 1 << 20, -(1 << 16)]
    wf = ctx.prog.func("options._write_extended_field_value")
    rf = ctx.prog.func("options._read_extended_field_value")
    centres = {0, 12, 13, 268, 269, 255, 256, 65535, 65536, TABLE_MAX, TABLE_MAX + 1} | int_constants(wf, rf)
    centres |= {c + o for c in list(centres) for o in (13, 269, -13, -269)}
    pts = set(range(0, TABLE_MAX + 1, 41)) | {1 << 20, -(1 << 16), 70000, 131072 + 269}
    for c_ in centres:
        pts.update(range(c_ - 40, c_ + 41))
    return sorted(p for p in pts if -400 <= p <= TABLE_MAX + 70000 or p in (1 << 20, -(1 << 16)))


def check_nibble_codec(ctx, exhaustive):
    I = interp(ctx)
    wf = ctx.prog.func("options._write_extended_field_value")
    rf = ctx.prog.func("options._read_extended_field_value")
    write = g_(I, "options", "_write_extended_field_value")
    read = g_(I, "options", "_read_extended_field_value")
    pts = nibble_points(ctx, exhaustive)
    ctx.floor("values the nibble codec is evaluated on", len(pts), 1800)
    tag = " (every value)" if exhaustive else ""
    # ---- writer
    cover = {a[0]: [] for a in RFC_ARMS}
    encod = {a[0]: [] for a in RFC_ARMS}
    outside = []
    for v in pts:
        r = K.run(I, write, v)
        want = ref_ext(v)
        if want is None:
            outside.append(("value %d" % v, "refused" if not r.ok else r.describe(), "refused"))
            continue
        lo = next(a[0] for a in RFC_ARMS if a[0] <= v <= a[1])
        if not r.ok:
            cover[lo].append(("value %d" % v, r.describe(), "encoded"))
            continue
        try:
            got = (r.value[0], bytes(r.value[1])) if len(r.value) == 2 else r.value
        except (TypeError, ValueError, IndexError):
            got = r.value
        encod[lo].append(("value %d" % v, "nibble %r extension %s" % (got[0], _hex(got[1])) if isinstance(got, tuple) and len(got) == 2 else repr(got), "nibble %r extension %s" % (want[0], want[1].hex())))
    for lo, hi, rn, rw, roff in RFC_ARMS:
        nm = rn if rn is not None else "inline"
        d = first_diff(cover[lo])
        ctx.ob("writer arm for values %d..%d covers exactly that range%s" % (lo, hi, tag), d is None, wf, wf.node, construct="_write_extended_field_value arm nibble %s" % nm, detail=d)
        d = first_diff(encod[lo])
        ctx.ob("writer arm %d..%d uses nibble %s, %d big-endian extension byte(s), offset %d%s" % (lo, hi, rn if rn is not None else "=value", rw, roff, tag), d is None, wf, wf.node,
               construct="_write_extended_field_value arm nibble %s encoding" % nm, detail=d)
    d = first_diff(outside)
    ctx.ob("values outside the table are refused by the writer%s" % tag, d is None and bool(outside), wf, wf.node, construct="def _write_extended_field_value: out of range", detail=d)
    # ---- reader (inputs from the reference writer: independent of the repository's writer)
    arms = {a[0]: [] for a in RFC_ARMS}
    for v in pts:
        want = ref_ext(v)
        if want is None:
            continue
        lo = next(a[0] for a in RFC_ARMS if a[0] <= v <= a[1])
        for tail_ in (b"", b"\x99\x88\x77"):
            r = K.run(I, read, want[0], want[1] + tail_)
            if r.ok:
                try:
                    got = "value %r rest %s" % (r.value[0], _hex(bytes(r.value[1]))) if len(r.value) == 2 else repr(r.value)
                except (TypeError, ValueError, IndexError):
                    got = repr(r.value)
            else:
                got = r.describe()
            arms[lo].append(("nibble %d data %s" % (want[0], (want[1] + tail_).hex() or "-"), got, "value %r rest %s" % (v, tail_.hex())))
    d = first_diff(arms[0])
    ctx.ob("reader returns nibbles 0..12 unchanged and consumes nothing%s" % tag, d is None, rf, rf.node, construct="_read_extended_field_value inline arm", detail=d)
    for lo, hi, rn, rw, roff in RFC_ARMS[1:]:
        d = first_diff(arms[lo])
        ctx.ob("reader arm for nibble %d reads %d byte(s) big endian, adds %d and consumes exactly those bytes%s" % (rn, rw, roff, tag), d is None, rf, rf.node,
               construct="_read_extended_field_value arm nibble %d" % rn, detail=d)
        short = []
        for k in range(rw):
            r = K.run(I, read, rn, bytes([0x21] * k))
            short.append(("nibble %d with %d byte(s) left" % (rn, k), "rejected" if r.raised(ALLOWED) else r.describe(), "rejected"))
        d = first_diff(short)
        ctx.ob("reader arm for nibble %d is reached only with at least %d byte(s) left (otherwise UnparsableMessage)" % (rn, rw), d is None, rf, rf.node,
               construct="_read_extended_field_value arm nibble %d length guard" % rn, detail=d)
    r15 = []
    for data in (b"", b"\x00", b"\x01\x02\x03"):
        r = K.run(I, read, 15, data)
        r15.append(("nibble 15 data %s" % (data.hex() or "-"), "rejected" if r.raised(ALLOWED) else r.describe(), "rejected"))
    d = first_diff(r15)
    ctx.ob("nibble 15 is a format error", d is None, rf, rf.node, construct="_read_extended_field_value nibble 15", detail=d)
    return I


WRITER_SCENARIOS = [
    ("option byte is delta nibble (bits 7..4) | length nibble (bits 3..0)", "Options.encode option byte", [[(5, b"abc")], [(12, b"x" * 12)], [(1, b"")], [(9, b"123456789")]]),
    ("the delta is the option number minus the previous option number (starting from 0)", "Options.encode deltas", [[(1, b"a"), (4, b"b"), (4, b"c"), (11, b"d"), (60, b"e")], [(7, b""), (8, b""), (20, b"")]]),
    ("per option the writer emits: option byte, extended delta, extended length, value", "Options.encode emission order", [[(300, b"v" * 20)], [(20, b"w" * 300)], [(14, b"u" * 13), (14 + 270, b"t" * 270)]]),
    ("options are emitted sorted by option number (non-negative deltas), same-number options in insertion order", "Options.encode ordering",
     [[(11, b"b"), (3, b"h"), (11, b"a"), (60, b"z"), (3, b"g")], [(2000, b"2"), (35, b"1"), (2000, b"3"), (1, b"0")]]),
    ("deltas and lengths at the extended-field boundaries 12/13/268/269/65804 use the RFC encoding", "Options.encode boundaries",
     [[(12, b"a" * 12), (12 + 13, b"b" * 13), (12 + 13 + 268, b"c" * 268), (12 + 13 + 268 + 269, b"d" * 269)], [(65804, b"")], [(1, b""), (1 + 65804, b"x")]]),
]

READER_SCENARIOS = [
    ("the reader resolves the delta nibble (bits 7..4) first, then the length nibble (bits 3..0), as written", "Options.decode option byte", [([(5, b"abc")], b"pl"), ([(1, b"")], b""), ([(300, b"v" * 20)], b"x"), ([(20, b"w" * 300)], b"")]),
    ("the reader accumulates deltas into the option number", "Options.decode deltas", [([(1, b"a"), (4, b"b"), (4, b"c"), (11, b"d"), (60, b"e")], b""), ([(2000, b"2"), (2000, b"3"), (2013, b"4"), (67817, b"5")], b"p")]),
    ("the option value is the next `length` bytes and the reader advances by exactly `length` bytes", "Options.decode values", [([(4, b"0123456789ab"), (4, b"c" * 13), (5, b""), (2100, b"d" * 269), (2100, b"e" * 268)], b"tail")]),
    ("a 0xFF byte at an option boundary ends the options; the payload is everything after it", "Options.decode payload marker", [([], b"only payload"), ([(4, b"\xff\xff")], b"\xff\xffp"), ([(1, b"x")], b""), ([], b"")]),
]

MALFORMED = [
    ("value shorter than announced", b"\x45abcd"), ("extended delta missing", b"\xd0"), ("extended length missing", b"\x0e\x01"), ("delta nibble 15 without length 15", b"\xf0"),
    ("length nibble 15", b"\x1f"), ("truncated two-byte extension", b"\xe0\x01"), ("second option truncated", b"\x11a\x12b"),
]


@R.clause("C01.d", "option delta/length nibble codec: writer table = reader table = RFC 7252 section 3.1")
def d(ctx):
    I = check_nibble_codec(ctx, exhaustive=False)
    enc = ctx.prog.func("options.Options.encode")
    dec = ctx.prog.func("options.Options.decode")
    Options = g_(I, "options", "Options")
    ON = g_(I, "numbers.optionnumbers", "OptionNumber")
    for desc, key, scenarios in WRITER_SCENARIOS:
        rows = []
        for opts in scenarios:
            def go():
                o = I.call(Options, [], {})
                for num, data in opts:
                    I.call(I.getattr(o, "add_option"), [opaque_option(I, num, data)], {})
                return bytes(I.call(I.getattr(o, "encode"), [], {}))
            r = K.attempt(I, go)
            rows.append(("options %s" % [(n, len(v)) for n, v in opts], r.value.hex() if r.ok else r.describe(), ref_options(opts).hex()))
        df = first_diff(rows)
        ctx.ob(desc, df is None, enc, enc.node, construct=key, detail=df)

    def parse(raw):
        o = I.call(Options, [], {})
        rest = I.call(I.getattr(o, "decode"), [raw], {})
        got = [(int(I.getattr(x, "number")), bytes(I.call(I.getattr(x, "encode"), [], {}))) for x in I.iterate(I.call(I.getattr(o, "option_list"), [], {}))]
        return got, bytes(rest)

    for desc, key, scenarios in READER_SCENARIOS:
        rows = []
        for opts, payload in scenarios:
            raw = ref_options(opts) + (b"\xff" + payload if payload else b"")
            r = K.attempt(I, lambda: parse(raw))
            rows.append(("option bytes %s" % (raw[:24].hex() + (".." if len(raw) > 24 else "")), "%s payload %s" % (r.value[0], r.value[1].hex()) if r.ok else r.describe(),
                         "%s payload %s" % (sorted(opts, key=lambda x: x[0]), payload.hex())))
        df = first_diff(rows)
        ctx.ob(desc, df is None, dec, dec.node, construct=key, detail=df)
    rows = []
    for what, raw in MALFORMED:
        assert ref_parse_options(raw) is None
        r = K.attempt(I, lambda: parse(raw))
        rows.append(("%s (%s)" % (what, raw.hex()), "rejected" if r.raised(ALLOWED) else r.describe(), "rejected"))
    df = first_diff(rows)
    ctx.ob("option bytes that are not well-formed under RFC 7252 section 3.1 are rejected with UnparsableMessage", df is None, dec, dec.node, construct="Options.decode malformed", detail=df)
    # option_list is the order both encode and the users see
    ol = ctx.prog.func("options.Options.option_list")
    rows = []
    for opts in ([(11, b"b"), (3, b"h"), (11, b"a"), (60, b"z"), (3, b"g")], [(5, b"")], []):
        def go2():
            o = I.call(Options, [], {})
            for num, data in opts:
                I.call(I.getattr(o, "add_option"), [opaque_option(I, num, data)], {})
            return [(int(I.getattr(x, "number")), bytes(I.call(I.getattr(x, "encode"), [], {}))) for x in I.iterate(I.call(I.getattr(o, "option_list"), [], {}))]
        r = K.attempt(I, go2)
        rows.append(("options added as %s" % opts, repr(r.value) if r.ok else r.describe(), repr(sorted(opts, key=lambda x: x[0]))))
    df = first_diff(rows)
    ctx.ob("option_list yields options sorted by option number (non-negative deltas), same-number options in insertion order", df is None, ol, ol.node, construct="Options.option_list order", detail=df)


@R.clause("C01.d", "nibble codec evaluated on every value of the table 0..65804 and a margin around it", tier="thorough")
def d_thorough(ctx):
    check_nibble_codec(ctx, exhaustive=True)

# ---------------------------------------------------------------------------
# e: per-format value codecs


def uint_samples():
    s = set(range(0, 600)) | {65535, 65536, 65537, 16777215, 16777216}
    for k in range(1, 73):
        s.update({(1 << k) - 1, 1 << k, (1 << k) + 1})
    return sorted(s)


@R.clause("C01.e", "per-format value codecs: encode and decode of each OptionType agree")
def e(ctx):
    I = interp(ctx)
    tm = ctx.prog.func("optiontypes._to_minimum_bytes")
    f_tm = g_(I, "optiontypes", "_to_minimum_bytes")
    ON = g_(I, "numbers.optionnumbers", "OptionNumber")
    rows = []
    for v in uint_samples():
        r = K.run(I, f_tm, v)
        rows.append(("value %d" % v, _hex(r.value) if r.ok else r.describe(), ref_uint(v).hex()))
    df = first_diff(rows)
    ctx.ob("_to_minimum_bytes is the minimal big-endian rendering (ceil(bit_length/8) bytes)", df is None, tm, tm.node, construct="optiontypes._to_minimum_bytes", detail=df)

    def codec(clsname, number):
        cls = g_(I, "optiontypes", clsname)
        num = I.call(ON, [number], {})

        def enc(value):
            return K.attempt(I, lambda: bytes(I.call(I.getattr(I.call(cls, [num, value], {}), "encode"), [], {})))

        def dec(raw):
            def go():
                o = I.call(cls, [num], {})
                I.call(I.getattr(o, "decode"), [raw], {})
                return I.getattr(o, "value"), bytes(I.call(I.getattr(o, "encode"), [], {}))
            return K.attempt(I, go)
        return enc, dec

    def show(r, f=lambda v: repr(v)):
        return f(r.value) if r.ok else r.describe()

    # String: UTF-8 of exactly the value (no normalisation: the decoded message must equal the one serialised)
    so_e = ctx.prog.func("optiontypes.StringOption.encode")
    enc, dec = codec("StringOption", 11)
    rows = []
    for s_ in ("", "a", "temp", "\u00e9", "e\u0301", "\u212b", "\u2126", "n\u0303", "\uf900", "\u4e16\u754c", "\U0001f600", "a/b c%20", "\u00c5"):
        raw = s_.encode("utf-8")
        rows.append(("encode %a" % s_, show(enc(s_), _hex), raw.hex()))
        rows.append(("decode %s" % raw.hex(), show(dec(raw), lambda v: "%a re-encoded %s" % (v[0], v[1].hex())), "%a re-encoded %s" % (s_, raw.hex())))
    df = first_diff(rows)
    ctx.ob("String options are the UTF-8 of the value in both directions", df is None, so_e, so_e.node, construct="StringOption codec", detail=df)
    # Opaque: identity
    oo_e = ctx.prog.func("optiontypes.OpaqueOption.encode")
    enc, dec = codec("OpaqueOption", 4)
    rows = []
    for raw in (b"", b"\x00", b"\xff\xfe", bytes(range(256)), b"\xc3\x28"):
        rows.append(("encode %s" % raw.hex(), show(enc(raw), _hex), raw.hex()))
        rows.append(("decode %s" % raw.hex(), show(dec(raw), lambda v: "%s re-encoded %s" % (_hex(v[0]), v[1].hex())), "%s re-encoded %s" % (raw.hex(), raw.hex())))
    df = first_diff(rows)
    ctx.ob("Opaque options are the identity in both directions", df is None, oo_e, oo_e.node, construct="OpaqueOption codec", detail=df)
    # Uint / ContentFormat: minimal big-endian unsigned integer
    for clsname, number, samples in (("UintOption", 7, uint_samples()), ("ContentFormatOption", 12, [0, 1, 40, 41, 42, 47, 50, 60, 110, 255, 256, 10000, 65535])):
        fe = ctx.prog.func("optiontypes.%s.encode" % clsname)
        enc, dec = codec(clsname, number)
        rows = []
        for v in samples:
            raw = ref_uint(v)
            rows.append(("encode %d" % v, show(enc(v), _hex), raw.hex()))
            for pad in (b"", b"\x00"):
                if pad and (clsname != "UintOption" or v > 70000):
                    continue
                rows.append(("decode %s" % (pad + raw).hex(), show(dec(pad + raw), lambda x: "%d re-encoded %s" % (int(x[0]), x[1].hex())), "%d re-encoded %s" % (v, raw.hex())))
        df = first_diff(rows)
        ctx.ob("%s: minimal big-endian unsigned integer in both directions" % clsname, df is None, fe, fe.node, construct="%s codec" % clsname, detail=df)
    # Block: NUM << 4 | M << 3 | SZX (RFC 7959 section 2.2)
    be_ = ctx.prog.func("optiontypes.BlockOption.encode")
    bd_ = ctx.prog.func("optiontypes.BlockOption.decode")
    enc, dec = codec("BlockOption", 23)
    wrows, rrows = [], []
    for num in (0, 1, 2, 15, 16, 17, 255, 256, 4095, 4096, 65535, (1 << 20) - 1):
        for more in (0, 1):
            for szx in range(8):
                val = (num << 4) | (more << 3) | szx
                raw = ref_uint(val)
                wrows.append(("encode NUM %d M %d SZX %d" % (num, more, szx), show(enc((num, more, szx)), _hex), raw.hex()))

                def fields(x):
                    v = x[0]
                    return "NUM %d M %d SZX %d re-encoded %s" % (int(I.getattr(v, "block_number")), int(bool(I.truth(I.getattr(v, "more")))), int(I.getattr(v, "size_exponent")), x[1].hex())
                r = dec(raw)
                rrows.append(("decode %s" % raw.hex(), K.attempt(I, lambda: fields(r.value)).value if r.ok else r.describe(), "NUM %d M %d SZX %d re-encoded %s" % (num, more, szx, raw.hex())))
    df = first_diff(wrows)
    ctx.ob("Block option writer: NUM << 4 | M << 3 | SZX (RFC 7959 section 2.2), minimal big-endian", df is None, be_, be_.node, construct="BlockOption.encode layout", detail=df)
    df = first_diff(rrows)
    ctx.ob("Block option reader: big-endian unsigned integer, NUM = value >> 4, M = bit 3, SZX = bits 2..0", df is None, bd_, bd_.node, construct="BlockOption.decode layout", detail=df)


# ---------------------------------------------------------------------------
# f: registry

RFC_FORMATS = {  # option name: (number, format class family)
    "IF_MATCH": (1, "OpaqueOption"), "URI_HOST": (3, "StringOption"), "ETAG": (4, "OpaqueOption"), "IF_NONE_MATCH": (5, "OpaqueOption"),
    "OBSERVE": (6, "UintOption"), "URI_PORT": (7, "UintOption"), "LOCATION_PATH": (8, "StringOption"), "OSCORE": (9, "OpaqueOption"),
    "URI_PATH": (11, "StringOption"), "CONTENT_FORMAT": (12, "ContentFormatOption"), "MAX_AGE": (14, "UintOption"), "URI_QUERY": (15, "StringOption"),
    "HOP_LIMIT": (16, "UintOption"), "ACCEPT": (17, "ContentFormatOption"), "LOCATION_QUERY": (20, "StringOption"), "BLOCK2": (23, "BlockOption"),
    "BLOCK1": (27, "BlockOption"), "SIZE2": (28, "UintOption"), "PROXY_URI": (35, "StringOption"), "PROXY_SCHEME": (39, "StringOption"),
    "SIZE1": (60, "UintOption"), "ECHO": (252, "OpaqueOption"), "NO_RESPONSE": (258, "UintOption"), "REQUEST_TAG": (292, "OpaqueOption"),
}


@R.clause("C01.f", "option number -> format registrations equal the RFC registry table")
def f(ctx):
    I = interp(ctx)
    regs, default = format_table(I)
    ON = g_(I, "numbers.optionnumbers", "OptionNumber")
    gf = ctx.prog.func("numbers.optionnumbers.OptionNumber._get_format")
    n_ok = 0
    for name, (num, fmt) in sorted(RFC_FORMATS.items(), key=lambda kv: kv[1][0]):
        val = regs[name][0] if name in regs else None
        ctx.ob("OptionNumber.%s == %d" % (name, num), val == num, None, None, construct="OptionNumber.%s" % name, detail="value %r" % val)
        # what the codec consults: the format of the member the *number* resolves to
        r = K.attempt(I, lambda: I.getattr(I.call(ON, [num], {}), "format"))
        got = short_name(r.value) if r.ok else r.describe()
        ctx.ob("option %s (%d) is serialised as %s" % (name, num, fmt), got == fmt, None, None, construct="OptionNumber.%s format" % name, detail="registered %s" % got)
        n_ok += 1
    ctx.floor("registry rows", n_ok, 24)
    ctx.ob("unregistered option numbers are opaque", short_name(default) == "OpaqueOption", gf, gf.node, construct="OptionNumber._get_format default", detail="default %s" % short_name(default))
    extra = sorted(set(regs) - set(RFC_FORMATS))
    if extra:
        ctx.note("registrations outside the RFC table (information only): %s" % ", ".join("%s=%s" % (k, short_name(regs[k][1])) for k in extra))


# ---------------------------------------------------------------------------
# g: identity of numbers created on demand


@R.clause("C01.g", "option numbers the library has no name for keep their identity: every number created on demand is entered into the enum's member table, so a format registered for it is found again")
def g_dynamic_members(ctx):
    """The codec finds an option's format through OptionNumber(n).format, an attribute of the *member object*.  Unknown
    numbers are created by ExtensibleIntEnum._missing_, which must enter the new member into the enum's value table
    unconditionally; an independently written breaking change stopped doing so once the table held 1024 entries, and
    formats registered for later numbers (set_format) no longer applied: the same bytes decoded to another value."""
    fi = ctx.prog.func("util.ExtensibleIntEnum._missing_")
    sf = ctx.prog.func("numbers.optionnumbers.OptionNumber.set_format")
    # (1) every normal path of _missing_ enters the member it returns into the table (or returns what the table holds)
    cfg = cfg_of(fi)
    stores = [(k, n) for k, n in stores_to_any(fi.node, "_value2member_map_") if k in ("setitem", "setdefault", "update", "assign")]
    snodes = set()
    for k, n in stores:
        snodes.update(cfg.locate(n))
    pm = PathModel(fi)
    bad = None
    nret = 0
    for p in pm.paths():
        if p.end not in ("return", "fall"):
            continue
        nret += 1
        if snodes & set(p.nodes):
            continue
        # a path that does not store must hand out what the table already holds
        last = [cfg.nodes[x] for x in p.nodes if cfg.nodes[x].kind == "return"]
        rv = resolve_local(fi.node, last[-1].ast.value) if last and last[-1].ast.value is not None else None
        reads_table = rv is not None and any(isinstance(x, ast.Attribute) and x.attr == "_value2member_map_" for x in ast.walk(rv))
        if not reads_table:
            bad = pm.describe(p)
    ctx.need(nret >= 1, "ExtensibleIntEnum._missing_ has no returning path")
    history = 4200
    if stores:
        ctx.ob("_missing_ registers the member it returns under its value, unconditionally", bad is None, fi, stores[0][1],
               construct=stmt_text(stores[0][1]), detail=("not registered when %s" % bad) if bad else None)
    else:
        # the registration is spelled in a way the store finder does not see: decided by the evaluation below alone, over a
        # history longer than any table bound that would still be practical (one member per 16-bit option number)
        ctx.note("no syntactic store into _value2member_map_ found in _missing_; identity decided by evaluation over 70000 numbers")
        history = 70000
    # (2) the observable consequence, evaluated: a number created on demand is the same object every time, also after
    # thousands of other numbers have been seen, and a format set on it is what the codec finds
    I = interp(ctx)
    ON = g_(I, "numbers.optionnumbers", "OptionNumber")
    uint = g_(I, "optiontypes", "UintOption")
    opaque = g_(I, "optiontypes", "OpaqueOption")

    def scenario():
        probs = []
        a1 = I.call(ON, [4242], {})
        if I.call(ON, [4242], {}) is not a1:
            probs.append("OptionNumber(4242) twice gives two objects")
        if I.binop(ast.Add, I.call(ON, [4000], {}), 242) is not a1:
            probs.append("OptionNumber(4000) + 242 is not the object OptionNumber(4242)")
        if I.getattr(a1, "format") is not opaque:
            probs.append("format of a fresh number is %s" % short_name(I.getattr(a1, "format")))
        I.call(I.getattr(a1, "set_format"), [uint], {})
        if I.getattr(I.call(ON, [4242], {}), "format") is not uint:
            probs.append("a format set on OptionNumber(4242) is not found through OptionNumber(4242) afterwards")
        for n in range(100000, 100000 + history):
            I.call(ON, [n], {})
        late = I.call(ON, [40001], {})
        I.call(I.getattr(late, "set_format"), [uint], {})
        got = I.getattr(I.binop(ast.Add, I.call(ON, [40000], {}), 1), "format")
        if got is not uint:
            probs.append("after thousands of other numbers, a format set on OptionNumber(40001) is not found again (found %s)" % short_name(got))
        if I.getattr(I.call(ON, [4242], {}), "format") is not uint:
            probs.append("the format of OptionNumber(4242) was lost")
        return probs

    r = K.attempt(I, scenario)
    probs = r.value if r.ok else [r.describe()]
    ctx.ob("the format is stored on and read from the member object, and numbers created on demand are that one object every time", not probs, sf, sf.node,
           construct="OptionNumber format identity", detail="; ".join(probs) if probs else None)


# ---------------------------------------------------------------------------
# h: the receive path hands the parser whole datagrams

RECV_FLOOR = 4096  # hand-confirmed on the confirmed tree: datagrams up to this size reach Message.decode unshortened


def _size_candidates(ctx, I, fi, e, depth=0):
    """every value the buffer-size expression can take, as integers, through def-use: locals, `self.X` as class
    attribute along the MRO (and overrides in subclasses) or as instance attribute assigned in any method of the
    class, module constants, constant arithmetic (evaluated in the checker's evaluator)"""
    if depth > 4:
        raise AnalysisError("buffer size of recvmsg(): def-use chain too deep")
    e = resolve_value(fi.node, e)
    c = chain(e)
    if c and c.startswith("self.") and c.count(".") == 1 and fi.cls is not None:
        attr = c.split(".")[1]
        out = []
        classes = [fi.cls.qn] + [q for q in ctx.prog.subclasses(fi.cls.qn) if q != fi.cls.qn]
        for q in classes:
            v, _ = I.class_lookup(I.classref(q), attr)
            if v is not None:
                out.append(v)
            for k in ctx.prog.mro(q):
                ci = ctx.prog.classes.get(k)
                if ci is None:
                    continue
                for m in ci.methods.values():
                    for kind, n in stores_to(m.node, c, nested=False):
                        if kind == "assign" and isinstance(n, (ast.Assign, ast.AnnAssign)) and n.value is not None:
                            out.extend(_size_candidates(ctx, I, m, n.value, depth + 1))
                        else:
                            raise AnalysisError("buffer size of recvmsg(): %s is modified in %s" % (c, m.short))
        if not out:
            raise AnalysisError("buffer size of recvmsg(): no value found for %s" % c)
        return out
    if isinstance(e, ast.IfExp):
        return _size_candidates(ctx, I, fi, e.body, depth + 1) + _size_candidates(ctx, I, fi, e.orelse, depth + 1)
    r = K.attempt(I, lambda: I.eval(e, K.Frame(set(), None, fi.module)))
    if not r.ok:
        raise AnalysisError("buffer size of recvmsg(): cannot evaluate %s" % stmt_text(e, 60))
    return [r.value]


@R.clause("C01.h", "the udp6 receive path hands the parser whole datagrams: the buffer passed to recvmsg() is not smaller than the hand-confirmed 4096 bytes, or truncation (MSG_TRUNC) is looked at")
def h(ctx):
    """A datagram longer than the buffer passed to recvmsg() is silently cut by the kernel before Message.decode sees it
    (an independently written breaking change halved the buffer): the parser then decodes a well-formed datagram into
    a message with a shortened payload."""
    I = interp(ctx)
    n = 0
    for fi in sorted(ctx.prog.funcs.values(), key=lambda f: f.qn):
        if not (fi.module.name.startswith("aiocoap.util.asyncio") or fi.module.name.startswith("aiocoap.transports")):
            continue
        for c in calls_in(fi.node):
            if not (isinstance(c.func, ast.Attribute) and c.func.attr == "recvmsg" and c.args):
                continue
            if any(isinstance(x, (ast.Attribute, ast.Name)) and (chain(x) or "").split(".")[-1] == "MSG_ERRQUEUE" for a_ in list(c.args[1:]) + [k.value for k in c.keywords] for x in ast.walk(a_)):
                continue  # the error queue carries ICMP reports, not datagrams for the parser
            n += 1
            looks_at_trunc = any(isinstance(x, (ast.Attribute, ast.Name)) and (chain(x) or "").split(".")[-1] == "MSG_TRUNC" for x in ast.walk(fi.node))
            vals = _size_candidates(ctx, I, fi, c.args[0])
            ints = [v for v in vals if isinstance(v, int) and not isinstance(v, bool)]
            ctx.need(len(ints) == len(vals), "buffer size of recvmsg() is not an integer: %r" % (vals,))
            ctx.ob("datagrams of up to %d bytes are received whole (recvmsg buffer size %s)" % (RECV_FLOOR, sorted(set(ints))), looks_at_trunc or min(ints) >= RECV_FLOOR, fi, c,
                   construct="recvmsg buffer size in %s" % fi.short, detail="buffer of %d bytes: longer datagrams are cut before they reach Message.decode" % min(ints))
    ctx.floor("recvmsg() call sites that receive datagrams", n, 1)


# ---------------------------------------------------------------------------
# i: serialisation is a function of the message's *current* fields (histories)

HIST_RAWS = (b"\x11", b"\x2a\x05", b"\x33")  # option values that are canonical in every value format of the registry


class Step:
    def __init__(self, label, family, fn):
        self.label, self.family, self.fn = label, family, fn


class Histories:
    """Necessary condition of C01 decided here: `encode()` maps the fields the message has *when it is called* to the
    RFC 7252 bytes -- whatever was serialised, compared or copied before, and through whichever documented path a field
    was changed since.  (Clauses c..e evaluate one serialisation per freshly built object: a serialisation that is
    remembered somewhere -- in the option set, in the message, in an option object, carried along by copy() -- and not
    dropped on *every* path that changes a field is invisible to them; a fourth-round breaking change remembered the option
    bytes in the option set and dropped them in add_option / delete_option only, so an option object's documented
    `.value` attribute, updated in place, no longer reached the wire.)

    Nothing about *how* such state is kept is matched (no field names, no store/invalidate sites): one object is driven
    through a history in the checker's evaluator -- observe (encode, or `==`, which serialises too), change a field,
    observe again -- next to a model of its fields kept here, and every serialisation is compared with the reference
    encoding of the model.  A behaviour-preserving edit cannot change any of these values; a correct memoisation (one
    that is validated against, or dropped by, every path) passes.  The paths: the five header/payload attributes of
    Message; Options.add_option (new and repeated number), delete_option, Options.decode into the same object; for
    every value format of the registry (and the default format) the option object's `.value` attribute and its
    decode(); every property of Options that exposes an option (found by evaluation: the getter answers differently
    once that option is present); Message.copy() with and without overrides, before and after each of the others."""

    def __init__(self, ctx):
        self.ctx = ctx
        I = self.I = interp(ctx)
        self.Message = g_(I, "message", "Message")
        self.Options = g_(I, "options", "Options")
        self.Type = g_(I, "numbers.types", "Type")
        self.Code = g_(I, "numbers.codes", "Code")
        self.ON = g_(I, "numbers.optionnumbers", "OptionNumber")
        regs, default = format_table(I)
        by = {}
        for name, (num, fmt) in sorted(regs.items(), key=lambda kv: kv[1][0]):
            by.setdefault(short_name(fmt), num)
        self.registered = sorted({num for num, _f in regs.values()})
        probe = 64999
        while probe in self.registered:
            probe -= 1
        by.setdefault(short_name(default) + " (unregistered number)", probe)
        self.formats = sorted((num, fmt) for fmt, num in by.items())
        ctx.floor("value formats driven through histories", len(self.formats), 4)
        # the samples must be canonical in each format, or the model's expectation (the raw value itself) would be wrong
        for num, fmt in self.formats:
            for raw in HIST_RAWS:
                r = K.attempt(I, lambda: bytes(self.call(self.new_option(num, raw), "encode")))
                ctx.need(r.ok and r.value == raw, "sample option value %s is not canonical for %s (option %d): %s" % (raw.hex(), fmt, num, r.describe()))

    # -- driving the evaluator
    def call(self, o, meth, *a, **k):
        return self.I.call(self.I.getattr(o, meth), list(a), k)

    def parse(self, pairs):
        o = self.I.call(self.Options, [], {})
        self.call(o, "decode", ref_options(pairs))
        return o

    def objs(self, o):
        return list(self.I.iterate(self.call(o, "option_list")))

    def new_option(self, num, raw):
        """an option object of the format the registry assigns to the number, as the parser creates it"""
        return self.objs(self.parse([(num, raw)]))[0]

    def build(self):
        I = self.I
        opts = [(num, HIST_RAWS[0]) for num, _f in reversed(self.formats)]
        m = I.call(self.Message, [], {"code": 69, "payload": b"state"})
        I.setattr(m, "mtype", I.call(self.Type, [1], {}))
        I.setattr(m, "mid", 0x0101)
        I.setattr(m, "token", b"\xaa")
        for num, raw in opts:
            self.call(I.getattr(m, "opt"), "add_option", self.new_option(num, raw))
        return {"m": m, "model": {"mtype": 1, "code": 69, "mid": 0x0101, "token": b"\xaa", "payload": b"state", "opts": opts}}

    @staticmethod
    def want(model):
        return ref_message(model["mtype"], model["code"], model["mid"], model["token"], ref_options(model["opts"]), model["payload"])

    def observe(self, st, how):
        I = self.I
        if how == "==":
            # Options.__eq__ is allowed to serialise; its answer is not what is decided here
            I.compare(ast.Eq(), I.getattr(st["m"], "opt"), self.parse(st["model"]["opts"]))
            return None
        return bytes(self.call(st["m"], "encode"))

    # -- the paths through which a field changes
    def _other_raw(self, model, num):
        cur = next(raw for n, raw in model["opts"] if n == num)
        return next(r for r in HIST_RAWS if r != cur)

    def _first_obj(self, st, num):
        return next(x for x in self.objs(self.I.getattr(st["m"], "opt")) if int(self.I.getattr(x, "number")) == num)

    @staticmethod
    def _replace_first(model, num, raw):
        i = next(i for i, (n, _r) in enumerate(model["opts"]) if n == num)
        model["opts"] = model["opts"][:i] + [(num, raw)] + model["opts"][i + 1:]

    def core_steps(self):
        I = self.I
        steps = []

        def attr(name, new_model, to_value=lambda v: v):
            def fn(st):
                v = new_model(st["model"])
                I.setattr(st["m"], name, to_value(v))
                st["model"][name] = v
            steps.append(Step("%s assigned" % name, "attr", fn))
        attr("mid", lambda mo: (mo["mid"] + 0x1111) & 0xFFFF)
        attr("token", lambda mo: mo["token"] + b"\x5a" if len(mo["token"]) < 8 else b"")
        attr("payload", lambda mo: b"" if mo["payload"] else b"again")
        attr("payload", lambda mo: mo["payload"] + b"+")
        attr("mtype", lambda mo: (mo["mtype"] + 1) % 4, lambda v: I.call(self.Type, [v], {}))
        attr("code", lambda mo: (mo["code"] + 64) % 256, lambda v: I.call(self.Code, [v], {}))

        def add_new(st):
            num = max(n for n, _r in st["model"]["opts"]) + 7
            self.call(I.getattr(st["m"], "opt"), "add_option", self.new_option(num, HIST_RAWS[1]))
            st["model"]["opts"] = st["model"]["opts"] + [(num, HIST_RAWS[1])]
        steps.append(Step("add_option (new number)", "set", add_new))

        def add_same(st):
            num = st["model"]["opts"][-1][0]
            self.call(I.getattr(st["m"], "opt"), "add_option", self.new_option(num, HIST_RAWS[2]))
            st["model"]["opts"] = st["model"]["opts"] + [(num, HIST_RAWS[2])]
        steps.append(Step("add_option (number already present)", "set", add_same))

        def delete(st):
            num = st["model"]["opts"][0][0]
            self.call(I.getattr(st["m"], "opt"), "delete_option", I.call(self.ON, [num], {}))
            st["model"]["opts"] = [(n, r) for n, r in st["model"]["opts"] if n != num]
        steps.append(Step("delete_option", "set", delete))

        def decode_more(st):
            more = [(2, b"\x01"), (self.formats[0][0], HIST_RAWS[1])]
            self.call(I.getattr(st["m"], "opt"), "decode", ref_options(more))
            st["model"]["opts"] = st["model"]["opts"] + sorted(more)
        steps.append(Step("Options.decode into the same object", "set", decode_more))

        def replace_opt(st):
            new = st["model"]["opts"][1:] + [(self.formats[0][0], HIST_RAWS[2])]
            I.setattr(st["m"], "opt", self.parse(new))
            st["model"]["opts"] = new
        steps.append(Step("opt assigned (another option set)", "set", replace_opt))

        for num, fmt in self.formats:
            def set_value(st, num=num):
                if not any(n == num for n, _r in st["model"]["opts"]):
                    return
                raw = self._other_raw(st["model"], num)
                I.setattr(self._first_obj(st, num), "value", I.getattr(self.new_option(num, raw), "value"))
                self._replace_first(st["model"], num, raw)
            steps.append(Step("%s: option object's .value assigned" % fmt, "value:" + fmt, set_value))

            def decode_value(st, num=num):
                if not any(n == num for n, _r in st["model"]["opts"]):
                    return
                raw = self._other_raw(st["model"], num)
                self.call(self._first_obj(st, num), "decode", raw)
                self._replace_first(st["model"], num, raw)
            steps.append(Step("%s: option object's decode() called" % fmt, "value:" + fmt, decode_value))
        return steps

    def copy_steps(self):
        I = self.I

        def plain(st):
            st["m"] = self.call(st["m"], "copy")
            st["model"] = dict(st["model"])

        def overrides(st):
            mo = dict(st["model"])
            mo["mid"] = (mo["mid"] + 0x0202) & 0xFFFF
            mo["payload"] = mo["payload"] + b"/copy"
            st["m"] = self.call(st["m"], "copy", mid=mo["mid"], payload=mo["payload"])
            st["model"] = mo
        return [Step("copy()", "copy", plain), Step("copy(mid=.., payload=..)", "copy", overrides)]

    def views(self):
        """[(property name of Options, option number it exposes)]: found by evaluation, not by name"""
        I = self.I
        ns = I.class_ns(self.Options.qn)
        props = sorted(k for k, v in ns.items() if isinstance(v, K.Property) and v.fget is not None and v.fset is not None)
        empty = I.call(self.Options, [], {})
        out, skipped = [], []
        for name in props:
            try:
                base = K.attempt(I, lambda: I.getattr(empty, name))
                if not base.ok:
                    skipped.append(name)
                    continue
                for num in self.registered:
                    got = K.attempt(I, lambda: I.getattr(self.parse([(num, HIST_RAWS[0])]), name))
                    if got.ok and not (got.value is base.value or I.truth(I.equals(got.value, base.value))):
                        out.append((name, num))
            except K.Unsupported as e:
                skipped.append("%s (%s)" % (name, e))
        if skipped:
            self.ctx.note("properties of Options not driven through a history: %s" % ", ".join(skipped))
        return out

    def view_history(self, name, num, observe):
        """encode, assign through the view what the view shows on another option set, encode (then, where the property has
        a deleter, delete through it and encode once more): each of these serialisations
        is the reference encoding of the options the object now holds, each read through option_list() and serialised by
        its own encode() (both decided by clauses d and e).  The model is not used here: what a view's setter stores for
        a value (a presence view stores an empty option) is the view's business."""
        I = self.I
        st = self.build()
        opt = I.getattr(st["m"], "opt")
        self.observe(st, observe)
        src = self.parse([(num, HIST_RAWS[1])])
        I.setattr(opt, name, I.getattr(src, name))

        def readback():
            return [(int(I.getattr(x, "number")), bytes(self.call(x, "encode"))) for x in self.objs(opt)]
        now = readback()
        changed = now != sorted(st["model"]["opts"], key=lambda o: o[0])
        out = [(bytes(self.call(st["m"], "encode")), self.want(dict(st["model"], opts=now)))]
        if I.class_ns(self.Options.qn)[name].fdel is not None:
            I.delattr(opt, name)
            then = readback()
            changed = changed and then != now
            out.append((bytes(self.call(st["m"], "encode")), self.want(dict(st["model"], opts=then))))
        return out, changed

    def run(self, steps, observe="encode"):
        """-> [(history text, got, want, family of the last step)]"""
        rows = []
        st = self.build()
        text = "new message"
        first = self.observe(st, observe)
        if first is not None:
            rows.append((text + "; encode()", first.hex(), self.want(st["model"]).hex(), None))
        else:
            text += "; opt == other"
        for s in steps:
            text += "; " + s.label
            r = K.attempt(self.I, lambda: (s.fn(st), self.observe(st, "encode"))[1])
            rows.append((text + "; encode()", r.value.hex() if r.ok else r.describe(), self.want(st["model"]).hex(), s.family))
            if not r.ok:
                break
        return rows


HIST_FAMILIES = (
    ("attr", "message.Message.encode", "a message attribute (type, code, message ID, token, payload) assigned after a serialisation is what the next serialisation carries", "history: message attribute assigned"),
    ("set", "options.Options.encode", "options added, removed or parsed into the option set after a serialisation are what the next serialisation carries", "history: option set changed"),
    ("value", "options.Options.encode", "an option value updated in place through the option object (.value, decode()) after a serialisation is what the next serialisation carries", "history: option value updated in place"),
    ("view", "options.Options.encode", "an option assigned through a property of Options after a serialisation is what the next serialisation carries", "history: option assigned through a view"),
    ("copy", "message.Message.copy", "a copy of a message that was serialised before serialises its own current fields", "history: copy of a serialised message"),
)


def history_obligations(ctx, rows, tag=""):
    """rows: [(text, got, want, family)]; one obligation per family of paths (per value format for in-place updates)"""
    n = {}
    for fam, anchor, desc, key in HIST_FAMILIES:
        fi = ctx.prog.func(anchor)
        mine = [r for r in rows if r[3] is not None and r[3].split(":")[0] == fam]
        groups = {}
        for r in mine:
            groups.setdefault(r[3], []).append(r)
        for g, rs in sorted(groups.items()):
            sub = g.split(":", 1)[1] if ":" in g else None
            df = first_diff([(t, got, want) for t, got, want, _f in rs])
            ctx.ob(desc + (" (%s)" % sub if sub else "") + tag, df is None, fi, fi.node, construct=key + (" (%s)" % sub if sub else ""), detail=df)
        n[fam] = len(mine)
    return n


def history_rows(ctx, H, pairs):
    """singles: every path after an encode() and after an `==`; pairs: ordered pairs of paths (every pair with a copy
    in it; all pairs of the core paths when pairs == 'all')"""
    rows = []
    core, copies = H.core_steps(), H.copy_steps()
    fresh = None
    for s in core + copies:
        for obs in ("encode", "=="):
            rs = H.run([s], obs)
            if rs and rs[0][3] is None:
                fresh = fresh or rs[0]
            rows.extend(r for r in rs if r[3] is not None)
    for c_ in copies:
        for s in core + copies:
            # the family of a history with a copy in it is the copy's: that is where a carried-along serialisation lives
            rows.extend((t, g, w, "copy") for t, g, w, f_ in H.run([c_, s]) if f_ is not None)
            rows.extend((t, g, w, "copy") for t, g, w, f_ in H.run([s, c_]) if f_ is not None)
    if pairs == "all":
        for s1 in core:
            for s2 in core:
                rows.extend(r for r in H.run([s1, s2]) if r[3] is not None)
    return rows, fresh


@R.clause("C01.i", "serialisation is a function of the message's current fields: after any earlier serialisation, comparison or copy, and whichever documented path changed a field since, encode() gives the RFC 7252 bytes of the fields the message has now")
def i_histories(ctx):
    H = Histories(ctx)
    enc = ctx.prog.func("message.Message.encode")
    rows, fresh = history_rows(ctx, H, pairs="copy")
    ctx.need(fresh is not None, "no history produced a first serialisation")
    ctx.ob("a newly built message with one option of every value format serialises to the reference encoding", fresh[1] == fresh[2], enc, enc.node, construct="history: new message",
           detail=first_diff([fresh[:3]]))
    # the properties of Options
    vrows = []
    views = H.views()
    for name, num in views:
        for obs in ("encode", "=="):
            r = K.attempt(H.I, lambda: H.view_history(name, num, obs))
            text = "new message; %s; opt.%s = <what the view shows for option %d with value %s>; encode()" % ("encode()" if obs == "encode" else "opt == other", name, num, HIST_RAWS[1].hex())
            if not r.ok:
                vrows.append((text, r.describe(), "serialised", "view"))
                continue
            pairs, changed = r.value
            ctx.need(changed, "assigning / deleting through Options.%s did not change the options read back through option_list()" % name)
            for k, (got, want) in enumerate(pairs):
                vrows.append((text + ("; del opt.%s; encode()" % name if k else ""), got.hex(), want.hex(), "view"))
    ctx.floor("properties of Options that expose an option", len(views), 20)
    n = history_obligations(ctx, rows + vrows)
    ctx.floor("histories evaluated", sum(n.values()), 150)


@R.clause("C01.i", "histories: every ordered pair of field-changing paths", tier="thorough")
def i_thorough(ctx):
    H = Histories(ctx)
    rows, _fresh = history_rows(ctx, H, pairs="all")
    history_obligations(ctx, rows, tag=" (all ordered pairs of paths)")



# ---------------------------------------------------------------------------
# seeds

F_M = "aiocoap/message.py"
F_O = "aiocoap/options.py"
F_T = "aiocoap/optiontypes.py"
R.seed("C01.a", F_M, "        except struct.error:\n            raise error.UnparsableMessage(\"Incoming message too short for CoAP\")", "        except KeyError:\n            raise error.UnparsableMessage(\"Incoming message too short for CoAP\")", "struct.error escapes")
R.seed("C01.a", F_O, "            if len(rawdata) < length:\n                raise UnparsableMessage(\"Option announced but absent\")", "            if len(rawdata) < length:\n                raise ValueError(\"Option announced but absent\")", "ValueError for truncated option")
R.seed("C01.a", F_O, "        if len(rawdata) < 1:\n            raise UnparsableMessage(\"Option ended prematurely\")\n", "", "IndexError on truncated extended delta")
R.seed("C01.b", "aiocoap/transports/udp6.py", "        except error.UnparsableMessage:\n            self.log.warning(\"Ignoring unparsable message from %s\", address)\n            return", "        except error.UnparsableMessage:\n            self.log.warning(\"Ignoring unparsable message from %s\", address)\n            raise", "unparsable datagram raises into the loop")
R.seed("C01.b", "aiocoap/transports/generic_udp.py", "        except error.UnparsableMessage:", "        except error.BadRequest:", "wrong class caught")
R.seed("C01.c", F_M, "                + ((self.mtype & 0x03) << 4)", "                + ((self.mtype & 0x03) << 5)", "type field shifted")
R.seed("C01.c", F_M, "        mtype = (vttkl & 0x30) >> 4", "        mtype = (vttkl & 0x60) >> 5", "reader takes the type from other bits")
R.seed("C01.c", F_M, "        rawdata += struct.pack(\"!BH\", self.code, self.mid)", "        rawdata += struct.pack(\"<BH\", self.code, self.mid)", "little endian mid")
R.seed("C01.c", F_M, "        if len(self.payload) > 0:\n            rawdata += bytes([0xFF])", "        if len(self.payload) >= 0:\n            rawdata += bytes([0xFF])", "marker without payload")
R.seed("C01.c", F_M, "        msg.token = rawdata[4 : 4 + token_length]", "        msg.token = rawdata[4 : 3 + token_length]", "token one byte short")
R.seed("C01.d", F_O, "    elif value >= 13 and value < 269:\n        return (13, (value - 13).to_bytes(1, \"big\"))", "    elif value >= 13 and value < 268:\n        return (13, (value - 13).to_bytes(1, \"big\"))", "writer boundary 268")
R.seed("C01.d", F_O, "        return (14, (value - 269).to_bytes(2, \"big\"))", "        return (14, (value - 268).to_bytes(2, \"big\"))", "writer offset 268")
R.seed("C01.d", F_O, "        return (int.from_bytes(rawdata[:2], \"big\") + 269, rawdata[2:])", "        return (int.from_bytes(rawdata[:2], \"little\") + 269, rawdata[2:])", "reader little endian")
R.seed("C01.d", F_O, "        return (rawdata[0] + 13, rawdata[1:])", "        return (rawdata[0] + 12, rawdata[1:])", "reader offset 12")
R.seed("C01.d", F_O, "            data.append(extended_delta)\n            data.append(extended_length)", "            data.append(extended_length)\n            data.append(extended_delta)", "extensions swapped")
R.seed("C01.d", F_O, "            sorted(self._options.values(), key=lambda x: x[0].number)", "            list(self._options.values())", "options not sorted")
R.seed("C01.d", F_O, "            delta = (dllen & 0xF0) >> 4\n            length = dllen & 0x0F", "            delta = dllen & 0x0F\n            length = (dllen & 0xF0) >> 4", "nibbles swapped in the reader")
R.seed("C01.d", F_O, "            current_opt_num = option.number\n", "", "deltas not relative")
R.seed("C01.e", F_T, "    return value.to_bytes((value.bit_length() + 7) // 8, \"big\")", "    return value.to_bytes((value.bit_length() + 8) // 8, \"big\")", "non-minimal uint")
R.seed("C01.e", F_T, "            + (self.value.more * 0x08)", "            + (self.value.more * 0x10)", "M bit misplaced")
R.seed("C01.e", F_T, "            size_exponent=(as_integer & 0x07),", "            size_exponent=(as_integer & 0x0F),", "SZX includes the M bit")
R.seed("C01.e", F_T, "        self.value = rawdata.decode(\"utf-8\")", "        self.value = rawdata.decode(\"latin-1\")", "codec mismatch")
R.seed("C01.f", "aiocoap/numbers/optionnumbers.py", "OptionNumber.URI_PORT.set_format(optiontypes.UintOption)", "OptionNumber.URI_PORT.set_format(optiontypes.StringOption)", "Uri-Port as string")
R.seed("C01.f", "aiocoap/numbers/optionnumbers.py", "    MAX_AGE = 14\n", "    MAX_AGE = 18\n", "wrong option number")

R.seed("C01.g", "aiocoap/util/__init__.py", "        cls._value2member_map_[value] = new_member\n", "        if len(cls._value2member_map_) < 1024:\n            cls._value2member_map_[value] = new_member\n", "members beyond the 1024th are throw-away objects: set_format on them is lost")
R.seed("C01.g", "aiocoap/numbers/optionnumbers.py", "        return type(self)(int(self) + delta)", "        return int.__new__(type(self), int(self) + delta)", "delta addition hands out throw-away members that bypass the member table: registered formats are not found while parsing")
R.seed("C01.h", "aiocoap/util/asyncio/recvmsg.py", "    max_size = 4096  #", "    max_size = 2048  #", "receive buffer halved: datagrams of 2049..4096 bytes are cut before they are parsed")
R.seed("C01.c", F_M, "        self.version = 1\n", "        self.version = 2\n", "wrong version written")
R.seed("C01.d", F_O, "        if len(rawdata) < 2:\n            raise UnparsableMessage(\"Option ended prematurely\")", "        if len(rawdata) < 1:\n            raise UnparsableMessage(\"Option ended prematurely\")", "two-byte extension accepted with one byte left")
R.seed("C01.d", F_O, "            if rawdata[0] == 0xFF:\n                return rawdata[1:]", "            if rawdata[0] == 0xFF:\n                return rawdata", "payload marker returned as part of the payload")
R.seed("C01.e", F_T, "        self.value = int.from_bytes(rawdata, \"big\")", "        self.value = int.from_bytes(rawdata, \"little\")", "uint option read little endian")
R.seed("C01.a", F_O, "            except UnicodeDecodeError:\n                raise UnparsableMessage(\"Option value is not valid UTF-8\")", "            except UnicodeEncodeError:\n                raise UnparsableMessage(\"Option value is not valid UTF-8\")", "invalid UTF-8 in a string option escapes as UnicodeDecodeError")
R.seed("C01.a", F_M, "        mtype = (vttkl & 0x30) >> 4", "        mtype = (vttkl & 0x70) >> 4", "type field read from three bits: Type(4..7) raises ValueError out of the parser")
R.seed("C01.i", F_O, "            optiondata = option.encode()\n", "            optiondata = option.__dict__.setdefault(\"_wire\", option.encode())\n", "each option's bytes are remembered in the option object: a value updated in place (or on a copy) never reaches the wire")
R.seed("C01.i", F_T, "        return _to_minimum_bytes(as_integer)", "        return self.__dict__.setdefault(\"_wire\", _to_minimum_bytes(as_integer))", "Block option remembers its first serialisation: the next block number is sent as the previous one")
R.seed("C01.i", F_M, "        rawdata += self.opt.encode()\n", "        rawdata += self.__dict__.setdefault(\"_optbytes\", self.opt.encode())\n", "the option bytes are remembered in the message: options added or removed after the first serialisation are not sent")
R.seed("C01.i", F_M, "        rawdata += struct.pack(\"!BH\", self.code, self.mid)", "        rawdata += self.__dict__.setdefault(\"_codemid\", struct.pack(\"!BH\", self.code, self.mid))", "code and message ID are remembered: a message re-sent under a new message ID goes out with the old one")
